#!/bin/bash
# usage: tools/sweep.sh <seed> [tier] [props...]  -- runs the checks one after the other, one summary line each
SEED=$1; TIER=${2:-quick}; shift; shift
PROPS=${@:-C01 C02 C03 C04 C05 C06 C07 C08 C09 C10 C11 C12 C13 C14 C15 C16 C17 C18 C19 C20}
cd /verif
for p in $PROPS; do
  VERIF_SEED=$SEED ./vcheck $p --tier $TIER > /tmp/sweep.$p.$SEED.out 2>&1; rc=$?
  echo "$p seed=$SEED rc=$rc $(grep -c '^VIOLATION' /tmp/sweep.$p.$SEED.out) viol $(grep -c '^KNOWN' /tmp/sweep.$p.$SEED.out) known | $(grep -E "$TIER seed=" /tmp/sweep.$p.$SEED.out | sed 's/.*cases=/cases=/') $(grep -E '^VIOLATION|HARNESS' /tmp/sweep.$p.$SEED.out | sed 's/.*key=//' | cut -c1-100 | tr '\n' ';')"
done
