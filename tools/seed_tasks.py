#!/usr/bin/env python3
"""tools/seed_tasks.py <Cxx>:<n> ...  -- creates scratch worktrees /tmp/seed<n> of /repo HEAD with a TASK.md for a seeding sub-agent.
The task text contains the property (title, statement, quantifier) and the names of source files earlier seeded changes touched,
nothing else from /verif."""
import json, sys, os, subprocess, re, glob
props = {}
for l in open('/verif/properties.jsonl'):
    p = json.loads(l); props[p['id']] = p
T = '''You are helping to evaluate a verification effort for the OMPL motion-planning library (C++). Your job is to play the role of a developer who introduces a subtle regression.

Work ONLY inside the git worktree {wt} (a checkout of ompl/ompl at the commit under study). Do not read or touch /verif, /repo, /root/.vp or any other directory outside {wt} and /tmp/{name}-scratch (you may create that). Nothing you do may depend on files outside those two directories.

THE PROPERTY (a semantic guarantee users of the library rely on):

Title: {title}
Statement: {statement}
It is quantified over: {quant}

YOUR TASK: produce TWO different, independent source changes to the library (files under {wt}/src/ompl only; not tests, not build files), call them change "a" and change "b", each of which
  1. breaks the property above (for some inputs / schedules / histories in its quantifier),
  2. still compiles, and still passes the repository's existing test suite (see below how to build and run it),
  3. needs something SPECIFIC to manifest -- a particular interleaving, a multi-step sequence of operations, an unusual input or parameter setting, a boundary value, or two cooperating sites that each look fine alone -- i.e. NOT something that ordinary use or the existing tests would expose at once. Prefer realistic regressions a maintainer could plausibly commit (an off-by-one, a dropped update on one path, a wrong comparison, a missing lock, a "harmless" optimisation, a forgotten reset), and make the two changes of clearly different character and in different functions/files if possible.
For each change also write a DEMONSTRATION: a small standalone C++ program (or test) that links against the library built from the worktree, exits 0 on the unchanged tree and exits non-zero (printing what went wrong) with the change applied. The demonstration must be deterministic (fix all seeds; call ompl::RNG::setSeed if the library RNG is involved; no wall-clock dependence) or, for concurrency bugs, must fail with high probability within a bounded number of repetitions.

How to build and test in the worktree (no network is available; all dependencies are installed):
  cd {wt} && cmake -G Ninja -B _build -DCMAKE_BUILD_TYPE=RelWithDebInfo -DOMPL_BUILD_DEMOS=OFF -DOMPL_BUILD_PYBINDINGS=OFF -DOMPL_REGISTRATION=OFF > /dev/null && cmake --build _build -j 6
  ctest --test-dir _build -j6 --timeout 900        # 116 tests, all pass on the unchanged tree, a few minutes
  # compile a demo against the built library:
  g++ -std=c++17 -O1 -g -I{wt}/src -I{wt}/_build/src -I/usr/include/eigen3 demo.cpp -o demo -L{wt}/_build/src/ompl -lompl -Wl,-rpath,{wt}/_build/src/ompl -lboost_serialization -lboost_filesystem -lboost_system -lpthread
(The machine is shared and busy: use at most 6 build jobs, be patient with builds and tests, and if a timing-sensitive test fails once under load, re-run that test alone before concluding anything. The first build takes several minutes. The build copies libompl.so into py-bindings/ -- ignore that file, do not include it in patches.)

Procedure for each change: start from a clean tree (git -C {wt} checkout -- src), make the edit, rebuild, run the FULL ctest suite and confirm 116/116 pass, build and run your demo (must fail), save the patch with `git -C {wt} diff -- src > patch.diff`, then `git -C {wt} checkout -- src`, rebuild, and confirm the demo passes (exit 0) on the unchanged tree.

Deliverables, under {wt}/out/a/ and {wt}/out/b/ : patch.diff (applies with `git apply` to the unchanged tree), demo.cpp (plus a one-line build command in a comment at its top), and notes.md saying: which clause of the property the change breaks, what exactly it needs in order to manifest (input class / sequence / interleaving / parameters), why the existing tests do not notice, and the commands you ran with their outcome (ctest summary line with and without the change, demo exit codes with and without the change). Leave the worktree itself clean (git status shows only out/ and _build/ as untracked) when you finish.

Additional constraint: earlier rounds of this exercise already produced changes in these source files: {touched}. Make your two changes somewhere else -- a different file, or at least a different function and a different mechanism -- so that the set of regressions stays diverse. {extra}

Your final message: for each of a and b, three or four sentences summarising the change, what it needs to manifest, and the verified outcomes. Do not paste the patch.'''
EXTRA = {}
for arg in sys.argv[1:]:
    pid, n = arg.split(':')
    wt = '/tmp/seed' + n
    if not os.path.isdir(wt):
        subprocess.run(['git', '-C', '/repo', 'worktree', 'add', '-q', '--detach', wt, 'HEAD'], check=True)
    touched = set()
    for f in glob.glob('/verif/seeded/%s-*/patch.diff' % pid):
        touched |= set(re.findall(r'^\+\+\+ b/(\S+)', open(f).read(), re.M))
    p = props[pid]
    open(wt + '/TASK.md', 'w').write(T.format(wt=wt, name='seed' + n, title=p['title'], statement=p['statement'],
        quant=p['quantifier']['text'], touched=', '.join(sorted(touched)) or '(none)', extra=EXTRA.get(pid, '')))
    print(pid, wt)
