#!/usr/bin/env python3
"""Regenerates /verif/MANIFEST.json from monitors/props.py (single source of truth for what is claimed)."""
import json, os, sys
ROOT = os.path.dirname(os.path.dirname(os.path.abspath(__file__)))
sys.path.insert(0, os.path.join(ROOT, 'monitors'))
import props as P

ids = [json.loads(l)['id'] for l in open(os.path.join(ROOT, 'properties.jsonl'))]
checks = []
for pid in ids:
    if pid not in P.PROPS:
        continue
    c = P.PROPS[pid]
    checks.append(dict(
        property_id=pid,
        quick_cmd='./vcheck %s --tier quick' % pid,
        thorough_cmd='./vcheck %s --tier thorough' % pid,
        evidence_file='/verif/evidence/%s.json' % pid,
        replay_cmd_template='./vcheck replay {path}',
        engine=c['engine'],
        level_claimed=dict(category=c['level'], text=c.get('level_text', c['rule']), design_ref='DESIGN.md §4/' + pid),
        level_note=c.get('level_note', 'Held on the executions produced: generated cases within the stated bounds, '
                                       'observed by the oracle on sanitizer builds of /repo\'s current tree; says nothing '
                                       'about inputs outside the generators. Trusted: the harness oracle/model, gcc '
                                       'sanitizer runtimes.'),
        technique=c.get('technique', 'runtime monitoring: model-based oracle over generated executions under ASan+UBSan')))
na = [dict(property_id=pid, reason=P.NOT_CLAIMED.get(pid, 'check not built yet in this revision of /verif (planned, see DESIGN.md §4)'))
      for pid in ids if pid not in P.PROPS]
hooks_commits = P.HOOK_COMMITS
m = dict(
    version=1,
    setup_cmd='./vcheck setup',
    hooks=dict(guard='OMPL_VERIF',
               enable='own CMake build (/verif/CMakeLists.txt) compiles /repo/src with -DOMPL_VERIF=1 into /verif/build/{asan,tsan,plain}',
               baseline_off_cmd='cmake --build /repo/_build && ctest --test-dir /repo/_build -j8 --timeout 900',
               source_commits=hooks_commits, add_only=True),
    engines=[dict(name=n, path='harness/%s.cpp' % n,
                  serves_properties=sorted(p for p in P.PROPS if n in [P.PROPS[p]['engine']] + list(P.PROPS[p].get('extra_engines', []))),
                  kind_free_text=P.ENGINES.get(n, ''))
             for n in sorted(set(e for c in P.PROPS.values() for e in [c['engine']] + list(c.get('extra_engines', []))))],
    checks=checks,
    notes='Runtime monitoring and sanitizers only. Exit 0 held / 1 VIOLATION / 2 harness failure or coverage floor not met. '
          'Known findings: /verif/known_findings.json. VERIF_SEED selects the generator seed.',
    not_applicable=na)
json.dump(m, open(os.path.join(ROOT, 'MANIFEST.json'), 'w'), indent=1)
print('claimed', len(checks), 'not claimed', len(na))
