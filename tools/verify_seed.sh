#!/bin/bash
# usage: tools/verify_seed.sh <worktree> <a|b> -- independent confirmation of a seeded regression in its scratch worktree:
#   unchanged tree: demo exits 0;  with the patch: builds, the repository's ctest suite passes, demo exits non-zero
set -u
WT=$1; X=$2; OUT=$WT/out/$X; LOG=$OUT/verify.log
cd $WT || exit 2
git checkout -q -- src
{
echo "== unchanged build"; cmake --build _build -j 8 2>&1 | tail -1
DEMO=$OUT/demo.cpp
g++ -std=c++17 -O1 -g -I$WT/src -I$WT/_build/src -I/usr/include/eigen3 $DEMO -o $OUT/demo.bin -L$WT/_build/src/ompl -lompl -Wl,-rpath,$WT/_build/src/ompl -lboost_serialization -lboost_filesystem -lboost_system -lpthread 2>&1 | tail -3
timeout 600 $OUT/demo.bin > $OUT/demo.unchanged.out 2>&1; echo "demo_unchanged_exit=$?"
echo "== patched build"; git apply $OUT/patch.diff || echo "APPLY FAILED"
cmake --build _build -j 8 2>&1 | tail -1
g++ -std=c++17 -O1 -g -I$WT/src -I$WT/_build/src -I/usr/include/eigen3 $DEMO -o $OUT/demo.bin -L$WT/_build/src/ompl -lompl -Wl,-rpath,$WT/_build/src/ompl -lboost_serialization -lboost_filesystem -lboost_system -lpthread 2>&1 | tail -3
ctest --test-dir _build -j6 --timeout 900 2>&1 | grep -E "tests passed|tests failed|Failed" | head -5
timeout 600 $OUT/demo.bin > $OUT/demo.patched.out 2>&1; echo "demo_patched_exit=$?"
git checkout -q -- src
rm -f $OUT/demo.bin
} > $LOG 2>&1
grep -E "exit=|tests passed|tests failed|APPLY" $LOG | tr '\n' ' '; echo
