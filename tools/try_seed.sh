#!/bin/bash
# usage: tools/try_seed.sh <patch.diff> <Cxx> [tier]   -- runs a check against a seeded regression in the scratch worktree /tmp/trial
set -u
PATCH=$1; PROP=$2; TIER=${3:-quick}
WT=${TRIAL_WT:-/tmp/trial}; TAG=$(basename $WT)
if [ ! -d $WT ]; then git -C /repo worktree add -q --detach $WT HEAD || exit 2; fi
git -C $WT checkout -q --detach $(git -C /repo rev-parse HEAD) || exit 2
git -C $WT checkout -q -- . 
git -C $WT apply "$PATCH" 2>/dev/null || git -C $WT apply -3 "$PATCH" || { echo "PATCH DOES NOT APPLY"; exit 2; }; git -C $WT reset -q
cd /verif
cp -f evidence/$PROP.json /tmp/$TAG.evidence.$PROP.json 2>/dev/null
VERIF_REPO=$WT VERIF_KEEP= ./vcheck $PROP --tier $TIER > /tmp/$TAG.out 2>&1; rc=$?
git -C $WT checkout -q -- .
cp -f /tmp/$TAG.evidence.$PROP.json evidence/$PROP.json 2>/dev/null   # evidence files only ever come from runs against /repo itself
grep -E "^VIOLATION|^KNOWN|HARNESS|quick seed|thorough seed" /tmp/$TAG.out | grep -v "^KNOWN" | cut -c1-300 | head -12
echo "exit=$rc"
