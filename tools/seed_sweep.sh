#!/bin/bash
# usage: tools/seed_sweep.sh <id>...   -- re-runs the registered quick check against kept seeded regressions (scratch worktree /tmp/trial)
cd /verif
for id in "$@"; do
  prop=${id%%-*}
  out=$(tools/try_seed.sh /verif/seeded/$id/patch.diff $prop 2>&1)
  rc=$(echo "$out" | grep -o 'exit=[0-9]*' | tail -1)
  keys=$(echo "$out" | grep '^VIOLATION' | sed 's/.*key=//' | cut -c1-90 | tr '\n' ';')
  echo "$id $rc $keys"
done
