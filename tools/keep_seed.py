#!/usr/bin/env python3
"""tools/keep_seed.py <worktree> <a|b> <Cxx> <id> "<caught-by keys>"  -- files a confirmed seeded regression under /verif/seeded/<id>/"""
import sys, os, shutil, json, subprocess, re
wt, x, prop, sid, caught = sys.argv[1:6]
src = os.path.join(wt, 'out', x)
if not os.path.isdir(src):
    src = os.path.join(wt, 'out.done', x)
if not os.path.isdir(src):
    src = os.path.join(wt, x)   # a plain directory holding <a|b>/patch.diff, demo.cpp, notes.md, verify.log
dst = os.path.join('/verif/seeded', sid)
os.makedirs(dst, exist_ok=True)
# re-base the patch on the current /repo HEAD through the trial worktree
trial = os.environ.get('KEEP_WT', '/tmp/keepwt')
if not os.path.isdir(trial):
    subprocess.run(['git', '-C', '/repo', 'worktree', 'add', '-q', '--detach', trial, 'HEAD'], check=True)
head = subprocess.check_output(['git', '-C', '/repo', 'rev-parse', 'HEAD'], text=True).strip()
subprocess.run(['git', '-C', trial, 'checkout', '-q', '--detach', head], check=True)
subprocess.run(['git', '-C', trial, 'checkout', '-q', '--', '.'], check=True)
r = subprocess.run(['git', '-C', trial, 'apply', os.path.join(src, 'patch.diff')])
if r.returncode != 0:
    subprocess.run(['git', '-C', trial, 'apply', '-3', os.path.join(src, 'patch.diff')], check=True)
    subprocess.run(['git', '-C', trial, 'reset', '-q'], check=True)
diff = subprocess.check_output(['git', '-C', trial, 'diff', '--', 'src'], text=True)
subprocess.run(['git', '-C', trial, 'checkout', '-q', '--', '.'], check=True)
open(os.path.join(dst, 'patch.diff'), 'w').write(diff)
for f in ('demo.cpp', 'notes.md'):
    if os.path.exists(os.path.join(src, f)):
        shutil.copy(os.path.join(src, f), os.path.join(dst, f))
vlog = open(os.path.join(src, 'verify.log')).read() if os.path.exists(os.path.join(src, 'verify.log')) else ''
notes = open(os.path.join(src, 'notes.md')).read() if os.path.exists(os.path.join(src, 'notes.md')) else ''
meta = dict(id=sid, property=prop, files_changed=sorted(set(re.findall(r'^\+\+\+ b/(\S+)', diff, re.M))),
            needs_to_manifest=(re.search(r'(?is)(needs?|trigger|manifest)[^\n]*\n(.{0,900})', notes).group(0)[:1000] if re.search(r'(?is)(needs?|trigger|manifest)', notes) else 'see notes.md'),
            confirmed_in_scratch_worktree=dict(
                how='tools/verify_seed.sh: unchanged tree demo exit; patched tree: build, ctest of the repository suite, demo exit',
                demo_unchanged_exit=(re.search(r'demo_unchanged_exit=(\d+)', vlog) or [None, None])[1],
                ctest_with_patch=(re.search(r'(\d+% tests passed[^\n]*)', vlog) or [None, None])[1],
                demo_patched_exit=(re.search(r'demo_patched_exit=(\d+)', vlog) or [None, None])[1]),
            check_run='tools/try_seed.sh seeded/%s/patch.diff %s  (VERIF_SEED=1, quick tier, patch applied in scratch worktree /tmp/trial built through VERIF_REPO)' % (sid, prop),
            caught=bool(caught and caught != 'MISSED'), caught_by_keys=caught.split(',') if caught and caught != 'MISSED' else [])
json.dump(meta, open(os.path.join(dst, 'meta.json'), 'w'), indent=1)
print('kept', sid, 'caught' if meta['caught'] else 'MISSED')
