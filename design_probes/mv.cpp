// design-phase probe: C05 motion validator reference model (throw-away)
#include <ompl/base/spaces/RealVectorStateSpace.h>
#include <ompl/base/spaces/SE2StateSpace.h>
#include <ompl/base/spaces/SE3StateSpace.h>
#include <ompl/base/spaces/SO2StateSpace.h>
#include <ompl/base/spaces/DubinsStateSpace.h>
#include <ompl/base/spaces/ReedsSheppStateSpace.h>
#include <ompl/base/SpaceInformation.h>
#include <ompl/util/Console.h>
#include <random>
#include <map>
#include <cstdio>
namespace ob = ompl::base;
int main()
{
    ompl::msg::setLogLevel(ompl::msg::LOG_NONE); std::mt19937 g(11);
    std::vector<std::pair<std::string, ob::StateSpacePtr>> zoo;
    { auto s = std::make_shared<ob::RealVectorStateSpace>(3); s->setBounds(-1, 1); zoo.push_back({"R3", s}); }
    zoo.push_back({"SO2", std::make_shared<ob::SO2StateSpace>()});
    { auto s = std::make_shared<ob::SE2StateSpace>(); ob::RealVectorBounds b(2); b.setLow(-2); b.setHigh(2); s->setBounds(b); zoo.push_back({"SE2", s}); }
    { auto s = std::make_shared<ob::SE3StateSpace>(); ob::RealVectorBounds b(3); b.setLow(-2); b.setHigh(2); s->setBounds(b); zoo.push_back({"SE3", s}); }
    { auto s = std::make_shared<ob::DubinsStateSpace>(0.7); ob::RealVectorBounds b(2); b.setLow(-2); b.setHigh(2); s->setBounds(b); zoo.push_back({"Dubins", s}); }
    { auto s = std::make_shared<ob::DubinsStateSpace>(0.7, true); ob::RealVectorBounds b(2); b.setLow(-2); b.setHigh(2); s->setBounds(b); zoo.push_back({"DubinsSym", s}); }
    { auto s = std::make_shared<ob::ReedsSheppStateSpace>(0.7); ob::RealVectorBounds b(2); b.setLow(-2); b.setHigh(2); s->setBounds(b); zoo.push_back({"ReedsShepp", s}); }
    for (auto &z : zoo)
    {
        auto sp = z.second; auto si = std::make_shared<ob::SpaceInformation>(sp);
        // predicate: invalid iff state equals (within 1e-12 distance) the currently forbidden state
        ob::State *forbidden = sp->allocState(); bool haveForbidden = false; long queries = 0;
        si->setStateValidityChecker([&](const ob::State *s) { ++queries; if (!haveForbidden) return true; return !(sp->equalStates(s, forbidden)); });
        double res = (g() % 2) ? 0.03 : 0.11; si->setStateValidityCheckingResolution(res); sp->setValidSegmentCountFactor(1 + g() % 3); si->setup();
        auto smp = sp->allocStateSampler(); ob::State *a = sp->allocState(), *b = sp->allocState(), *lv = sp->allocState(), *ref = sp->allocState();
        long cases = 0, badVerdict1 = 0, badVerdict2 = 0, disagree = 0, badFrac = 0, badLastState = 0, badCounter = 0, touchedOnSuccess = 0;
        for (int t = 0; t < 300; ++t)
        {
            smp->sampleUniform(a); smp->sampleUniform(b); if (t % 7 == 0) sp->copyState(b, a);
            if (t % 5 == 1) smp->sampleUniformNear(b, a, 0.5 * res * sp->getMaximumExtent());
            unsigned nd = sp->validSegmentCount(a, b);
            for (unsigned j = 0; j <= nd + 1 && j <= 200; ++j)   // j==nd+1: all valid
            {
                // forbidden point p_j (j in 1..nd), j==0 means end state b itself invalid (only when nd>=1)
                haveForbidden = j <= nd && !(j == 0 && nd == 0);
                unsigned jj = (j == 0) ? nd : j;   // j==0 -> forbid b (index nd)
                if (haveForbidden) { if (jj == nd) sp->copyState(forbidden, b); else sp->interpolate(a, b, (double)jj / nd, forbidden); if (sp->equalStates(forbidden, a)) continue; }
                // duplicates: other p_i may equal forbidden (e.g. zero-length): compute expected by scanning
                bool expect = true; unsigned firstBad = 0; for (unsigned i = 1; i <= nd; ++i) { if (i == nd) sp->copyState(ref, b); else sp->interpolate(a, b, (double)i / nd, ref); if (haveForbidden && sp->equalStates(ref, forbidden)) { expect = false; firstBad = i; break; } }
                if (nd == 0) expect = true;
                unsigned v0 = si->getMotionValidator()->getValidMotionCount(), i0 = si->getMotionValidator()->getInvalidMotionCount();
                bool r1 = si->checkMotion(a, b);
                unsigned v1 = si->getMotionValidator()->getValidMotionCount(), i1 = si->getMotionValidator()->getInvalidMotionCount();
                if ((v1 - v0) + (i1 - i0) != 1 || (r1 && v1 - v0 != 1) || (!r1 && i1 - i0 != 1)) ++badCounter;
                std::pair<ob::State *, double> last(lv, -7.0); sp->copyState(lv, a);
                bool r2 = si->checkMotion(a, b, last);
                unsigned v2 = si->getMotionValidator()->getValidMotionCount(), i2 = si->getMotionValidator()->getInvalidMotionCount();
                if ((v2 - v1) + (i2 - i1) != 1) ++badCounter;
                ++cases; if (r1 != expect) ++badVerdict1; if (r2 != expect) ++badVerdict2; if (r1 != r2) ++disagree;
                if (r2 && last.second != -7.0) ++touchedOnSuccess;
                if (!r2 && !expect) { double f = last.second; double want = (double)(firstBad - 1) / nd; if (!(f >= 0 && f < 1) || std::fabs(f - want) > 1e-12) ++badFrac; sp->interpolate(a, b, f, ref); if (!sp->equalStates(ref, lv) && sp->distance(ref, lv) > 1e-9) ++badLastState; }
            }
        }
        printf("%-10s cases=%ld badVerdict(bisect)=%ld badVerdict(scan)=%ld disagree=%ld badFraction=%ld badLastState=%ld badCounter=%ld touchedOnSuccess=%ld\n", z.first.c_str(), cases, badVerdict1, badVerdict2, disagree, badFrac, badLastState, badCounter, touchedOnSuccess);
        sp->freeState(a); sp->freeState(b); sp->freeState(lv); sp->freeState(ref); sp->freeState(forbidden);
    }
}
