#include <ompl/base/spaces/RealVectorStateSpace.h>
#include <ompl/base/SpaceInformation.h>
#include <ompl/base/ProblemDefinition.h>
#include <ompl/base/PlannerTerminationCondition.h>
#include <ompl/base/ScopedState.h>
#include <ompl/base/objectives/PathLengthOptimizationObjective.h>
#include <ompl/geometric/PathGeometric.h>
#include <ompl/geometric/planners/PlannerIncludes.h>
#include <ompl/geometric/planners/rrt/RRT.h>
#include <ompl/geometric/planners/rrt/RRTConnect.h>
#include <ompl/geometric/planners/rrt/RRTstar.h>
#include <ompl/geometric/planners/rrt/InformedRRTstar.h>
#include <ompl/geometric/planners/rrt/SORRTstar.h>
#include <ompl/geometric/planners/rrt/RRTsharp.h>
#include <ompl/geometric/planners/rrt/RRTXstatic.h>
#include <ompl/geometric/planners/rrt/LBTRRT.h>
#include <ompl/geometric/planners/rrt/LazyLBTRRT.h>
#include <ompl/geometric/planners/rrt/LazyRRT.h>
#include <ompl/geometric/planners/rrt/TRRT.h>
#include <ompl/geometric/planners/rrt/BiTRRT.h>
#include <ompl/geometric/planners/rrt/pRRT.h>
#include <ompl/geometric/planners/est/EST.h>
#include <ompl/geometric/planners/est/BiEST.h>
#include <ompl/geometric/planners/est/ProjEST.h>
#include <ompl/geometric/planners/kpiece/KPIECE1.h>
#include <ompl/geometric/planners/kpiece/BKPIECE1.h>
#include <ompl/geometric/planners/kpiece/LBKPIECE1.h>
#include <ompl/geometric/planners/pdst/PDST.h>
#include <ompl/geometric/planners/sbl/SBL.h>
#include <ompl/geometric/planners/sbl/pSBL.h>
#include <ompl/geometric/planners/stride/STRIDE.h>
#include <ompl/geometric/planners/fmt/FMT.h>
#include <ompl/geometric/planners/fmt/BFMT.h>
#include <ompl/geometric/planners/prm/PRM.h>
#include <ompl/geometric/planners/prm/PRMstar.h>
#include <ompl/geometric/planners/prm/LazyPRM.h>
#include <ompl/geometric/planners/prm/LazyPRMstar.h>
#include <ompl/geometric/planners/prm/SPARS.h>
#include <ompl/geometric/planners/prm/SPARStwo.h>
#include <ompl/geometric/planners/sst/SST.h>
#include <ompl/geometric/planners/rlrt/RLRT.h>
#include <ompl/geometric/planners/rlrt/BiRLRT.h>
#include <ompl/geometric/planners/informedtrees/BITstar.h>
#include <ompl/geometric/planners/informedtrees/ABITstar.h>
#include <ompl/geometric/planners/informedtrees/AITstar.h>
#include <ompl/geometric/planners/informedtrees/EITstar.h>
#include <ompl/geometric/planners/informedtrees/EIRMstar.h>
#include <ompl/geometric/planners/cforest/CForest.h>
#include <ompl/geometric/planners/AnytimePathShortening.h>
#include <ompl/multilevel/planners/qrrt/QRRT.h>
#include <ompl/multilevel/planners/qrrt/QRRTStar.h>
#include <ompl/multilevel/planners/qmp/QMP.h>
#include <ompl/multilevel/planners/qmp/QMPStar.h>
#include <ompl/util/Console.h>
#include <atomic>
#include <chrono>
#include <cstdio>
#include <random>
#include <ompl/base/PlannerData.h>
namespace ob = ompl::base; namespace og = ompl::geometric; namespace om = ompl::multilevel;
template <class P> ob::PlannerPtr mk(const ob::SpaceInformationPtr &si) { return std::make_shared<P>(si); }
int main(int argc, char **argv)
{
    unsigned long budget = argc > 1 ? atol(argv[1]) : 20000;
    int seed = argc > 2 ? atoi(argv[2]) : 7;
    ompl::RNG::setSeed(seed);
    int kmax = argc > 4 ? atoi(argv[4]) : -1;
    std::mt19937 gen(seed);
    struct Ball { double x, y, r; };
    std::vector<Ball> balls;
    std::uniform_real_distribution<double> U(0, 10);
    const double res = 0.01, ext = std::sqrt(200.0), rl = res * ext;  // resolution length
    for (int i = 0; i < 8; ++i) { Ball b{U(gen), U(gen), 0.0}; b.r = 2 * rl + U(gen) * 0.12; if (std::hypot(b.x-1,b.y-1) < b.r + 0.5 || std::hypot(b.x-9,b.y-9) < b.r + 0.5) { --i; continue; } balls.push_back(b); }
    auto valid = [balls](const ob::State *s) { const double *v = s->as<ob::RealVectorStateSpace::StateType>()->values; for (auto &b : balls) if (std::hypot(v[0]-b.x, v[1]-b.y) < b.r) return false; return true; };
    ompl::msg::setLogLevel(ompl::msg::LOG_NONE);
    auto sp = std::make_shared<ob::RealVectorStateSpace>(2);
    sp->setBounds(0, 10);
    auto si = std::make_shared<ob::SpaceInformation>(sp);
    // wall with a gap
    si->setStateValidityChecker(valid);
    si->setStateValidityCheckingResolution(res);
    si->setup();
    std::vector<ob::SpaceInformationPtr> siv{si};
    std::vector<std::pair<const char *, std::function<ob::PlannerPtr()>>> P = {
#define E(T) {#T, [&] { return mk<og::T>(si); }}
        E(RRT), E(RRTConnect), E(RRTstar), E(InformedRRTstar), E(SORRTstar), E(RRTsharp), E(RRTXstatic), E(LBTRRT), E(LazyLBTRRT), E(LazyRRT), E(TRRT), E(BiTRRT), E(pRRT),
        E(EST), E(BiEST), E(ProjEST), E(KPIECE1), E(BKPIECE1), E(LBKPIECE1), E(PDST), E(SBL), E(pSBL), E(STRIDE), E(FMT), E(BFMT), E(PRM), E(PRMstar), E(LazyPRM), E(LazyPRMstar), E(SPARS), E(SPARStwo),
        E(SST), E(RLRT), E(BiRLRT), E(BITstar), E(ABITstar), E(AITstar), E(EITstar), E(EIRMstar), E(CForest), E(AnytimePathShortening),
        {"QRRT", [&] { return std::make_shared<om::QRRT>(siv); }},
        {"QRRTStar", [&] { return std::make_shared<om::QRRTStar>(siv); }},
        {"QMP", [&] { return std::make_shared<om::QMP>(siv); }},
        {"QMPStar", [&] { return std::make_shared<om::QMPStar>(siv); }},
    };
    for (auto &e : P)
    {
        if (argc > 3 && std::string(argv[3]) != e.first) continue;
        auto dense = [&](const og::PathGeometric &p) { double worst = 0; ob::State *tmp = si->allocState(); for (size_t i = 0; i + 1 < p.getStateCount(); ++i) { const ob::State *a = p.getState(i), *b = p.getState(i+1); double d = si->distance(a, b); int m = std::max(1, (int)std::ceil(d / (rl/4))); double run = 0; for (int j = 0; j <= m; ++j) { sp->interpolate(a, b, (double)j/m, tmp); if (!si->isValid(tmp)) { run += d/m; worst = std::max(worst, run); } else run = 0; } } si->freeState(tmp); return worst / rl; };
        double Q[3][4] = {{1, 1, 9, 9}, {9, 1, 1, 9}, {5, 0.3, 5, 9.7}};
        auto mkq = [&](ob::ProblemDefinitionPtr &pd, int q) { ob::ScopedState<> s(si), g(si); s[0] = Q[q][0]; s[1] = Q[q][1]; g[0] = Q[q][2]; g[1] = Q[q][3]; pd->clearSolutionPaths(); pd->setStartAndGoalStates(s, g, 0.05); };
        auto pdef = std::make_shared<ob::ProblemDefinition>(si); auto opt = std::make_shared<ob::PathLengthOptimizationObjective>(si); opt->setCostThreshold(opt->infiniteCost()); pdef->setOptimizationObjective(opt);
        mkq(pdef, 0); ob::PlannerPtr pl;
        try { pl = e.second(); pl->setProblemDefinition(pdef); pl->setup(); } catch (std::exception &ex) { printf("%-22s SETUP-EXC %s\n", e.first, ex.what()); continue; }
        std::string log; int anomalies = 0;
        auto run = [&](ob::ProblemDefinitionPtr &pd, int q, const char *tag, unsigned long bud) {
            std::atomic<unsigned long> n{0}; ob::PlannerStatus st; try { st = pl->solve(ob::PlannerTerminationCondition([&] { return ++n > bud || pd->hasExactSolution(); })); } catch (std::exception &ex) { log += std::string(" ") + tag + ":EXC(" + ex.what() + ")"; ++anomalies; return; }
            auto path = std::dynamic_pointer_cast<og::PathGeometric>(pd->getSolutionPath()); char buf[200]; bool startOk = true, goalOk = true; double dn = 0;
            if (path && path->getStateCount()) { const double *a = path->getState(0)->as<ob::RealVectorStateSpace::StateType>()->values; startOk = std::fabs(a[0] - Q[q][0]) < 1e-9 && std::fabs(a[1] - Q[q][1]) < 1e-9; goalOk = pd->hasApproximateSolution() || pd->getGoal()->isSatisfied(path->getState(path->getStateCount() - 1)); dn = dense(*path); }
            bool statusOk = ((bool)st) == (pd->getSolutionCount() > 0) && (st != ob::PlannerStatus::EXACT_SOLUTION || pd->hasExactSolution());
            if (!startOk || !goalOk || dn > 2 || !statusOk) ++anomalies;
            snprintf(buf, 200, " %s:%s/n%zu%s%s%s%s", tag, st.asString().substr(0, 5).c_str(), path ? path->getStateCount() : 0, startOk ? "" : "/START-WRONG", goalOk ? "" : "/GOAL-WRONG", dn > 2 ? "/DENSE" : "", statusOk ? "" : "/STATUS"); log += buf; };
        unsigned long B = std::min<unsigned long>(budget, (std::string(e.first).find("Q") == 0 || std::string(e.first) == "LBTRRT") ? 600 : 4000);
        run(pdef, 0, "q0", B); run(pdef, 0, "q0again", B / 4);
        pl->clear(); { ob::PlannerData pd(si); pl->getPlannerData(pd); if (pd.numVertices() != 0) { log += " clear:PD=" + std::to_string(pd.numVertices()); ++anomalies; } }
        mkq(pdef, 1); run(pdef, 1, "clear+q1", B);
        auto pdef2 = std::make_shared<ob::ProblemDefinition>(si); pdef2->setOptimizationObjective(opt); mkq(pdef2, 2); try { pl->setProblemDefinition(pdef2); } catch (std::exception &ex) { log += " setPD:EXC"; ++anomalies; }
        run(pdef2, 2, "newpd+q2", B);
        pl->clear(); pl->clear(); pl->solve(ob::plannerAlwaysTerminatingCondition());
        printf("%-22s anomalies=%d%s\n", e.first, anomalies, log.c_str());
        fflush(stdout);
    }
}
