#include <ompl/datastructures/NearestNeighborsGNAT.h>
#include <random>
#include <set>
#include <cstdio>
int main(int argc, char **argv)
{
    int leaf = argc > 1 ? atoi(argv[1]) : 2, degree = argc > 2 ? atoi(argv[2]) : 8, cache = argc > 3 ? atoi(argv[3]) : 50;
    std::mt19937 g(5);
    int mism = 0, trials = 300, rmfalse = 0, listdiff = 0, sizediff = 0;
    for (int t = 0; t < trials; ++t)
    {
        ompl::NearestNeighborsGNAT<int> nn(degree, 4, 12, leaf, cache, false);
        std::vector<double> pts(400); for (auto &p : pts) p = std::uniform_real_distribution<double>(0, 100)(g);
        nn.setDistanceFunction([&](const int &a, const int &b) { return std::fabs(pts[a] - pts[b]); });
        std::multiset<int> model; int next = 0;
        for (int op = 0; op < 200 && next < 400; ++op)
        {
            int r = g() % 10;
            if (r < 6 || model.empty()) { nn.add(next); model.insert(next); ++next; }
            else { auto it = model.begin(); std::advance(it, g() % model.size()); int v = *it; bool ok = nn.remove(v); if (ok) model.erase(it); else { ++mism; ++rmfalse; if (t < 3) printf("t=%d op=%d remove(%d) returned false, size=%zu model=%zu\n", t, op, v, nn.size(), model.size()); break; } }
            std::vector<int> lst; nn.list(lst);
            std::multiset<int> got(lst.begin(), lst.end());
            if (got != model) { ++mism; ++listdiff; if (t < 3) printf("t=%d op=%d list differs: got %zu model %zu size()=%zu\n", t, op, got.size(), model.size(), nn.size()); break; }
            if (nn.size() != model.size()) { ++mism; ++sizediff; break; }
        }
    }
    printf("leaf=%d degree=%d cache=%d: %d/%d diverge (removeFalse=%d listDiff=%d sizeDiff=%d)\n", leaf, degree, cache, mism, trials, rmfalse, listdiff, sizediff);
}
