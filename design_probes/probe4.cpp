#include <ompl/base/spaces/RealVectorStateSpace.h>
#include <ompl/base/SpaceInformation.h>
#include <ompl/base/ProblemDefinition.h>
#include <ompl/base/PlannerTerminationCondition.h>
#include <ompl/base/ScopedState.h>
#include <ompl/base/objectives/PathLengthOptimizationObjective.h>
#include <ompl/geometric/PathGeometric.h>
#include <ompl/geometric/planners/PlannerIncludes.h>
#include <ompl/geometric/planners/rrt/RRT.h>
#include <ompl/geometric/planners/rrt/RRTConnect.h>
#include <ompl/geometric/planners/rrt/RRTstar.h>
#include <ompl/geometric/planners/rrt/InformedRRTstar.h>
#include <ompl/geometric/planners/rrt/SORRTstar.h>
#include <ompl/geometric/planners/rrt/RRTsharp.h>
#include <ompl/geometric/planners/rrt/RRTXstatic.h>
#include <ompl/geometric/planners/rrt/LBTRRT.h>
#include <ompl/geometric/planners/rrt/LazyLBTRRT.h>
#include <ompl/geometric/planners/rrt/LazyRRT.h>
#include <ompl/geometric/planners/rrt/TRRT.h>
#include <ompl/geometric/planners/rrt/BiTRRT.h>
#include <ompl/geometric/planners/rrt/pRRT.h>
#include <ompl/geometric/planners/est/EST.h>
#include <ompl/geometric/planners/est/BiEST.h>
#include <ompl/geometric/planners/est/ProjEST.h>
#include <ompl/geometric/planners/kpiece/KPIECE1.h>
#include <ompl/geometric/planners/kpiece/BKPIECE1.h>
#include <ompl/geometric/planners/kpiece/LBKPIECE1.h>
#include <ompl/geometric/planners/pdst/PDST.h>
#include <ompl/geometric/planners/sbl/SBL.h>
#include <ompl/geometric/planners/sbl/pSBL.h>
#include <ompl/geometric/planners/stride/STRIDE.h>
#include <ompl/geometric/planners/fmt/FMT.h>
#include <ompl/geometric/planners/fmt/BFMT.h>
#include <ompl/geometric/planners/prm/PRM.h>
#include <ompl/geometric/planners/prm/PRMstar.h>
#include <ompl/geometric/planners/prm/LazyPRM.h>
#include <ompl/geometric/planners/prm/LazyPRMstar.h>
#include <ompl/geometric/planners/prm/SPARS.h>
#include <ompl/geometric/planners/prm/SPARStwo.h>
#include <ompl/geometric/planners/sst/SST.h>
#include <ompl/geometric/planners/rlrt/RLRT.h>
#include <ompl/geometric/planners/rlrt/BiRLRT.h>
#include <ompl/geometric/planners/informedtrees/BITstar.h>
#include <ompl/geometric/planners/informedtrees/ABITstar.h>
#include <ompl/geometric/planners/informedtrees/AITstar.h>
#include <ompl/geometric/planners/informedtrees/EITstar.h>
#include <ompl/geometric/planners/informedtrees/EIRMstar.h>
#include <ompl/geometric/planners/cforest/CForest.h>
#include <ompl/geometric/planners/AnytimePathShortening.h>
#include <ompl/multilevel/planners/qrrt/QRRT.h>
#include <ompl/multilevel/planners/qrrt/QRRTStar.h>
#include <ompl/multilevel/planners/qmp/QMP.h>
#include <ompl/multilevel/planners/qmp/QMPStar.h>
#include <ompl/util/Console.h>
#include <atomic>
#include <chrono>
#include <cstdio>
#include <random>
namespace ob = ompl::base; namespace og = ompl::geometric; namespace om = ompl::multilevel;
template <class P> ob::PlannerPtr mk(const ob::SpaceInformationPtr &si) { return std::make_shared<P>(si); }
int main(int argc, char **argv)
{
    unsigned long budget = argc > 1 ? atol(argv[1]) : 20000;
    int seed = argc > 2 ? atoi(argv[2]) : 7;
    ompl::RNG::setSeed(seed);
    int kmax = argc > 4 ? atoi(argv[4]) : -1;
    std::mt19937 gen(seed);
    struct Ball { double x, y, r; };
    std::vector<Ball> balls;
    std::uniform_real_distribution<double> U(0, 10);
    const double res = 0.01, ext = std::sqrt(200.0), rl = res * ext;  // resolution length
    for (int i = 0; i < 8; ++i) { Ball b{U(gen), U(gen), 0.0}; b.r = 2 * rl + U(gen) * 0.12; if (std::hypot(b.x-1,b.y-1) < b.r + 0.5 || std::hypot(b.x-9,b.y-9) < b.r + 0.5) { --i; continue; } balls.push_back(b); }
    auto valid = [balls](const ob::State *s) { const double *v = s->as<ob::RealVectorStateSpace::StateType>()->values; for (auto &b : balls) if (std::hypot(v[0]-b.x, v[1]-b.y) < b.r) return false; return true; };
    ompl::msg::setLogLevel(ompl::msg::LOG_NONE);
    auto sp = std::make_shared<ob::RealVectorStateSpace>(2);
    sp->setBounds(0, 10);
    auto si = std::make_shared<ob::SpaceInformation>(sp);
    // wall with a gap
    si->setStateValidityChecker(valid);
    si->setStateValidityCheckingResolution(res);
    si->setup();
    std::vector<ob::SpaceInformationPtr> siv{si};
    std::vector<std::pair<const char *, std::function<ob::PlannerPtr()>>> P = {
#define E(T) {#T, [&] { return mk<og::T>(si); }}
        E(RRT), E(RRTConnect), E(RRTstar), E(InformedRRTstar), E(SORRTstar), E(RRTsharp), E(RRTXstatic), E(LBTRRT), E(LazyLBTRRT), E(LazyRRT), E(TRRT), E(BiTRRT), E(pRRT),
        E(EST), E(BiEST), E(ProjEST), E(KPIECE1), E(BKPIECE1), E(LBKPIECE1), E(PDST), E(SBL), E(pSBL), E(STRIDE), E(FMT), E(BFMT), E(PRM), E(PRMstar), E(LazyPRM), E(LazyPRMstar), E(SPARS), E(SPARStwo),
        E(SST), E(RLRT), E(BiRLRT), E(BITstar), E(ABITstar), E(AITstar), E(EITstar), E(EIRMstar), E(CForest), E(AnytimePathShortening),
        {"QRRT", [&] { return std::make_shared<om::QRRT>(siv); }},
        {"QRRTStar", [&] { return std::make_shared<om::QRRTStar>(siv); }},
        {"QMP", [&] { return std::make_shared<om::QMP>(siv); }},
        {"QMPStar", [&] { return std::make_shared<om::QMPStar>(siv); }},
    };
    for (auto &e : P)
    {
        if (argc > 3 && std::string(argv[3]) != e.first) continue;
        auto pdef = std::make_shared<ob::ProblemDefinition>(si);
        ob::ScopedState<> s(si), g(si); s[0] = 1; s[1] = 1; g[0] = 9; g[1] = 9;
        pdef->setStartAndGoalStates(s, g, 0.05);
        auto opt = std::make_shared<ob::PathLengthOptimizationObjective>(si);
        opt->setCostThreshold(opt->infiniteCost());
        pdef->setOptimizationObjective(opt);
        ob::PlannerPtr pl;
        try { pl = e.second(); pl->setProblemDefinition(pdef); pl->setup(); } catch (std::exception &ex) { printf("%-22s SETUP-EXC %s\n", e.first, ex.what()); continue; }
        int kfrom = kmax >= 0 ? 0 : -1, kto = kmax >= 0 ? kmax : -1;
        for (int k = kfrom; k <= kto; ++k) {
        if (k > kfrom) { pl = e.second(); pdef->clearSolutionPaths(); pl->setProblemDefinition(pdef); pl->setup(); }
        unsigned long bud = k >= 0 ? (unsigned long)k : budget;
        std::atomic<unsigned long> n{0}, after{0};
        ob::PlannerTerminationCondition ptc([&] { unsigned long kk = ++n; if (kk > bud) { ++after; return true; } return false; });
        ob::PlannerStatus st;
        try { st = pl->solve(ptc); } catch (std::exception &ex) { printf("%-22s SOLVE-EXC %s\n", e.first, ex.what()); continue; }
        auto path = std::dynamic_pointer_cast<og::PathGeometric>(pdef->getSolutionPath());
        int badStretch = 0, strictFail = 0, invalidVertex = 0; double worst = 0;
        if (path) {
            ob::State *tmp = si->allocState();
            for (size_t i = 0; i + 1 < path->getStateCount(); ++i) {
                const ob::State *a = path->getState(i), *b = path->getState(i + 1);
                if (!si->isValid(a) || !si->isValid(b)) ++invalidVertex;
                double d = si->distance(a, b); int m = std::max(1, (int)std::ceil(d / (rl / 4)));
                double run = 0;
                for (int j = 0; j <= m; ++j) { sp->interpolate(a, b, (double)j / m, tmp); if (!si->isValid(tmp)) { run += d / m; worst = std::max(worst, run); } else run = 0; }
                if (!si->checkMotion(a, b)) ++strictFail;
            }
            if (worst > 2 * rl) ++badStretch;
            si->freeState(tmp);
        }
        bool statusOk = ((bool)st) == (pdef->getSolutionCount() > 0);
        if (kmax < 0 || badStretch || invalidVertex || !statusOk || (path && path->getStateCount() == 0) || strictFail)
        printf("%-22s k=%3d %-22s evals=%7lu after=%4lu nsol=%zu states=%zu len=%.3f approx=%d BAD=%d strictFail=%d invV=%d worst=%.4f statusOk=%d\n", e.first, k, st.asString().c_str(), n.load(), after.load(), pdef->getSolutionCount(), path ? path->getStateCount() : 0, path ? path->length() : -1, (int)pdef->hasApproximateSolution(), badStretch, strictFail, invalidVertex, worst / rl, (int)statusOk);
        }
        fflush(stdout);
    }
}
