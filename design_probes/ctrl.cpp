// design-phase probe: C02 replay oracle over control planners (throw-away)
#include <ompl/control/SpaceInformation.h>
#include <ompl/control/spaces/RealVectorControlSpace.h>
#include <ompl/control/PathControl.h>
#include <ompl/control/planners/rrt/RRT.h>
#include <ompl/control/planners/sst/SST.h>
#include <ompl/control/planners/est/EST.h>
#include <ompl/control/planners/kpiece/KPIECE1.h>
#include <ompl/control/planners/pdst/PDST.h>
#include <ompl/control/planners/syclop/SyclopRRT.h>
#include <ompl/control/planners/syclop/SyclopEST.h>
#include <ompl/control/planners/syclop/GridDecomposition.h>
#include <ompl/base/spaces/SE2StateSpace.h>
#include <ompl/base/spaces/RealVectorStateSpace.h>
#include <ompl/base/ProblemDefinition.h>
#include <ompl/base/ScopedState.h>
#include <ompl/util/Console.h>
#include <atomic>
#include <cstring>
#include <cstdio>
namespace ob = ompl::base; namespace oc = ompl::control;
struct Decomp : oc::GridDecomposition
{
    Decomp(int len, const ob::RealVectorBounds &b) : GridDecomposition(len, 2, b) {}
    void project(const ob::State *s, std::vector<double> &c) const override { c.resize(2); c[0] = s->as<ob::SE2StateSpace::StateType>()->getX(); c[1] = s->as<ob::SE2StateSpace::StateType>()->getY(); }
    void sampleFullState(const ob::StateSamplerPtr &sm, const std::vector<double> &c, ob::State *s) const override { sm->sampleUniform(s); s->as<ob::SE2StateSpace::StateType>()->setXY(c[0], c[1]); }
};
static void carProp(const ob::State *st, const oc::Control *c, double dt, ob::State *res, const ob::SO2StateSpace *so2)
{
    const auto *s = st->as<ob::SE2StateSpace::StateType>(); const double *u = c->as<oc::RealVectorControlSpace::ControlType>()->values;
    double x = s->getX(), y = s->getY(), th = s->getYaw();
    auto *r = res->as<ob::SE2StateSpace::StateType>();
    r->setXY(x + dt * u[0] * cos(th), y + dt * u[0] * sin(th)); r->setYaw(th + dt * u[0] * tan(u[1]) / 0.5);
    so2->enforceBounds(r->as<ob::SO2StateSpace::StateType>(1));
}
int main(int argc, char **argv)
{
    unsigned long budget = argc > 1 ? atol(argv[1]) : 20000; int seed = argc > 2 ? atoi(argv[2]) : 3;
    ompl::RNG::setSeed(seed); ompl::msg::setLogLevel(ompl::msg::LOG_NONE);
    auto space = std::make_shared<ob::SE2StateSpace>(); ob::RealVectorBounds b(2); b.setLow(0); b.setHigh(10); space->setBounds(b);
    auto cs = std::make_shared<oc::RealVectorControlSpace>(space, 2); ob::RealVectorBounds cb(2); cb.setLow(0, -0.3); cb.setHigh(0, 1.5); cb.setLow(1, -0.6); cb.setHigh(1, 0.4); cs->setBounds(cb);
    auto si = std::make_shared<oc::SpaceInformation>(space, cs);
    const ob::SO2StateSpace *so2 = space->getSubspace(1)->as<ob::SO2StateSpace>();
    si->setStatePropagator([so2](const ob::State *s, const oc::Control *c, double dt, ob::State *r) { carProp(s, c, dt, r, so2); });
    auto valid = [&](const ob::State *s) { if (!si->satisfiesBounds(s)) return false; const auto *p = s->as<ob::SE2StateSpace::StateType>(); return !(p->getX() > 4 && p->getX() < 6 && p->getY() < 6); };
    si->setStateValidityChecker(valid);
    si->setPropagationStepSize(0.07); si->setMinMaxControlDuration(2, 15);
    si->setup();
    std::vector<std::pair<const char *, std::function<ob::PlannerPtr()>>> P = {
        {"RRT", [&] { return std::make_shared<oc::RRT>(si); }},
        {"RRTinterm", [&] { auto p = std::make_shared<oc::RRT>(si); p->setIntermediateStates(true); return p; }},
        {"SST", [&] { return std::make_shared<oc::SST>(si); }}, {"EST", [&] { return std::make_shared<oc::EST>(si); }},
        {"KPIECE1", [&] { return std::make_shared<oc::KPIECE1>(si); }}, {"PDST", [&] { return std::make_shared<oc::PDST>(si); }},
        {"SyclopRRT", [&] { return std::make_shared<oc::SyclopRRT>(si, std::make_shared<Decomp>(8, b)); }},
        {"SyclopEST", [&] { return std::make_shared<oc::SyclopEST>(si, std::make_shared<Decomp>(8, b)); }}};
    for (auto &e : P)
    {
        auto pdef = std::make_shared<ob::ProblemDefinition>(si);
        ob::ScopedState<ob::SE2StateSpace> s(space), g(space); s->setXY(1, 1); s->setYaw(0); g->setXY(9, 1.5); g->setYaw(0);
        pdef->setStartAndGoalStates(s, g, 0.6);
        auto pl = e.second(); pl->setProblemDefinition(pdef);
        try { pl->setup(); } catch (std::exception &ex) { printf("%-10s SETUP-EXC %s\n", e.first, ex.what()); continue; }
        std::atomic<unsigned long> n{0};
        ob::PlannerTerminationCondition ptc([&] { return ++n > budget; });
        ob::PlannerStatus st = pl->solve(ptc);
        auto path = std::dynamic_pointer_cast<oc::PathControl>(pdef->getSolutionPath());
        int nctrl = 0, badDur = 0, badBound = 0, badValid = 0, mismatchTol = 0, mismatchBits = 0; double worst = 0; bool startOk = false, goalOk = false;
        if (path)
        {
            nctrl = path->getControlCount(); ob::State *cur = si->allocState(), *nxt = si->allocState();
            startOk = space->equalStates(path->getState(0), s.get());
            for (int i = 0; i < nctrl; ++i)
            {
                double q = path->getControlDuration(i) / si->getPropagationStepSize(); long k = std::lround(q);
                if (std::fabs(q - k) > 1e-9 || k < 1) ++badDur;
                const double *u = path->getControl(i)->as<oc::RealVectorControlSpace::ControlType>()->values;
                for (int d = 0; d < 2; ++d) if (u[d] < cb.low[d] - 1e-12 || u[d] > cb.high[d] + 1e-12) ++badBound;
                si->copyState(cur, path->getState(i));
                for (long j = 0; j < k; ++j) { carProp(cur, path->getControl(i), si->getPropagationStepSize(), nxt, so2); if (!valid(nxt)) ++badValid; std::swap(cur, nxt); }
                const auto *A = cur->as<ob::SE2StateSpace::StateType>(), *B = path->getState(i + 1)->as<ob::SE2StateSpace::StateType>();
                double e2 = std::fabs(A->getX() - B->getX()) + std::fabs(A->getY() - B->getY()) + std::fabs(A->getYaw() - B->getYaw());
                worst = std::max(worst, e2); if (e2 > 1e-9) ++mismatchTol; if (e2 != 0.0) ++mismatchBits;
            }
            goalOk = pdef->getGoal()->isSatisfied(path->getState(path->getStateCount() - 1)) || pdef->hasApproximateSolution();
            si->freeState(cur); si->freeState(nxt);
        }
        printf("%-10s %-22s evals=%6lu ctrls=%3d badDur=%d badBound=%d badValid=%d mismatchTol=%d mismatchBits=%d worst=%.3g startOk=%d goalOk=%d approx=%d libcheck=%d\n", e.first, st.asString().c_str(), n.load(), nctrl, badDur, badBound, badValid, mismatchTol, mismatchBits, worst, (int)startOk, (int)goalOk, (int)pdef->hasApproximateSolution(), path ? (int)path->check() : -1);
        fflush(stdout);
    }
}
