#include <ompl/base/spaces/RealVectorStateSpace.h>
#include <ompl/base/SpaceInformation.h>
#include <ompl/base/ProblemDefinition.h>
#include <ompl/base/PlannerTerminationCondition.h>
#include <ompl/base/ScopedState.h>
#include <ompl/geometric/PathGeometric.h>
#include <ompl/datastructures/NearestNeighborsGNAT.h>
#include <ompl/util/RandomNumbers.h>
#include <ompl/util/Console.h>
#include <thread>
#include <atomic>
#include <cstdio>
namespace ob = ompl::base;
int main(int argc, char **argv)
{
    int which = argc > 1 ? atoi(argv[1]) : 0;
    ompl::msg::setLogLevel(ompl::msg::LOG_NONE);
    auto sp = std::make_shared<ob::RealVectorStateSpace>(2);
    sp->setBounds(-1, 1);
    auto si = std::make_shared<ob::SpaceInformation>(sp);
    si->setStateValidityChecker([](const ob::State *s) { return s->as<ob::RealVectorStateSpace::StateType>()->values[0] < 0.9; });
    si->setup();
    const int T = 4, N = 2000;
    if (which == 0)
    {  // terminate from other thread
        auto ptc = ob::plannerNonTerminatingCondition();
        std::thread t([&] { std::this_thread::sleep_for(std::chrono::milliseconds(5)); ptc.terminate(); });
        unsigned long n = 0; while (!ptc) ++n;
        t.join(); printf("ptc evals=%lu\n", n);
    }
    if (which == 1)
    {  // concurrent checkMotion
        std::vector<std::thread> th;
        for (int i = 0; i < T; ++i) th.emplace_back([&, i] {
            ob::ScopedState<> a(si), b(si); ompl::RNG r(100 + i);
            for (int k = 0; k < N; ++k) { a[0] = r.uniformReal(-1, .8); a[1] = r.uniformReal(-1, 1); b[0] = r.uniformReal(-1, 1); b[1] = r.uniformReal(-1, 1); si->checkMotion(a.get(), b.get()); }
        });
        for (auto &t : th) t.join();
        printf("checked=%u expected=%d\n", si->getMotionValidator()->getCheckedMotionCount(), T * N);
    }
    if (which == 2)
    {  // GNAT concurrent queries
        ompl::NearestNeighborsGNAT<int> nn;
        nn.setDistanceFunction([](const int &a, const int &b) { return (double)abs(a - b); });
        for (int i = 0; i < 5000; ++i) nn.add(i * 7 % 5003);
        std::vector<std::thread> th;
        for (int i = 0; i < T; ++i) th.emplace_back([&, i] { std::vector<int> out; for (int k = 0; k < N; ++k) { nn.nearestK(k * 3 + i, 5, out); nn.nearestR(k, 10., out);} });
        for (auto &t : th) t.join();
        printf("gnat done\n");
    }
    if (which == 3)
    {  // RNG + spaces creation + pdef
        auto pdef = std::make_shared<ob::ProblemDefinition>(si);
        std::vector<std::thread> th;
        for (int i = 0; i < T; ++i) th.emplace_back([&, i] {
            for (int k = 0; k < 200; ++k) { ompl::RNG r; auto s = std::make_shared<ob::RealVectorStateSpace>(3);
              ob::ScopedState<> a(si), b(si); a[0]=0;a[1]=0;b[0]=r.uniform01();b[1]=0;
              auto p = std::make_shared<ompl::geometric::PathGeometric>(si, a.get(), b.get());
              pdef->addSolutionPath(p, (k%2)==0, r.uniform01(), "x"); pdef->getSolutions(); pdef->hasApproximateSolution(); OMPL_WARN("hello %d", k);} });
        for (auto &t : th) t.join();
        printf("pdef n=%zu\n", pdef->getSolutionCount());
    }
    return 0;
}
