// design-phase probe: C10 queries+structure, C12 exact regime, C13 grid model (throw-away)
#include <ompl/datastructures/NearestNeighborsGNAT.h>
#include <ompl/datastructures/NearestNeighborsGNATNoThreadSafety.h>
#include <ompl/datastructures/NearestNeighborsLinear.h>
#include <ompl/datastructures/NearestNeighborsSqrtApprox.h>
#include <ompl/datastructures/PDF.h>
#include <ompl/datastructures/Grid.h>
#include <ompl/datastructures/GridN.h>
#include <ompl/datastructures/GridB.h>
#include <random>
#include <set>
#include <map>
#include <algorithm>
#include <cstdio>
static std::mt19937_64 G(21);
struct Pt { double x, y; };
template <class NN> struct Probe : NN { using NN::NN; using Node = typename NN::Node;
    // structural walk: pruning tables conservative
    long walk(const std::function<double(const int &, const int &)> &d) { long bad = 0; if (this->tree_) walkNode(this->tree_, d, bad); return bad; }
    void collect(const Node *n, std::vector<int> &out) { out.push_back(n->pivot_); for (auto &e : n->data_) out.push_back(e); for (auto *c : n->children_) collect(c, out); }
    void walkNode(const Node *n, const std::function<double(const int &, const int &)> &d, long &bad)
    {
        for (size_t i = 0; i < n->children_.size(); ++i) { std::vector<int> sub; for (auto &e : n->children_[i]->data_) sub.push_back(e); for (auto *c : n->children_[i]->children_) collect(c, sub);
            // elements of child i (excluding its pivot per definition: data_ elements) vs sibling j pivot ranges; and radius of child i covers whole subtree
            std::vector<int> all; collect(n->children_[i], all);
            for (int e : all) { if (e == n->children_[i]->pivot_) continue; double v = d(e, n->children_[i]->pivot_); if (v < n->children_[i]->minRadius_ - 1e-12 || v > n->children_[i]->maxRadius_ + 1e-12) ++bad; }
            for (size_t j = 0; j < n->children_.size(); ++j) for (int e : all) { double v = d(e, n->children_[j]->pivot_); if (v < n->children_[j]->minRange_[i] - 1e-12 || v > n->children_[j]->maxRange_[i] + 1e-12) ++bad; }
            walkNode(n->children_[i], d, bad); }
    } };
template <class NN> void gnatRun(const char *name, bool exactNearest, bool walkable)
{
    long hist = 0, ops = 0, bad = 0, structBad = 0, queries = 0; std::string first;
    for (int t = 0; t < 120; ++t)
    {
        int dist = t % 4; std::vector<Pt> pts(1500); for (auto &p : pts) { if (dist == 0) p = {std::uniform_real_distribution<double>(0, 100)(G), std::uniform_real_distribution<double>(0, 100)(G)}; else if (dist == 1) p = {(double)(G() % 6), (double)(G() % 6)}; else if (dist == 2) { int c = G() % 4; p = {c * 1000 + std::uniform_real_distribution<double>(0, 1)(G), c * 777 + std::uniform_real_distribution<double>(0, 1)(G)}; } else p = {(double)(G() % 40), 0.0}; }
        auto df = [&pts](const int &a, const int &b) { return std::hypot(pts[a].x - pts[b].x, pts[a].y - pts[b].y); };
        Probe<NN> nn; nn.setDistanceFunction(df); std::vector<int> model; int next = 0; ++hist;
        for (int op = 0; op < 400 && next < 1400; ++op)
        {
            int r = G() % 100; ++ops;
            if (r < 35 || model.empty()) { nn.add(next); model.push_back(next++); }
            else if (r < 40) { std::vector<int> v; int k = 1 + G() % 60; for (int i = 0; i < k && next < 1400; ++i) { v.push_back(next); model.push_back(next++); } nn.add(v); }
            else if (r < 60) { size_t i = G() % model.size(); int v = model[i]; bool ok = nn.remove(v); if (!ok) { ++bad; if (first.empty()) first = "remove(present)=false"; } model.erase(model.begin() + i); }
            else if (r < 62) { bool ok = nn.remove(1499); if (ok) { ++bad; if (first.empty()) first = "remove(absent)=true"; } }
            else if (r < 63) { nn.clear(); model.clear(); }
            else { int qi = 1400 + G() % 99; ++queries; std::vector<double> bf; for (int m : model) bf.push_back(df(qi, m)); std::sort(bf.begin(), bf.end());
                if (r < 75) { if (!model.empty()) { int e = nn.nearest(qi); bool member = std::find(model.begin(), model.end(), e) != model.end(); if (!member || (exactNearest && std::fabs(df(qi, e) - bf[0]) > 1e-12 * (1 + bf[0]))) { ++bad; if (first.empty()) first = "nearest"; } } }
                else if (r < 90) { size_t k = (G() % 3 == 0) ? G() % (model.size() + 6) : G() % 12; std::vector<int> out; nn.nearestK(qi, k, out); std::set<int> uniq(out.begin(), out.end()); bool okk = out.size() == std::min(k, model.size()) && uniq.size() == out.size(); for (size_t i = 0; okk && i < out.size(); ++i) okk = std::fabs(df(qi, out[i]) - bf[i]) <= 1e-12 * (1 + bf[i]) && std::find(model.begin(), model.end(), out[i]) != model.end(); if (!okk) { ++bad; if (first.empty()) first = "nearestK k=" + std::to_string(k) + " got " + std::to_string(out.size()); } }
                else { double rad = (G() % 4 == 0) ? 0.0 : (bf.empty() ? 1.0 : bf[G() % bf.size()]); std::vector<int> out; nn.nearestR(qi, rad, out); size_t cntLo = std::lower_bound(bf.begin(), bf.end(), rad * (1 - 1e-12)) - bf.begin(), cnt = std::upper_bound(bf.begin(), bf.end(), rad * (1 + 1e-12)) - bf.begin(); std::set<int> uniq(out.begin(), out.end()); bool okk = out.size() >= cntLo && out.size() <= cnt && uniq.size() == out.size(); for (size_t i = 0; okk && i < out.size(); ++i) okk = df(qi, out[i]) <= rad * (1 + 1e-12) && (i == 0 || df(qi, out[i - 1]) <= df(qi, out[i])); if (!okk) { ++bad; if (first.empty()) first = "nearestR r=" + std::to_string(rad) + " got " + std::to_string(out.size()) + " want " + std::to_string(cnt); } } }
            if (nn.size() != model.size()) { ++bad; if (first.empty()) first = "size"; }
            if (op % 16 == 0) { std::vector<int> lst; nn.list(lst); std::multiset<int> a(lst.begin(), lst.end()), b(model.begin(), model.end()); if (a != b) { ++bad; if (first.empty()) first = "list"; } if constexpr (std::is_base_of<ompl::NearestNeighborsGNAT<int>, NN>::value) if (walkable) structBad += nn.walk(df); }
        }
    }
    printf("%-10s histories=%ld ops=%ld queries=%ld bad=%ld structBad=%ld first=%s\n", name, hist, ops, queries, bad, structBad, first.c_str());
}
template <class NN> struct ProbeL : NN { long walk(const std::function<double(const int &, const int &)> &) { return 0; } };
int main()
{
    gnatRun<ompl::NearestNeighborsGNAT<int>>("GNAT", true, true);
    // C12 exact regime
    {
        long bad = 0, samples = 0, zeroDrawn = 0; std::string first;
        for (int t = 0; t < 400; ++t)
        {
            ompl::PDF<int> pdf; std::vector<std::pair<ompl::PDF<int>::Element *, int>> live; std::map<int, double> w; int next = 0;
            for (int op = 0; op < 300; ++op)
            {
                int r = G() % 100;
                if (r < 40 || live.empty()) { double ww = (G() % 5 == 0) ? 0.0 : (double)(1 + G() % 1000) / 8.0; live.push_back({pdf.add(next, ww), next}); w[next] = ww; ++next; }
                else if (r < 55) { size_t i = G() % live.size(); double ww = (G() % 5 == 0) ? 0.0 : (double)(1 + G() % 1000) / 8.0; pdf.update(live[i].first, ww); w[live[i].second] = ww; }
                else if (r < 75) { size_t i = (G() % 3 == 0) ? live.size() - 1 : G() % live.size(); pdf.remove(live[i].first); w.erase(live[i].second); live.erase(live.begin() + i); }
                else if (!live.empty())
                {
                    const auto &els = pdf.getElements(); std::vector<double> S; double acc = 0; for (auto *e : els) { acc += pdf.getWeight(e); S.push_back(acc); } if (acc == 0) continue;
                    double rr = (G() % 10 == 0) ? (G() % 2 ? 0.0 : 1.0) : (double)(G() % 4096) / 4096.0; int got = pdf.sample(rr); ++samples; double x = rr * acc; size_t idx = 0; for (; idx < els.size(); ++idx) if (els[idx]->data_ == got) break;
                    double lo = idx ? S[idx - 1] : 0.0, hi = S[idx]; if (!(lo <= x && x <= hi)) { ++bad; if (first.empty()) first = "interval r=" + std::to_string(rr); } if (rr > 0 && rr < 1 && pdf.getWeight(els[idx]) == 0) { ++zeroDrawn; }
                }
                if (pdf.size() != live.size()) { ++bad; if (first.empty()) first = "size"; }
                for (auto &lv : live) if (pdf.getWeight(lv.first) != w[lv.second] || lv.first->data_ != lv.second) { ++bad; if (first.empty()) first = "handle/weight"; break; }
            }
        }
        printf("PDF exact regime: samples=%ld bad=%ld zeroWeightDrawn=%ld first=%s\n", samples, bad, zeroDrawn, first.c_str());
    }
    // C13 GridB model
    {
        long bad = 0, opsN = 0; std::string first;
        for (int t = 0; t < 300; ++t)
        {
            int dim = 1 + t % 4; ompl::GridB<int> grid(dim); Eigen::VectorXi lo = Eigen::VectorXi::Constant(dim, -2), hi = Eigen::VectorXi::Constant(dim, 3); bool bounded = t % 2; if (bounded) grid.setBounds(lo, hi); unsigned limit = 2 * dim; if (t % 3 == 0) { limit = 1 + G() % (2 * dim); grid.setInteriorCellNeighborLimit(limit); }
            std::map<std::vector<int>, int> model; using Cell = ompl::GridB<int>::Cell;
            for (int op = 0; op < 250; ++op)
            {
                ++opsN; Eigen::VectorXi c(dim); std::vector<int> key(dim); for (int i = 0; i < dim; ++i) { c[i] = -2 + (int)(G() % 6); key[i] = c[i]; }
                int r = G() % 100;
                if (r < 55) { if (!model.count(key)) { Cell *cell = grid.createCell(c); cell->data = (int)(G() % 1000); grid.add(cell); model[key] = cell->data; } }
                else if (r < 85) { if (model.count(key)) { Cell *cell = grid.getCell(c); grid.remove(cell); grid.destroyCell(cell); model.erase(key); } }
                else if (r < 95) { if (model.count(key)) { Cell *cell = grid.getCell(c); cell->data = (int)(G() % 1000); model[key] = cell->data; grid.update(cell); } }
                // check
                if (grid.size() != model.size()) { ++bad; if (first.empty()) first = "size"; }
                int nint = 0, bestI = 1 << 30, bestE = 1 << 30;
                for (auto &kv : model)
                {
                    Eigen::VectorXi cc(dim); for (int i = 0; i < dim; ++i) cc[i] = kv.first[i]; Cell *cell = grid.getCell(cc); if (!cell) { ++bad; if (first.empty()) first = "missing"; continue; }
                    unsigned nb = 0; for (int i = 0; i < dim; ++i) for (int s : {-1, 1}) { auto k2 = kv.first; k2[i] += s; if (model.count(k2)) ++nb; } unsigned bd = 0; if (bounded) for (int i = 0; i < dim; ++i) if (kv.first[i] == lo[i] || kv.first[i] == hi[i]) ++bd;
                    if (cell->neighbors != nb + bd) { ++bad; if (first.empty()) first = "neighbors count"; } bool border = (nb + bd) < limit; if (cell->border != border) { ++bad; if (first.empty()) first = "border flag"; }
                    std::vector<Cell *> nl; grid.neighbors(cell, nl); if (nl.size() != nb) { ++bad; if (first.empty()) first = "neighbors()"; }
                    if (border) bestE = std::min(bestE, kv.second); else { ++nint; bestI = std::min(bestI, kv.second); }
                }
                if (grid.countInternal() != (unsigned)nint || grid.countExternal() != model.size() - nint) { ++bad; if (first.empty()) first = "counts"; }
                if (nint && grid.topInternal()->data != bestI) { ++bad; if (first.empty()) first = "topInternal"; } if ((int)model.size() > nint && grid.topExternal()->data != bestE) { ++bad; if (first.empty()) first = "topExternal"; }
                if (op % 20 == 0) { auto comps = grid.components(); size_t tot = 0; for (auto &cmp : comps) tot += cmp.size(); if (tot != model.size()) { ++bad; if (first.empty()) first = "components total"; } }
            }
        }
        printf("GridB model: ops=%ld bad=%ld first=%s\n", opsN, bad, first.c_str());
    }
}
