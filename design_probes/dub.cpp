// design-phase probe: C14 independent Dubins solver + vehicle-model polyline oracle (throw-away)
#include <ompl/base/spaces/DubinsStateSpace.h>
#include <ompl/base/spaces/ReedsSheppStateSpace.h>
#include <ompl/base/ScopedState.h>
#include <ompl/util/Console.h>
#include <random>
#include <cstdio>
#include <cmath>
namespace ob = ompl::base;
static const double TWO_PI = 2 * M_PI;
static double m2p(double x) { double r = std::fmod(x, TWO_PI); if (r < 0) r += TWO_PI; if (TWO_PI - r < 1e-6) r = 0; return r; }
// textbook six-word Dubins (unit radius), returns min length; independent of ompl's code
static double refDubins(double d, double a, double b)
{
    double sa = sin(a), sb = sin(b), ca = cos(a), cb = cos(b), cab = cos(a - b), best = 1e300, t, p, q, tmp;
    tmp = 2 + d * d - 2 * cab + 2 * d * (sa - sb); if (tmp >= 0) { double th = atan2(cb - ca, d + sa - sb); t = m2p(-a + th); p = sqrt(tmp); q = m2p(b - th); best = std::min(best, t + p + q); }       // LSL
    tmp = 2 + d * d - 2 * cab + 2 * d * (sb - sa); if (tmp >= 0) { double th = atan2(ca - cb, d - sa + sb); t = m2p(a - th); p = sqrt(tmp); q = m2p(-b + th); best = std::min(best, t + p + q); }      // RSR
    tmp = -2 + d * d + 2 * cab + 2 * d * (sa + sb); if (tmp >= 0) { p = sqrt(tmp); double th = atan2(-ca - cb, d + sa + sb) - atan2(-2.0, p); t = m2p(-a + th); q = m2p(-m2p(b) + th); best = std::min(best, t + p + q); } // LSR
    tmp = d * d - 2 + 2 * cab - 2 * d * (sa + sb); if (tmp >= 0) { p = sqrt(tmp); double th = atan2(ca + cb, d - sa - sb) - atan2(2.0, p); t = m2p(a - th); q = m2p(b - th); best = std::min(best, t + p + q); }             // RSL
    tmp = (6 - d * d + 2 * cab + 2 * d * (sa - sb)) / 8; if (std::fabs(tmp) <= 1) { p = TWO_PI - acos(tmp); t = m2p(a - atan2(ca - cb, d - sa + sb) + p / 2); q = m2p(a - b - t + p); best = std::min(best, t + p + q); }     // RLR
    tmp = (6 - d * d + 2 * cab + 2 * d * (sb - sa)) / 8; if (std::fabs(tmp) <= 1) { p = TWO_PI - acos(tmp); t = m2p(-a - atan2(ca - cb, d + sa - sb) + p / 2); q = m2p(m2p(b) - a - t + p); best = std::min(best, t + p + q); } // LRL
    return best;
}
int main()
{
    ompl::msg::setLogLevel(ompl::msg::LOG_NONE); std::mt19937_64 g(5); auto U = [&](double a, double b) { return std::uniform_real_distribution<double>(a, b)(g); };
    for (double rho : {0.3, 1.0, 4.0})
    {
        auto D = std::make_shared<ob::DubinsStateSpace>(rho); auto DS = std::make_shared<ob::DubinsStateSpace>(rho, true); auto RS = std::make_shared<ob::ReedsSheppStateSpace>(rho);
        ob::RealVectorBounds bd(2); bd.setLow(-10); bd.setHigh(10); D->setBounds(bd); DS->setBounds(bd); RS->setBounds(bd); D->setup(); DS->setup(); RS->setup();
        ob::ScopedState<ob::SE2StateSpace> a(D), b(D), p(D), q(D);
        long n = 0, optBad = 0, subopt = 0, endBad = 0, modelBad = 0, lenBad = 0, symBad = 0, rsGreater = 0, ltEuclid = 0, rsEndBad = 0, rsModelBad = 0, rsLenBad = 0; double worstOpt = 0, worstModel = 0, worstLen = 0, worstSub = 0;
        const double q4[] = {0, M_PI / 2, M_PI, -M_PI / 2, -M_PI};
        for (int t = 0; t < 6000; ++t)
        {
            a->setXY(U(-3, 3), U(-3, 3)); a->setYaw(U(-M_PI, M_PI)); int mode = t % 6; double sep = mode == 0 ? U(0, 12) : mode == 1 ? U(0, 4 * rho) : mode == 2 ? 0.0 : mode == 3 ? U(1e-4, 1e-2) : U(0, 8);
            double dir = U(-M_PI, M_PI); b->setXY(a->getX() + sep * cos(dir), a->getY() + sep * sin(dir)); b->setYaw(U(-M_PI, M_PI));
            if (mode == 4) { a->setYaw(q4[g() % 5] + (g() % 2 ? 0 : U(-1e-6, 1e-6))); b->setYaw(q4[g() % 5] + (g() % 2 ? 0 : U(-1e-6, 1e-6))); dir = q4[g() % 5]; b->setXY(a->getX() + sep * cos(dir), a->getY() + sep * sin(dir)); }
            if (mode == 5) { b->setYaw(a->getYaw()); b->setXY(a->getX() + sep * cos(a->getYaw()), a->getY() + sep * sin(a->getYaw())); }
            D->enforceBounds(a.get()); D->enforceBounds(b.get());
            double ex = b->getX() - a->getX(), ey = b->getY() - a->getY(), eu = std::hypot(ex, ey);
            bool coincident = eu < 1e-5 * rho && std::fabs(std::remainder(a->getYaw() - b->getYaw(), TWO_PI)) < 1e-5; if (coincident) continue;
            ++n; double L = D->distance(a.get(), b.get()), tol = 1e-5 * rho * (1 + L / rho);
            double th = atan2(ey, ex), ref = rho * refDubins(eu / rho, m2p(a->getYaw() - th), m2p(b->getYaw() - th));
            if (L < ref - tol) { ++optBad; worstOpt = std::max(worstOpt, ref - L); } if (L > ref + tol) { ++subopt; worstSub = std::max(worstSub, L - ref); }
            if (L < eu - tol) ++ltEuclid;
            double Ls = DS->distance(a.get(), b.get()), Ls2 = DS->distance(b.get(), a.get()); if (std::fabs(Ls - Ls2) > tol) ++symBad;
            double R = RS->distance(a.get(), b.get()), R2 = RS->distance(b.get(), a.get()); if (std::fabs(R - R2) > tol) ++symBad; if (R > std::min(L, D->distance(b.get(), a.get())) + tol) { ++rsGreater; printf("RS>Dubins: a=(%.17g,%.17g,%.17g) b=(%.17g,%.17g,%.17g) RS=%.9g Dub(a,b)=%.9g Dub(b,a)=%.9g mode=%d\n", a->getX(), a->getY(), a->getYaw(), b->getX(), b->getY(), b->getYaw(), R, L, D->distance(b.get(), a.get()), mode); }
            // polyline oracle
            for (int which = 0; which < 2; ++which)
            {
                ob::StateSpace *S = which ? (ob::StateSpace *)RS.get() : (ob::StateSpace *)D.get(); double LL = which ? R : L; int N = 600; double h = LL / N, poly = 0, worstM = 0; int nviol = 0;
                S->interpolate(a.get(), b.get(), 0.0, p.get());
                for (int k = 1; k <= N; ++k)
                {
                    S->interpolate(a.get(), b.get(), (double)k / N, q.get());
                    double dx = q->getX() - p->getX(), dy = q->getY() - p->getY(), ds = std::hypot(dx, dy), dth = std::remainder(q->getYaw() - p->getYaw(), TWO_PI); poly += ds;
                    double mid = p->getYaw() + dth / 2; double cross = std::fabs(dx * sin(mid) - dy * cos(mid)), dot = dx * cos(mid) + dy * sin(mid);
                    // non-holonomic: displacement parallel to mid heading (allow O(h^3)); curvature bound |dth| <= h/rho (+tol)
                    double mviol = std::max(cross - (1e-9 + h * h * h / (rho * rho)), std::fabs(dth) - (h / rho) * (1 + 1e-6) - 1e-9);
                    if (!which && dot < -1e-9) mviol = std::max(mviol, -dot);   // Dubins: forward only
                    if (mviol > 1e-7) { ++nviol; } else worstM = std::max(worstM, mviol);
                    std::swap(p, q);
                }
                S->interpolate(a.get(), b.get(), 1.0, q.get()); double eend = std::hypot(q->getX() - b->getX(), q->getY() - b->getY()) + std::fabs(std::remainder(q->getYaw() - b->getYaw(), TWO_PI));
                // at cusps/switch samples the step test can fail: allow up to 4 violating samples by recomputing count
                if (nviol > (which ? 4 : 2)) { if (!which && modelBad < 3) printf("model: a=(%.17g,%.17g,%.17g) b=(%.17g,%.17g,%.17g) L=%.9g nviol=%d mode=%d\n", a->getX(), a->getY(), a->getYaw(), b->getX(), b->getY(), b->getYaw(), L, nviol, mode); (which ? rsModelBad : modelBad)++; worstModel = std::max(worstModel, (double)nviol); }
                if (eend > tol) (which ? rsEndBad : endBad)++;
                if (std::fabs(poly - LL) > 1e-3 * (LL + rho) + 8 * h) { (which ? rsLenBad : lenBad)++; worstLen = std::max(worstLen, std::fabs(poly - LL)); }
            }
        }
        printf("rho=%.1f pairs=%ld | Dubins: shorterThanRef=%ld(max %.2g) longerThanRef=%ld(max %.2g) <euclid=%ld endBad=%ld modelBad=%ld lenBad=%ld | sym bad=%ld RS>Dubins=%ld | RS: endBad=%ld modelBad=%ld lenBad=%ld (worst model %.2g, worst len %.2g)\n", rho, n, optBad, worstOpt, subopt, worstSub, ltEuclid, endBad, modelBad, lenBad, symBad, rsGreater, rsEndBad, rsModelBad, rsLenBad, worstModel, worstLen);
    }
}
