#include <ompl/base/spaces/DubinsStateSpace.h>
#include <ompl/base/spaces/ReedsSheppStateSpace.h>
#include <ompl/base/ScopedState.h>
#include <random>
#include <cstdio>
namespace ob = ompl::base;
int main()
{
    std::mt19937_64 g(9); auto U = [&](double a, double b) { return std::uniform_real_distribution<double>(a, b)(g); };
    auto D = std::make_shared<ob::DubinsStateSpace>(1.0); auto RS = std::make_shared<ob::ReedsSheppStateSpace>(1.0);
    ob::RealVectorBounds bd(2); bd.setLow(-10); bd.setHigh(10); D->setBounds(bd); RS->setBounds(bd); D->setup(); RS->setup();
    ob::ScopedState<ob::SE2StateSpace> a(D), b(D);
    for (double lo : {1e-4, 1e-3, 1e-2, 1e-1, 1.0})
    {
        int bad = 0, n = 20000; double worst = 0;
        for (int i = 0; i < n; ++i) { a->setXY(U(-3, 3), U(-3, 3)); a->setYaw(U(-M_PI, M_PI)); double sep = U(lo, 10 * lo); b->setYaw(a->getYaw()); b->setXY(a->getX() + sep * cos(a->getYaw()), a->getY() + sep * sin(a->getYaw()));
            double L = D->distance(a.get(), b.get()), R = RS->distance(a.get(), b.get()); if (R > L + 1e-5) { ++bad; worst = std::max(worst, R / L); } }
        printf("straight-ahead sep in [%g,%g]: RS>Dubins in %d/%d (worst ratio %.3g)\n", lo, 10 * lo, bad, n, worst);
    }
    // and backward straight for RS vs euclid
    int bad = 0; for (int i = 0; i < 20000; ++i) { a->setXY(U(-3, 3), U(-3, 3)); a->setYaw(U(-M_PI, M_PI)); double sep = U(0.01, 3); b->setYaw(a->getYaw()); b->setXY(a->getX() - sep * cos(a->getYaw()), a->getY() - sep * sin(a->getYaw())); double R = RS->distance(a.get(), b.get()); if (R > sep + 1e-5) ++bad; }
    printf("straight-behind: RS>euclid in %d/20000\n", bad);
}
