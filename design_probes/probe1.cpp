#include <ompl/datastructures/BinaryHeap.h>
#include <ompl/base/spaces/SO2StateSpace.h>
#include <ompl/base/spaces/SO3StateSpace.h>
#include <ompl/base/spaces/DubinsStateSpace.h>
#include <ompl/base/spaces/special/MobiusStateSpace.h>
#include <ompl/base/spaces/special/SphereStateSpace.h>
#include <ompl/base/SpaceInformation.h>
#include <ompl/base/ScopedState.h>
#include <random>
#include <cstdio>
#include <set>
namespace ob = ompl::base;
int main()
{
    // 1. heap
    std::mt19937 g(1);
    int bad = 0, trials = 20000;
    for (int t = 0; t < trials; ++t)
    {
        ompl::BinaryHeap<int> h;
        std::vector<ompl::BinaryHeap<int>::Element *> els;
        int n = 5 + g() % 30;
        for (int i = 0; i < n; ++i) els.push_back(h.insert(g() % 100));
        int k = g() % n;
        h.remove(els[k]);
        int prev = -1; bool ok = true;
        while (!h.empty()) { int v = h.top()->data; if (v < prev) ok = false; prev = v; h.pop(); }
        if (!ok) ++bad;
    }
    printf("heap: %d/%d single removals give misordered pops\n", bad, trials);
    // 2. SO2 interpolate at pi
    {
        auto so2 = std::make_shared<ob::SO2StateSpace>();
        ob::ScopedState<ob::SO2StateSpace> a(so2), b(so2), c(so2);
        a->value = 3.0; b->value = -3.0;
        so2->interpolate(a.get(), b.get(), 0.5, c.get());
        printf("so2 interp(3,-3,.5)=%.17g inb=%d\n", c->value, (int)so2->satisfiesBounds(c.get()));
    }
    // 3. Mobius triangle
    {
        auto m = std::make_shared<ob::MobiusStateSpace>();
        m->setup();
        ob::ScopedState<ob::MobiusStateSpace> a(m), b(m), c(m);
        a->setUV(-3.0, 1); b->setUV(3.0, -1); c->setUV(0, 1);
        printf("mobius metric=%d d(b,c)=%g d(b,a)=%g d(a,c)=%g\n", (int)m->isMetricSpace(), m->distance(b.get(), c.get()), m->distance(b.get(), a.get()), m->distance(a.get(), c.get()));
    }
    // 4. Dubins validator counter
    {
        auto d = std::make_shared<ob::DubinsStateSpace>();
        ob::RealVectorBounds bnd(2); bnd.setLow(-10); bnd.setHigh(10); d->setBounds(bnd);
        auto si = std::make_shared<ob::SpaceInformation>(d);
        si->setStateValidityChecker([](const ob::State *s) { return s->as<ob::SE2StateSpace::StateType>()->getX() < 5; });
        si->setup();
        ob::ScopedState<ob::SE2StateSpace> a(d), b(d);
        a->setXY(0, 0); a->setYaw(0); b->setXY(6, 0); b->setYaw(0);
        bool r = si->checkMotion(a.get(), b.get());
        printf("dubins: r=%d valid=%u invalid=%u\n", (int)r, si->getMotionValidator()->getValidMotionCount(), si->getMotionValidator()->getInvalidMotionCount());
        printf("dubins extent=%g dist=%g\n", d->getMaximumExtent(), 0.0);
    }
    // 5. Sphere extent
    {
        auto s = std::make_shared<ob::SphereStateSpace>(5.0);
        s->setup();
        ob::ScopedState<ob::SphereStateSpace> a(s), b(s);
        a->setThetaPhi(0, 0.01); b->setThetaPhi(0, 3.13);
        printf("sphere r=5 dist=%g extent=%g\n", s->distance(a.get(), b.get()), s->getMaximumExtent());
    }
    // 6. SO3 quantum
    {
        auto s = std::make_shared<ob::SO3StateSpace>();
        ob::ScopedState<ob::SO3StateSpace> a(s), b(s), c(s);
        a->setAxisAngle(1, 0, 0, 0); b->setAxisAngle(1, 0, 0, 6e-5); c->setAxisAngle(1, 0, 0, 12e-5);
        printf("so3 d(a,b)=%g d(b,c)=%g d(a,c)=%g\n", s->distance(a.get(), b.get()), s->distance(b.get(), c.get()), s->distance(a.get(), c.get()));
    }
    return 0;
}
