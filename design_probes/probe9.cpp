#include <ompl/base/spaces/RealVectorStateSpace.h>
#include <ompl/base/SpaceInformation.h>
#include <ompl/base/ProblemDefinition.h>
#include <ompl/base/PlannerTerminationCondition.h>
#include <ompl/base/ScopedState.h>
#include <ompl/base/objectives/PathLengthOptimizationObjective.h>
#include <ompl/geometric/PathGeometric.h>
#include <ompl/geometric/planners/PlannerIncludes.h>
#include <ompl/geometric/planners/rrt/RRT.h>
#include <ompl/geometric/planners/rrt/RRTConnect.h>
#include <ompl/geometric/planners/rrt/RRTstar.h>
#include <ompl/geometric/planners/rrt/InformedRRTstar.h>
#include <ompl/geometric/planners/rrt/SORRTstar.h>
#include <ompl/geometric/planners/rrt/RRTsharp.h>
#include <ompl/geometric/planners/rrt/RRTXstatic.h>
#include <ompl/geometric/planners/rrt/LBTRRT.h>
#include <ompl/geometric/planners/rrt/LazyLBTRRT.h>
#include <ompl/geometric/planners/rrt/LazyRRT.h>
#include <ompl/geometric/planners/rrt/TRRT.h>
#include <ompl/geometric/planners/rrt/BiTRRT.h>
#include <ompl/geometric/planners/rrt/pRRT.h>
#include <ompl/geometric/planners/est/EST.h>
#include <ompl/geometric/planners/est/BiEST.h>
#include <ompl/geometric/planners/est/ProjEST.h>
#include <ompl/geometric/planners/kpiece/KPIECE1.h>
#include <ompl/geometric/planners/kpiece/BKPIECE1.h>
#include <ompl/geometric/planners/kpiece/LBKPIECE1.h>
#include <ompl/geometric/planners/pdst/PDST.h>
#include <ompl/geometric/planners/sbl/SBL.h>
#include <ompl/geometric/planners/sbl/pSBL.h>
#include <ompl/geometric/planners/stride/STRIDE.h>
#include <ompl/geometric/planners/fmt/FMT.h>
#include <ompl/geometric/planners/fmt/BFMT.h>
#include <ompl/geometric/planners/prm/PRM.h>
#include <ompl/geometric/planners/prm/PRMstar.h>
#include <ompl/geometric/planners/prm/LazyPRM.h>
#include <ompl/geometric/planners/prm/LazyPRMstar.h>
#include <ompl/geometric/planners/prm/SPARS.h>
#include <ompl/geometric/planners/prm/SPARStwo.h>
#include <ompl/geometric/planners/sst/SST.h>
#include <ompl/geometric/planners/rlrt/RLRT.h>
#include <ompl/geometric/planners/rlrt/BiRLRT.h>
#include <ompl/geometric/planners/informedtrees/BITstar.h>
#include <ompl/geometric/planners/informedtrees/ABITstar.h>
#include <ompl/geometric/planners/informedtrees/AITstar.h>
#include <ompl/geometric/planners/informedtrees/EITstar.h>
#include <ompl/geometric/planners/informedtrees/EIRMstar.h>
#include <ompl/geometric/planners/cforest/CForest.h>
#include <ompl/geometric/planners/AnytimePathShortening.h>
#include <ompl/multilevel/planners/qrrt/QRRT.h>
#include <ompl/multilevel/planners/qrrt/QRRTStar.h>
#include <ompl/multilevel/planners/qmp/QMP.h>
#include <ompl/multilevel/planners/qmp/QMPStar.h>
#include <ompl/util/Console.h>
#include <atomic>
#include <chrono>
#include <cstdio>
#include <random>
#include <ompl/base/goals/GoalStates.h>
namespace ob = ompl::base; namespace og = ompl::geometric; namespace om = ompl::multilevel;
template <class P> ob::PlannerPtr mk(const ob::SpaceInformationPtr &si) { return std::make_shared<P>(si); }
int main(int argc, char **argv)
{
    unsigned long budget = argc > 1 ? atol(argv[1]) : 20000;
    int seed = argc > 2 ? atoi(argv[2]) : 7;
    ompl::RNG::setSeed(seed);
    int kmax = argc > 4 ? atoi(argv[4]) : -1;
    std::mt19937 gen(seed);
    struct Ball { double x, y, r; };
    std::vector<Ball> balls;
    std::uniform_real_distribution<double> U(0, 10);
    const double res = 0.01, ext = std::sqrt(200.0), rl = res * ext;  // resolution length
    for (int i = 0; i < 8; ++i) { Ball b{U(gen), U(gen), 0.0}; b.r = 2 * rl + U(gen) * 0.12; if (std::hypot(b.x-1,b.y-1) < b.r + 0.5 || std::hypot(b.x-9,b.y-9) < b.r + 0.5) { --i; continue; } balls.push_back(b); }
    auto valid = [balls](const ob::State *s) { const double *v = s->as<ob::RealVectorStateSpace::StateType>()->values; for (auto &b : balls) if (std::hypot(v[0]-b.x, v[1]-b.y) < b.r) return false; return true; };
    ompl::msg::setLogLevel(ompl::msg::LOG_NONE);
    auto sp = std::make_shared<ob::RealVectorStateSpace>(2);
    sp->setBounds(0, 10);
    auto si = std::make_shared<ob::SpaceInformation>(sp);
    // wall with a gap
    si->setStateValidityChecker(valid);
    si->setStateValidityCheckingResolution(res);
    si->setup();
    std::vector<ob::SpaceInformationPtr> siv{si};
    std::vector<std::pair<const char *, std::function<ob::PlannerPtr()>>> P = {
#define E(T) {#T, [&] { return mk<og::T>(si); }}
        E(RRT), E(RRTConnect), E(RRTstar), E(InformedRRTstar), E(SORRTstar), E(RRTsharp), E(RRTXstatic), E(LBTRRT), E(LazyLBTRRT), E(LazyRRT), E(TRRT), E(BiTRRT), E(pRRT),
        E(EST), E(BiEST), E(ProjEST), E(KPIECE1), E(BKPIECE1), E(LBKPIECE1), E(PDST), E(SBL), E(pSBL), E(STRIDE), E(FMT), E(BFMT), E(PRM), E(PRMstar), E(LazyPRM), E(LazyPRMstar), E(SPARS), E(SPARStwo),
        E(SST), E(RLRT), E(BiRLRT), E(BITstar), E(ABITstar), E(AITstar), E(EITstar), E(EIRMstar), E(CForest), E(AnytimePathShortening),
        {"QRRT", [&] { return std::make_shared<om::QRRT>(siv); }},
        {"QRRTStar", [&] { return std::make_shared<om::QRRTStar>(siv); }},
        {"QMP", [&] { return std::make_shared<om::QMP>(siv); }},
        {"QMPStar", [&] { return std::make_shared<om::QMPStar>(siv); }},
    };
    for (auto &e : P)
    {
        if (argc > 3 && std::string(argv[3]) != e.first) continue;
        // find an invalid point (inside first ball) and an out-of-bounds point
        double bx = balls[0].x, by = balls[0].y; std::string log; int anomalies = 0;
        for (int cs = 0; cs < 6; ++cs)
        {
            auto pdef = std::make_shared<ob::ProblemDefinition>(si); auto opt = std::make_shared<ob::PathLengthOptimizationObjective>(si); opt->setCostThreshold(opt->infiniteCost()); pdef->setOptimizationObjective(opt);
            ob::ScopedState<> s(si), s2(si), g(si), g2(si), bad(si), oob(si); s[0] = 1; s[1] = 1; s2[0] = 1; s2[1] = 9; g[0] = 9; g[1] = 9; g2[0] = 9; g2[1] = 1; bad[0] = bx; bad[1] = by; oob[0] = 11; oob[1] = 5;
            auto goals = std::make_shared<ob::GoalStates>(si); goals->setThreshold(0.05);
            switch (cs) { case 0: pdef->addStartState(bad); goals->addState(g); break; case 1: pdef->addStartState(oob); goals->addState(g); break; case 2: pdef->addStartState(s); goals->addState(bad); break;
                          case 3: pdef->addStartState(bad); pdef->addStartState(s); pdef->addStartState(oob); goals->addState(g); break; case 4: pdef->addStartState(s); goals->addState(bad); goals->addState(g); goals->addState(oob); break; case 5: pdef->addStartState(s); pdef->addStartState(s2); goals->addState(g); goals->addState(g2); break; }
            pdef->setGoal(goals);
            ob::PlannerPtr pl; try { pl = e.second(); pl->setProblemDefinition(pdef); pl->setup(); } catch (std::exception &ex) { log += " SETUP-EXC"; continue; }
            std::atomic<unsigned long> n{0}; unsigned long bud = (cs <= 2) ? 300 : std::min<unsigned long>(budget, (std::string(e.first).find("Q") == 0 || std::string(e.first) == "LBTRRT") ? 600 : 4000);
            ob::PlannerStatus st; try { st = pl->solve(ob::PlannerTerminationCondition([&] { return ++n > bud || pdef->hasExactSolution(); })); } catch (std::exception &ex) { log += " c" + std::to_string(cs) + ":EXC(" + std::string(ex.what()).substr(0, 40) + ")"; ++anomalies; continue; }
            auto path = std::dynamic_pointer_cast<og::PathGeometric>(pdef->getSolutionPath()); bool okc = true; std::string why;
            if (cs <= 1) { if ((bool)st || pdef->getSolutionCount()) { okc = false; why = "solution-from-invalid-start"; } }
            if (path && path->getStateCount()) { const ob::State *f = path->getState(0), *l = path->getState(path->getStateCount() - 1); if (!si->isValid(f) || !si->satisfiesBounds(f)) { okc = false; why += "/first-invalid"; } if (!pdef->hasApproximateSolution() && (!si->isValid(l) || !goals->isSatisfied(l))) { okc = false; why += "/last-bad"; }
                bool isStart = false; for (unsigned i = 0; i < pdef->getStartStateCount(); ++i) if (sp->equalStates(f, pdef->getStartState(i))) isStart = true; if (!isStart) { okc = false; why += "/not-a-start"; } }
            if (cs == 2 && st == ob::PlannerStatus::EXACT_SOLUTION) { okc = false; why += "/exact-to-invalid-goal"; }
            if (((bool)st) != (pdef->getSolutionCount() > 0)) { okc = false; why += "/status"; }
            if (!okc) ++anomalies; log += " c" + std::to_string(cs) + ":" + st.asString().substr(0, 7) + (okc ? "" : "[" + why + "]");
        }
        printf("%-22s anomalies=%d%s\n", e.first, anomalies, log.c_str());
        fflush(stdout);
    }
}
