// design-phase probe: C09 truncation, C18 reference models (throw-away)
#include <ompl/base/spaces/RealVectorStateSpace.h>
#include <ompl/base/spaces/SE3StateSpace.h>
#include <ompl/base/SpaceInformation.h>
#include <ompl/base/StateStorage.h>
#include <ompl/base/PlannerData.h>
#include <ompl/base/PlannerDataStorage.h>
#include <ompl/base/ProblemDefinition.h>
#include <ompl/base/PlannerTerminationCondition.h>
#include <ompl/base/terminationconditions/IterationTerminationCondition.h>
#include <ompl/base/terminationconditions/CostConvergenceTerminationCondition.h>
#include <ompl/base/ScopedState.h>
#include <ompl/util/Console.h>
#include <sstream>
#include <random>
#include <thread>
#include <atomic>
#include <cstdio>
namespace ob = ompl::base;
struct Cap : ompl::msg::OutputHandler { int errs = 0, warns = 0; void log(const std::string &, ompl::msg::LogLevel l, const char *, int) override { if (l >= ompl::msg::LOG_ERROR) ++errs; else if (l >= ompl::msg::LOG_WARN) ++warns; } };
int main()
{
    Cap cap; ompl::msg::useOutputHandler(&cap); ompl::msg::setLogLevel(ompl::msg::LOG_WARN);
    std::mt19937 g(7);
    // ---- C09: truncation, StateStorage + PlannerDataStorage
    {
        auto sp = std::make_shared<ob::SE3StateSpace>(); ob::RealVectorBounds b(3); b.setLow(-1); b.setHigh(1); sp->setBounds(b); sp->setup();
        ob::StateStorage st(sp); st.generateSamples(20); std::stringstream ss; st.store(ss); std::string img = ss.str();
        int silentFull = 0, noLog = 0, badPrefix = 0, exc = 0;
        for (size_t len = 0; len < img.size(); ++len)
        {
            std::stringstream in(img.substr(0, len)); ob::StateStorage ld(sp); int e0 = cap.errs + cap.warns;
            try { ld.load(in); } catch (...) { ++exc; continue; }
            if (ld.size() >= st.size()) ++silentFull; if (cap.errs + cap.warns == e0) ++noLog;
            for (size_t i = 0; i < ld.size(); ++i) if (!sp->equalStates(ld.getState(i), st.getState(i))) { ++badPrefix; break; }
        }
        printf("StateStorage: image %zu bytes; truncations: silentFull=%d noLog=%d badPrefix=%d exceptions=%d\n", img.size(), silentFull, noLog, badPrefix, exc);
        auto si = std::make_shared<ob::SpaceInformation>(sp); si->setup();
        ob::PlannerData pd(si); std::vector<ob::ScopedState<>> keep; for (int i = 0; i < 12; ++i) { keep.emplace_back(si); keep.back().random(); }
        for (int i = 0; i < 12; ++i) { if (i < 2) pd.addStartVertex(ob::PlannerDataVertex(keep[i].get(), i)); else if (i > 9) pd.addGoalVertex(ob::PlannerDataVertex(keep[i].get(), i)); else pd.addVertex(ob::PlannerDataVertex(keep[i].get(), i)); }
        for (int i = 0; i < 11; ++i) pd.addEdge(i, i + 1, ob::PlannerDataEdge(), ob::Cost(i * 0.5));
        std::stringstream ps; ob::PlannerDataStorage pds; pds.store(pd, ps); std::string pimg = ps.str(); int accepted = 0, pexc = 0; std::string what;
        for (size_t len = 0; len < pimg.size(); ++len) { std::stringstream in(pimg.substr(0, len)); ob::PlannerData pd2(si); try { if (pds.load(in, pd2)) ++accepted; } catch (std::exception &e) { ++pexc; what = e.what(); } catch (...) { ++pexc; } }
        printf("PlannerDataStorage: image %zu bytes; truncations accepted=%d exceptions escaping=%d %s\n", pimg.size(), accepted, pexc, what.c_str());
        // wrong signature
        auto sp2 = std::make_shared<ob::RealVectorStateSpace>(7); sp2->setBounds(-1, 1); sp2->setup(); auto si2 = std::make_shared<ob::SpaceInformation>(sp2); si2->setup();
        { std::stringstream in(pimg); ob::PlannerData pd3(si2); bool ok = pds.load(in, pd3); printf("foreign signature accepted=%d\n", (int)ok); }
        { std::stringstream in(img); ob::StateStorage ld(sp2); int e0 = cap.errs; ld.load(in); printf("StateStorage foreign signature: size=%zu errlogged=%d\n", ld.size(), cap.errs - e0); }
    }
    ompl::msg::setLogLevel(ompl::msg::LOG_NONE);
    // ---- C18: iteration condition
    {
        int bad = 0; for (unsigned n : {0u, 1u, 2u, 5u, 100u}) { ob::IterationTerminationCondition itc(n); ob::PlannerTerminationCondition ptc = itc; for (unsigned i = 1; i <= n + 5; ++i) { bool v = ptc(); if (v != (i > n)) ++bad; } }
        printf("iteration condition mismatches=%d\n", bad);
        // sticky terminate + or/and
        int bad2 = 0; for (int t = 0; t < 2000; ++t) { int step = 0; std::vector<bool> tr1(50), tr2(50); for (int i = 0; i < 50; ++i) { tr1[i] = g() % 4 == 0; tr2[i] = g() % 3 == 0; }
            ob::PlannerTerminationCondition c1([&] { return (bool)tr1[step]; }), c2([&] { return (bool)tr2[step]; }); auto o = ob::plannerOrTerminationCondition(c1, c2), a = ob::plannerAndTerminationCondition(c1, c2); auto nested = ob::plannerOrTerminationCondition(a, ob::plannerAndTerminationCondition(o, c2));
            int term = g() % 60; bool termed = false; for (step = 0; step < 50; ++step) { if (step == term) { c1.terminate(); termed = true; } bool e1 = termed || tr1[step], e2 = tr2[step]; if (c1() != e1) ++bad2; if (o() != (e1 || e2)) ++bad2; if (a() != (e1 && e2)) ++bad2; if (nested() != ((e1 && e2) || ((e1 || e2) && e2))) ++bad2; } }
        printf("predicate/or/and/terminate mismatches=%d\n", bad2);
    }
    // ---- C18: cost convergence reference model
    {
        auto sp = std::make_shared<ob::RealVectorStateSpace>(2); sp->setBounds(0, 1); auto si = std::make_shared<ob::SpaceInformation>(sp); si->setup();
        int mism = 0, fired = 0, trials = 3000;
        for (int t = 0; t < trials; ++t)
        {
            ob::ProblemDefinitionPtr pdef = std::make_shared<ob::ProblemDefinition>(si); size_t w = 1 + g() % 8; double eps = std::pow(10.0, -1.0 - (g() % 3));
            ob::CostConvergenceTerminationCondition cc(pdef, w, eps); auto cb = pdef->getIntermediateSolutionCallback();
            double avg = 0; size_t nsol = 0; int refFire = -1, implFire = -1; double c = 100 + (g() % 50);
            for (int i = 0; i < 60; ++i)
            {
                c *= (1.0 - std::uniform_real_distribution<double>(0, (g() % 2) ? 0.3 : 0.01)(g));
                ++nsol; size_t s = std::min(nsol, w); double nw = ((s - 1) * avg + c) / s; double lo = (1 - eps) * avg, hi = (1 + eps) * avg; avg = nw; if (refFire < 0 && s == w && avg > lo && avg < hi) refFire = i;
                cb(nullptr, {}, ob::Cost(c)); if (implFire < 0 && cc()) implFire = i;
            }
            if (refFire != implFire) ++mism; if (implFire >= 0) ++fired;
        }
        printf("cost convergence: mismatches=%d/%d fired in %d\n", mism, trials, fired);
    }
    // ---- C18 periodic: logical-step rule
    {
        int bad = 0, lateStart = 0; for (int t = 0; t < 30; ++t)
        {
            std::atomic<int> inv{0}, trueAt{-1}; std::atomic<bool> flag{false};
            { ob::PlannerTerminationCondition ptc([&] { int k = ++inv; bool v = flag.load(); if (v && trueAt.load() < 0) trueAt = k; return v; }, 0.002);
              std::this_thread::sleep_for(std::chrono::milliseconds(5)); if (ptc()) ++bad; flag = true;
              auto t0 = std::chrono::steady_clock::now(); while (true) { int ta = trueAt.load(); int cur = inv.load(); bool v = ptc(); if (ta > 0 && cur > ta && !v) ++bad; if (v) break; if (std::chrono::steady_clock::now() - t0 > std::chrono::seconds(2)) { ++lateStart; break; } } }
            int after = inv.load(); std::this_thread::sleep_for(std::chrono::milliseconds(10)); if (inv.load() != after) ++bad;
        }
        printf("periodic: rule violations=%d neverTrueWithin2s=%d\n", bad, lateStart);
    }
}
