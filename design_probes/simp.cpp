// design-phase probe: C17 path simplifier oracles + C04 cost truthfulness (throw-away)
#include <ompl/base/spaces/RealVectorStateSpace.h>
#include <ompl/base/SpaceInformation.h>
#include <ompl/base/ProblemDefinition.h>
#include <ompl/base/ScopedState.h>
#include <ompl/base/objectives/PathLengthOptimizationObjective.h>
#include <ompl/base/goals/GoalState.h>
#include <ompl/geometric/PathGeometric.h>
#include <ompl/geometric/PathSimplifier.h>
#include <ompl/geometric/PathHybridization.h>
#include <ompl/geometric/planners/rrt/RRT.h>
#include <ompl/geometric/planners/rrt/RRTConnect.h>
#include <ompl/geometric/planners/kpiece/KPIECE1.h>
#include <ompl/geometric/planners/rrt/RRTstar.h>
#include <ompl/geometric/planners/rrt/InformedRRTstar.h>
#include <ompl/geometric/planners/rrt/SORRTstar.h>
#include <ompl/geometric/planners/rrt/RRTsharp.h>
#include <ompl/geometric/planners/rrt/RRTXstatic.h>
#include <ompl/geometric/planners/rrt/LBTRRT.h>
#include <ompl/geometric/planners/rrt/LazyLBTRRT.h>
#include <ompl/geometric/planners/rrt/TRRT.h>
#include <ompl/geometric/planners/prm/PRMstar.h>
#include <ompl/geometric/planners/prm/LazyPRMstar.h>
#include <ompl/geometric/planners/prm/PRM.h>
#include <ompl/geometric/planners/prm/LazyPRM.h>
#include <ompl/geometric/planners/fmt/FMT.h>
#include <ompl/geometric/planners/fmt/BFMT.h>
#include <ompl/geometric/planners/sst/SST.h>
#include <ompl/geometric/planners/informedtrees/BITstar.h>
#include <ompl/geometric/planners/informedtrees/ABITstar.h>
#include <ompl/geometric/planners/informedtrees/AITstar.h>
#include <ompl/geometric/planners/informedtrees/EITstar.h>
#include <ompl/geometric/planners/informedtrees/EIRMstar.h>
#include <ompl/geometric/planners/cforest/CForest.h>
#include <ompl/geometric/planners/AnytimePathShortening.h>
#include <ompl/util/Console.h>
#include <atomic>
#include <random>
#include <cstdio>
namespace ob = ompl::base; namespace og = ompl::geometric;
struct Ball { double x, y, r; };
int main(int argc, char **argv)
{
    int seed = argc > 1 ? atoi(argv[1]) : 3; std::string mode = argc > 2 ? argv[2] : "simp";
    ompl::RNG::setSeed(seed); ompl::msg::setLogLevel(ompl::msg::LOG_NONE);
    std::mt19937 gen(seed); std::uniform_real_distribution<double> U(0, 10);
    const double res = 0.01, ext = std::sqrt(200.0), rl = res * ext; std::vector<Ball> balls;
    for (int i = 0; i < 10; ++i) { Ball b{U(gen), U(gen), 0.0}; b.r = 2 * rl + U(gen) * 0.12; if (std::hypot(b.x-1,b.y-1) < b.r + 0.5 || std::hypot(b.x-9,b.y-9) < b.r + 0.5) { --i; continue; } balls.push_back(b); }
    auto sp = std::make_shared<ob::RealVectorStateSpace>(2); sp->setBounds(0, 10);
    auto si = std::make_shared<ob::SpaceInformation>(sp);
    si->setStateValidityChecker([balls](const ob::State *s) { const double *v = s->as<ob::RealVectorStateSpace::StateType>()->values; for (auto &b : balls) if (std::hypot(v[0]-b.x, v[1]-b.y) < b.r) return false; return true; });
    si->setStateValidityCheckingResolution(res); si->setup();
    auto dense = [&](const og::PathGeometric &p) { double worst = 0; ob::State *tmp = si->allocState(); for (size_t i = 0; i + 1 < p.getStateCount(); ++i) { const ob::State *a = p.getState(i), *b = p.getState(i+1); double d = si->distance(a, b); int m = std::max(1, (int)std::ceil(d / (rl/4))); double run = 0; for (int j = 0; j <= m; ++j) { sp->interpolate(a, b, (double)j/m, tmp); if (!si->isValid(tmp)) { run += d/m; worst = std::max(worst, run); } else run = 0; } } si->freeState(tmp); return worst / rl; };
    ob::ScopedState<> s(si), g(si); s[0] = 1; s[1] = 1; g[0] = 9; g[1] = 9;
    auto mkpdef = [&] { auto pdef = std::make_shared<ob::ProblemDefinition>(si); pdef->setStartAndGoalStates(s, g, 0.05); return pdef; };
    if (mode == "simp")
    {
        std::vector<og::PathGeometric> inputs;
        for (int k = 0; k < 3; ++k) { auto pdef = mkpdef(); ob::PlannerPtr pl; if (k == 0) pl = std::make_shared<og::RRT>(si); else if (k == 1) pl = std::make_shared<og::RRTConnect>(si); else pl = std::make_shared<og::KPIECE1>(si); pl->setProblemDefinition(pdef); pl->setup(); std::atomic<unsigned long> n{0}; pl->solve(ob::PlannerTerminationCondition([&] { return ++n > 20000; })); auto p = std::dynamic_pointer_cast<og::PathGeometric>(pdef->getSolutionPath()); if (p && !pdef->hasApproximateSolution()) inputs.push_back(*p); }
        auto pdef = mkpdef();
        const char *names[] = {"reduceVertices", "partialShortcut", "ropeShortcut", "collapseClose", "smoothBSpline", "perturbPath", "findBetterGoal", "simplify", "simplifyMax", "subdivide", "interpolate", "interpolateN"};
        for (size_t ii = 0; ii < inputs.size(); ++ii) for (int r = 0; r < 12; ++r) for (int rep = 0; rep < 6; ++rep)
        {
            og::PathGeometric p = inputs[ii]; double L0 = p.length(), D0 = dense(p); size_t n0 = p.getStateCount();
            og::PathSimplifier ps(si, pdef->getGoal()); bool ret = false; unsigned req = 0; std::atomic<unsigned long> n{0}; ob::PlannerTerminationCondition ptc([&] { return ++n > 2000; });
            switch (r) { case 0: ret = ps.reduceVertices(p); break; case 1: ret = ps.partialShortcutPath(p); break; case 2: ret = ps.ropeShortcutPath(p, 0.3 + 0.2 * rep); break; case 3: ret = ps.collapseCloseVertices(p); break; case 4: ps.smoothBSpline(p, 3 + rep); break; case 5: ret = ps.perturbPath(p, 0.5 + rep * 0.3); break; case 6: ret = ps.findBetterGoal(p, ptc); break; case 7: ret = ps.simplify(p, ptc); break; case 8: ret = ps.simplifyMax(p); break; case 9: p.subdivide(); break; case 10: p.interpolate(); break; case 11: req = n0 + rep * 7; p.interpolate(req); break; }
            bool firstOk = sp->equalStates(p.getState(0), inputs[ii].getState(0)); bool lastOk = sp->equalStates(p.getState(p.getStateCount()-1), inputs[ii].getState(n0-1)) || pdef->getGoal()->isSatisfied(p.getState(p.getStateCount()-1));
            double L1 = p.length(), D1 = dense(p); bool lenOk = (r <= 3 || r == 7 || r == 8) ? L1 <= L0 + 1e-9 : true; bool lenSame = (r >= 9) ? std::fabs(L1 - L0) <= 1e-9 * (1 + L0) : true; bool cntOk = (r == 11) ? p.getStateCount() == req : true;
            bool chk = (r == 7 || r == 8) ? (!ret || p.check()) : true;
            if (!firstOk || !lastOk || D1 > 2 || !lenOk || !lenSame || !cntOk || !chk || rep == 0)
                printf("in%zu %-16s rep=%d ret=%d n:%zu->%zu L:%.4f->%.4f dense:%.2f->%.2f firstOk=%d lastOk=%d lenOk=%d lenSame=%d cntOk=%d simplifyImpliesCheck=%d check=%d\n", ii, names[r], rep, (int)ret, n0, p.getStateCount(), L0, L1, D0, D1, (int)firstOk, (int)lastOk, (int)lenOk, (int)lenSame, (int)cntOk, (int)chk, (int)p.check());
        }
    }
    else
    {
        std::vector<std::pair<const char *, std::function<ob::PlannerPtr()>>> P = {
#define E(T) {#T, [&]() -> ob::PlannerPtr { return std::make_shared<og::T>(si); }}
            E(RRTstar), E(InformedRRTstar), E(SORRTstar), E(RRTsharp), E(RRTXstatic), E(LBTRRT), E(LazyLBTRRT), E(TRRT), E(PRM), E(PRMstar), E(LazyPRM), E(LazyPRMstar), E(FMT), E(BFMT), E(SST), E(BITstar), E(ABITstar), E(AITstar), E(EITstar), E(EIRMstar), E(CForest), E(AnytimePathShortening)};
        for (auto &e : P)
        {
            auto pdef = mkpdef(); auto opt = std::make_shared<ob::PathLengthOptimizationObjective>(si); if (seed % 2) opt->setCostThreshold(ob::Cost(16.0)); pdef->setOptimizationObjective(opt);
            auto pl = e.second(); pl->setProblemDefinition(pdef); pl->setup(); double prevBest = 1e300;
            for (int round = 0; round < 4; ++round)
            {
                std::atomic<unsigned long> n{0}; unsigned long bud = (std::string(e.first) == "LBTRRT" ? 400 : 1500) * (round + 1);
                ob::PlannerStatus st = pl->solve(ob::PlannerTerminationCondition([&] { return ++n > bud; }));
                auto sols = pdef->getSolutions(); int worseStored = 0, notEqual = 0, flagBad = 0, orderBad = 0, noOpt = 0; double worstDiff = 0;
                for (size_t i = 0; i < sols.size(); ++i)
                {
                    auto p = std::dynamic_pointer_cast<og::PathGeometric>(sols[i].path_); double truec = p->cost(opt).value();
                    if (!sols[i].opt_) { ++noOpt; continue; }
                    double stored = sols[i].cost_.value(); if (stored < truec - 1e-9 * (1 + truec)) ++worseStored; if (std::fabs(stored - truec) > 1e-6 * (1 + truec)) { ++notEqual; worstDiff = std::max(worstDiff, std::fabs(stored - truec)); }
                    if (sols[i].optimized_ != opt->isSatisfied(sols[i].cost_)) ++flagBad;
                    if (i + 1 < sols.size() && sols[i + 1] < sols[i]) ++orderBad;
                }
                double best = sols.empty() || sols[0].approximate_ ? 1e300 : (sols[0].opt_ ? sols[0].cost_.value() : sols[0].length_);
                bool mono = best <= prevBest + 1e-9; prevBest = std::min(prevBest, best);
                printf("%-22s round=%d %-20s nsol=%2zu noOpt=%d storedBetterThanTrue=%d notEqual=%d(max %.3g) flagBad=%d orderBad=%d best=%.4f mono=%d\n", e.first, round, st.asString().c_str(), sols.size(), noOpt, worseStored, notEqual, worstDiff, flagBad, orderBad, best > 1e299 ? -1 : best, (int)mono);
            }
        }
    }
}
