#include <ompl/base/spaces/RealVectorStateSpace.h>
#include <ompl/base/SpaceInformation.h>
#include <ompl/base/ProblemDefinition.h>
#include <ompl/base/ScopedState.h>
#include <ompl/base/objectives/PathLengthOptimizationObjective.h>
#include <ompl/geometric/planners/informedtrees/AITstar.h>
#include <ompl/geometric/planners/rrt/RRTstar.h>
#include <ompl/util/Console.h>
#include <atomic>
#include <cstdio>
namespace ob = ompl::base; namespace og = ompl::geometric;
int main(int argc, char **argv)
{
    ompl::RNG::setSeed(3); ompl::msg::setLogLevel(ompl::msg::LOG_NONE);
    auto sp = std::make_shared<ob::RealVectorStateSpace>(2); sp->setBounds(0, 10);
    auto si = std::make_shared<ob::SpaceInformation>(sp);
    si->setStateValidityChecker([](const ob::State *s) { const double *v = s->as<ob::RealVectorStateSpace::StateType>()->values; return !(v[0] > 4 && v[0] < 6 && v[1] < 7); });
    si->setup();
    for (int which = 0; which < 2; ++which)
    {
        auto pdef = std::make_shared<ob::ProblemDefinition>(si); ob::ScopedState<> s(si), g(si); s[0] = 1; s[1] = 1; g[0] = 9; g[1] = 1; pdef->setStartAndGoalStates(s, g, 0.05);
        auto opt = std::make_shared<ob::PathLengthOptimizationObjective>(si); opt->setCostThreshold(ob::Cost(17.0)); pdef->setOptimizationObjective(opt);
        ob::PlannerPtr pl; if (which == 0) pl = std::make_shared<og::AITstar>(si); else pl = std::make_shared<og::RRTstar>(si);
        pl->setProblemDefinition(pdef); pl->setup();
        for (int r = 0; r < 3; ++r) { std::atomic<unsigned long> n{0}; auto st = pl->solve(ob::PlannerTerminationCondition([&] { return ++n > 3000; })); printf("%s round %d status=%s evals=%lu\n", pl->getName().c_str(), r, st.asString().c_str(), n.load()); }
        for (auto &sol : pdef->getSolutions()) printf("   idx=%d cost=%.4f optimized=%d isSatisfied(cost)=%d sameOpt=%d approx=%d truecost=%.4f\n", sol.index_, sol.cost_.value(), (int)sol.optimized_, (int)opt->isSatisfied(sol.cost_), (int)(sol.opt_.get() == opt.get()), (int)sol.approximate_, sol.path_->cost(opt).value());
    }
}
