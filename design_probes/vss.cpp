// design-phase probe: C08 valid-state samplers (throw-away)
#include <ompl/base/spaces/RealVectorStateSpace.h>
#include <ompl/base/spaces/SE2StateSpace.h>
#include <ompl/base/SpaceInformation.h>
#include <ompl/base/samplers/UniformValidStateSampler.h>
#include <ompl/base/samplers/GaussianValidStateSampler.h>
#include <ompl/base/samplers/ObstacleBasedValidStateSampler.h>
#include <ompl/base/samplers/BridgeTestValidStateSampler.h>
#include <ompl/base/samplers/MaximizeClearanceValidStateSampler.h>
#include <ompl/base/samplers/MinimumClearanceValidStateSampler.h>
#include <ompl/util/Console.h>
#include <random>
#include <cstdio>
namespace ob = ompl::base;
struct Chk : ob::StateValidityChecker { int mode; Chk(ob::SpaceInformation *si, int m) : ob::StateValidityChecker(si), mode(m) {} 
    bool isValid(const ob::State *s) const override { double d; return isValid(s, d); }
    bool isValid(const ob::State *s, double &dist) const override { auto *p = s->as<ob::SE2StateSpace::StateType>(); double x = p->getX(), y = p->getY(); double c = std::hypot(x - 5, y - 5) - 2.0; dist = c; if (mode == 0) return true; if (mode == 1) return false; if (mode == 2) return c > 0; return std::fabs(x - 5) > 0.05 || std::fabs(p->getYaw()) > 1; }
    double clearance(const ob::State *s) const override { double d; isValid(s, d); return d; } };
int main()
{
    ompl::msg::setLogLevel(ompl::msg::LOG_NONE); std::mt19937 g(3);
    for (int mode = 0; mode < 4; ++mode)
    {
        auto sp = std::make_shared<ob::SE2StateSpace>(); ob::RealVectorBounds b(2); b.setLow(0); b.setHigh(10); sp->setBounds(b);
        auto si = std::make_shared<ob::SpaceInformation>(sp); auto chk = std::make_shared<Chk>(si.get(), mode); si->setStateValidityChecker(chk); si->setup();
        std::vector<std::pair<const char *, ob::ValidStateSamplerPtr>> S = {{"uniform", std::make_shared<ob::UniformValidStateSampler>(si.get())}, {"gaussian", std::make_shared<ob::GaussianValidStateSampler>(si.get())}, {"obstacle", std::make_shared<ob::ObstacleBasedValidStateSampler>(si.get())}, {"bridge", std::make_shared<ob::BridgeTestValidStateSampler>(si.get())}, {"maxclear", std::make_shared<ob::MaximizeClearanceValidStateSampler>(si.get())}, {"minclear", std::make_shared<ob::MinimumClearanceValidStateSampler>(si.get())}};
        ob::State *st = si->allocState(), *near = si->allocState(); auto smp = si->allocStateSampler();
        for (auto &e : S)
        {
            e.second->setNrAttempts(20); long ok = 0, fail = 0, invalid = 0, oob = 0;
            for (int k = 0; k < 3000; ++k) { bool r; if (k % 2) { smp->sampleUniform(near); double d = std::pow(10.0, std::uniform_real_distribution<double>(-4, 2)(g)); r = e.second->sampleNear(st, near, d); } else r = e.second->sample(st); if (!r) { ++fail; continue; } ++ok; if (!sp->satisfiesBounds(st)) ++oob; if (!chk->isValid(st)) ++invalid; }
            printf("mode%d %-9s ok=%ld fail=%ld returnedInvalid=%ld outOfBounds=%ld\n", mode, e.first, ok, fail, invalid, oob);
        }
        si->freeState(st); si->freeState(near);
    }
}
