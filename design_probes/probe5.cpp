#include <ompl/datastructures/NearestNeighborsGNAT.h>
#include <ompl/datastructures/PDF.h>
#include <ompl/base/spaces/RealVectorStateSpace.h>
#include <ompl/base/spaces/DubinsStateSpace.h>
#include <ompl/base/spaces/ReedsSheppStateSpace.h>
#include <ompl/base/spaces/special/KleinBottleStateSpace.h>
#include <ompl/base/SpaceInformation.h>
#include <ompl/base/PlannerData.h>
#include <ompl/base/PlannerDataStorage.h>
#include <ompl/base/ScopedState.h>
#include <ompl/util/Console.h>
#include <random>
#include <sstream>
#include <set>
#include <cstdio>
namespace ob = ompl::base;
int main()
{
    ompl::msg::setLogLevel(ompl::msg::LOG_NONE);
    std::mt19937 g(5);
    // (c) GNAT with leaf size < degree, removals then adds
    {
        int mism = 0, trials = 300;
        for (int t = 0; t < trials; ++t)
        {
            ompl::NearestNeighborsGNAT<int> nn(8, 4, 12, 2, 50, false);
            std::vector<double> pts(400); for (auto &p : pts) p = std::uniform_real_distribution<double>(0, 100)(g);
            nn.setDistanceFunction([&](const int &a, const int &b) { return std::fabs(pts[a] - pts[b]); });
            std::multiset<int> model; int next = 0;
            for (int op = 0; op < 200 && next < 400; ++op)
            {
                int r = g() % 10;
                if (r < 6 || model.empty()) { nn.add(next); model.insert(next); ++next; }
                else { auto it = model.begin(); std::advance(it, g() % model.size()); int v = *it; bool ok = nn.remove(v); if (ok) model.erase(it); else { ++mism; break; } }
                std::vector<int> lst; nn.list(lst);
                std::multiset<int> got(lst.begin(), lst.end());
                if (got != model || nn.size() != model.size()) { ++mism; break; }
            }
        }
        printf("gnat leaf<degree: %d/%d histories diverge from model\n", mism, trials);
    }
    // (d) start AND goal vertex round trip
    {
        auto sp = std::make_shared<ob::RealVectorStateSpace>(2); sp->setBounds(0, 1);
        auto si = std::make_shared<ob::SpaceInformation>(sp); si->setup();
        ob::PlannerData pd(si);
        ob::ScopedState<> a(si), b(si); a[0] = .1; a[1] = .2; b[0] = .3; b[1] = .4;
        unsigned v0 = pd.addStartVertex(ob::PlannerDataVertex(a.get())); pd.markGoalState(a.get());
        pd.addGoalVertex(ob::PlannerDataVertex(b.get())); pd.addEdge(0, 1);
        std::stringstream ss; ob::PlannerDataStorage st; st.store(pd, ss);
        ob::PlannerData pd2(si); bool ok = st.load(ss, pd2);
        printf("storage: before start=%d goal=%d(v0) | after ok=%d start=%d goal=%d(v0) nstart=%u ngoal=%u\n", (int)pd.isStartVertex(v0), (int)pd.isGoalVertex(v0), (int)ok, (int)pd2.isStartVertex(0), (int)pd2.isGoalVertex(0), pd2.numStartVertices(), pd2.numGoalVertices());
    }
    // (e) PDF hostile
    {
        ompl::PDF<int> pdf; auto *h = pdf.add(0, 1e30); pdf.add(1, 1.0); pdf.add(2, 2.0); pdf.remove(h);
        int c[3] = {0, 0, 0}; for (int i = 1; i < 1000; ++i) c[pdf.sample(i / 1000.0)]++;
        printf("pdf after add 1e30,1,2 remove 1e30: counts id1=%d id2=%d (expect ~333/666) size=%zu\n", c[1], c[2], pdf.size());
    }
    // (g) Klein triangle: random triples
    {
        auto k = std::make_shared<ob::KleinBottleStateSpace>(); k->setup();
        auto ss = k->allocStateSampler(); ob::ScopedState<> a(k), b(k), c(k); double worst = 0; int bad = 0;
        for (int i = 0; i < 200000; ++i) { ss->sampleUniform(a.get()); ss->sampleUniform(b.get()); ss->sampleUniform(c.get()); double v = k->distance(a.get(), c.get()) - k->distance(a.get(), b.get()) - k->distance(b.get(), c.get()); if (v > 1e-9) { ++bad; worst = std::max(worst, v); } }
        printf("klein: metric=%d triangle violations=%d/200000 worst=%g; sym check...", (int)k->isMetricSpace(), bad, worst);
        int asym = 0; for (int i = 0; i < 100000; ++i) { ss->sampleUniform(a.get()); ss->sampleUniform(b.get()); if (std::fabs(k->distance(a.get(), b.get()) - k->distance(b.get(), a.get())) > 1e-9) ++asym; } printf(" asym=%d\n", asym);
    }
    // (h) Dubins: distance vs exhaustive 6 words is internal; check prefix property + endpoint error + RS<=Dubins
    {
        auto d = std::make_shared<ob::DubinsStateSpace>(1.0); auto rs = std::make_shared<ob::ReedsSheppStateSpace>(1.0);
        ob::RealVectorBounds bnd(2); bnd.setLow(-5); bnd.setHigh(5); d->setBounds(bnd); rs->setBounds(bnd); d->setup(); rs->setup();
        auto ss = d->allocStateSampler(); ob::ScopedState<ob::SE2StateSpace> a(d), b(d), c(d);
        double worstEnd = 0, worstPrefix = 0, worstRS = 0, worstEndRS = 0; int n = 100000;
        for (int i = 0; i < n; ++i)
        {
            ss->sampleUniform(a.get()); ss->sampleUniform(b.get());
            if (i % 3 == 0) { b->setX(a->getX() + 1e-3 * (i % 7)); b->setY(a->getY()); }
            double L = d->distance(a.get(), b.get());
            d->interpolate(a.get(), b.get(), 1.0 - 1e-12, c.get());
            worstEnd = std::max(worstEnd, std::hypot(c->getX() - b->getX(), c->getY() - b->getY()));
            d->interpolate(a.get(), b.get(), 0.37, c.get());
            worstPrefix = std::max(worstPrefix, std::fabs(d->distance(a.get(), c.get()) - 0.37 * L));
            double R = rs->distance(a.get(), b.get());
            worstRS = std::max(worstRS, R - std::min(L, d->distance(b.get(), a.get())));
            rs->interpolate(a.get(), b.get(), 1.0 - 1e-12, c.get());
            worstEndRS = std::max(worstEndRS, std::hypot(c->getX() - b->getX(), c->getY() - b->getY()));
        }
        printf("dubins: worst endpoint err=%g worst prefix err=%g | RS-minDubins worst=%g RS endpoint err=%g\n", worstEnd, worstPrefix, worstRS, worstEndRS);
    }
}
