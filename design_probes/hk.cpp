// design-phase probe: yield-hook schedule perturbation + interleaving signatures for pRRT (TSan)
#include <ompl/util/VerifHooks.h>
#include <ompl/base/spaces/RealVectorStateSpace.h>
#include <ompl/base/SpaceInformation.h>
#include <ompl/base/ProblemDefinition.h>
#include <ompl/base/ScopedState.h>
#include <ompl/geometric/PathGeometric.h>
#include <ompl/geometric/planners/rrt/pRRT.h>
#include <ompl/util/Console.h>
#include <atomic>
#include <thread>
#include <mutex>
#include <set>
#include <cstdio>
#include <cstring>
#include <chrono>
namespace ob = ompl::base; namespace og = ompl::geometric;
static std::mutex gM; static std::vector<std::pair<int, char>> gTrace; static std::atomic<int> gTidNext{0}; static unsigned gSeed = 1; static int gMode = 1;
static void hook(const char *id)
{
    thread_local int tid = gTidNext++; thread_local unsigned rs = gSeed * 2654435761u + tid * 40503u + 1;
    rs = rs * 1664525u + 1013904223u; unsigned r = (rs >> 16) % 100;
    { std::lock_guard<std::mutex> l(gM); if (gTrace.size() < 4000) gTrace.emplace_back(tid, id[5]); }   // id[5]: a / b distinguishes points ("pRRT.after..", "pRRT.before_add", "pRRT.before_sol")
    if (gMode == 0) return; if (r < 50) return; if (r < 80) { std::this_thread::yield(); return; } std::this_thread::sleep_for(std::chrono::microseconds(1 + (rs >> 8) % 200));
}
int main(int argc, char **argv)
{
    gMode = argc > 1 ? atoi(argv[1]) : 1; int runs = argc > 2 ? atoi(argv[2]) : 10;
    ompl::msg::setLogLevel(ompl::msg::LOG_NONE); ompl::verif::yieldHook.store(&hook);
    auto sp = std::make_shared<ob::RealVectorStateSpace>(2); sp->setBounds(0, 10); auto si = std::make_shared<ob::SpaceInformation>(sp);
    si->setStateValidityChecker([](const ob::State *s) { const double *v = s->as<ob::RealVectorStateSpace::StateType>()->values; return !(v[0] > 4 && v[0] < 6 && v[1] < 7); }); si->setup();
    std::set<unsigned long long> sigs; long totalEvents = 0; int solved = 0;
    for (int r = 0; r < runs; ++r)
    {
        gSeed = 100 + r; gTidNext = 0; { std::lock_guard<std::mutex> l(gM); gTrace.clear(); }
        ompl::RNG::setSeed(7);   // note: only effective before the first RNG; planner seeds still vary per run index deterministically
        auto pdef = std::make_shared<ob::ProblemDefinition>(si); ob::ScopedState<> s(si), g(si); s[0] = 1; s[1] = 1; g[0] = 9; g[1] = 1; pdef->setStartAndGoalStates(s, g, 0.05);
        auto pl = std::make_shared<og::pRRT>(si); pl->setThreadCount(4); pl->setProblemDefinition(pdef); pl->setup();
        std::atomic<unsigned long> n{0}; auto st = pl->solve(ob::PlannerTerminationCondition([&] { return ++n > 3000; })); if (st) ++solved;
        unsigned long long h = 1469598103934665603ULL; { std::lock_guard<std::mutex> l(gM); size_t m = std::min<size_t>(gTrace.size(), 64); for (size_t i = 0; i < m; ++i) { h ^= (unsigned)(gTrace[i].first * 7 + gTrace[i].second); h *= 1099511628211ULL; } totalEvents += gTrace.size(); }
        sigs.insert(h);
    }
    printf("mode=%d runs=%d solved=%d hook events=%ld distinct interleaving signatures (first 64 events)=%zu\n", gMode, runs, solved, totalEvents, sigs.size());
}
