// design-phase probe: C15 PHS mechanism + informed sampler oracle (throw-away)
#include <ompl/util/ProlateHyperspheroid.h>
#include <ompl/util/RandomNumbers.h>
#include <ompl/util/GeometricEquations.h>
#include <ompl/base/spaces/RealVectorStateSpace.h>
#include <ompl/base/spaces/SE2StateSpace.h>
#include <ompl/base/SpaceInformation.h>
#include <ompl/base/ProblemDefinition.h>
#include <ompl/base/ScopedState.h>
#include <ompl/base/goals/GoalStates.h>
#include <ompl/base/objectives/PathLengthOptimizationObjective.h>
#include <ompl/base/samplers/informed/PathLengthDirectInfSampler.h>
#include <ompl/base/samplers/informed/RejectionInfSampler.h>
#include <ompl/util/Console.h>
#include <Eigen/Dense>
#include <random>
#include <cstdio>
namespace ob = ompl::base;
int main()
{
    ompl::msg::setLogLevel(ompl::msg::LOG_NONE); ompl::RNG::setSeed(5); std::mt19937_64 g(3); auto U = [&](double a, double b) { return std::uniform_real_distribution<double>(a, b)(g); };
    long nAff = 0, badAff = 0, nSurf = 0, badSurf = 0, nDet = 0, badDet = 0, nMeas = 0, badMeas = 0; double worstDet = 0, worstMeas = 0, worstSurf = 0;
    for (int n = 2; n <= 8; ++n) for (int t = 0; t < 40; ++t)
    {
        std::vector<double> f1(n), f2(n); for (int i = 0; i < n; ++i) { f1[i] = U(-5, 5); f2[i] = U(-5, 5); } if (t % 5 == 0) for (int i = 1; i < n; ++i) f2[i] = f1[i];   // axis-aligned foci
        double dmin = 0; for (int i = 0; i < n; ++i) dmin += (f1[i] - f2[i]) * (f1[i] - f2[i]); dmin = std::sqrt(dmin); double c = dmin * (t % 3 == 0 ? 1 + 1e-6 : U(1.01, 5));
        auto phs = std::make_shared<ompl::ProlateHyperspheroid>(n, f1.data(), f2.data()); phs->setTransverseDiameter(c);
        auto T = [&](const Eigen::VectorXd &x) { Eigen::VectorXd y(n); phs->transform(x.data(), y.data()); return y; };
        Eigen::VectorXd T0 = T(Eigen::VectorXd::Zero(n)); Eigen::MatrixXd J(n, n); for (int i = 0; i < n; ++i) { Eigen::VectorXd e = Eigen::VectorXd::Zero(n); e[i] = 1; J.col(i) = T(e) - T0; }
        for (int k = 0; k < 10; ++k) { Eigen::VectorXd x = Eigen::VectorXd::Random(n), y = Eigen::VectorXd::Random(n); double al = U(-2, 2), be = U(-2, 2); Eigen::VectorXd lhs = T(al * x + be * y) - T0, rhs = al * (T(x) - T0) + be * (T(y) - T0); ++nAff; if ((lhs - rhs).norm() > 1e-9 * (1 + c)) ++badAff; }
        double a = c / 2, bb = std::sqrt(c * c - dmin * dmin) / 2, detRef = a * std::pow(bb, n - 1), det = std::fabs(J.determinant()); ++nDet; if (std::fabs(det - detRef) > 1e-9 * detRef + 1e-300) { ++badDet; worstDet = std::max(worstDet, std::fabs(det / detRef - 1)); }
        double meas = phs->getPhsMeasure(c), measRef = ompl::unitNBallMeasure(n) * detRef; ++nMeas; if (std::fabs(meas - measRef) > 1e-9 * measRef) { ++badMeas; worstMeas = std::max(worstMeas, std::fabs(meas / measRef - 1)); }
        ompl::RNG rng; for (int k = 0; k < 50; ++k) { std::vector<double> p(n); rng.uniformProlateHyperspheroidSurface(phs, p.data()); double s = 0, s1 = 0, s2 = 0; for (int i = 0; i < n; ++i) { s1 += (p[i] - f1[i]) * (p[i] - f1[i]); s2 += (p[i] - f2[i]) * (p[i] - f2[i]); } s = std::sqrt(s1) + std::sqrt(s2); ++nSurf; if (std::fabs(s - c) > 1e-9 * c) { ++badSurf; worstSurf = std::max(worstSurf, std::fabs(s / c - 1)); } }
    }
    printf("PHS: affine bad %ld/%ld | det bad %ld/%ld (worst rel %.2g) | measure bad %ld/%ld (worst rel %.2g) | surface focal-sum bad %ld/%ld (worst rel %.2g)\n", badAff, nAff, badDet, nDet, worstDet, badMeas, nMeas, worstMeas, badSurf, nSurf, worstSurf);
    // informed samplers on R^n and SE2 with multiple starts/goals
    for (int cfg = 0; cfg < 6; ++cfg)
    {
        bool se2 = cfg >= 4; int n = se2 ? 2 : 2 + cfg; ob::StateSpacePtr sp; if (se2) { auto s = std::make_shared<ob::SE2StateSpace>(); ob::RealVectorBounds b(2); b.setLow(-4); b.setHigh(4); s->setBounds(b); sp = s; } else { auto s = std::make_shared<ob::RealVectorStateSpace>(n); s->setBounds(-4, 4); sp = s; }
        auto si = std::make_shared<ob::SpaceInformation>(sp); si->setup(); auto pdef = std::make_shared<ob::ProblemDefinition>(si);
        int ns = 1 + cfg % 2, ng = 1 + (cfg / 2) % 2; std::vector<std::vector<double>> S, Gs; auto goals = std::make_shared<ob::GoalStates>(si);
        auto setPos = [&](ob::State *st, const std::vector<double> &p) { if (se2) { st->as<ob::SE2StateSpace::StateType>()->setXY(p[0], p[1]); st->as<ob::SE2StateSpace::StateType>()->setYaw(U(-3, 3)); } else for (int i = 0; i < n; ++i) st->as<ob::RealVectorStateSpace::StateType>()->values[i] = p[i]; };
        auto getPos = [&](const ob::State *st) { std::vector<double> p(n); if (se2) { p[0] = st->as<ob::SE2StateSpace::StateType>()->getX(); p[1] = st->as<ob::SE2StateSpace::StateType>()->getY(); } else for (int i = 0; i < n; ++i) p[i] = st->as<ob::RealVectorStateSpace::StateType>()->values[i]; return p; };
        for (int i = 0; i < ns; ++i) { std::vector<double> p(n); for (auto &v : p) v = U(-3, 3); S.push_back(p); ob::ScopedState<> s(si); setPos(s.get(), p); pdef->addStartState(s); }
        for (int i = 0; i < ng; ++i) { std::vector<double> p(n); for (auto &v : p) v = U(-3, 3); Gs.push_back(p); ob::ScopedState<> s(si); setPos(s.get(), p); goals->addState(s); }
        pdef->setGoal(goals); auto opt = std::make_shared<ob::PathLengthOptimizationObjective>(si); opt->setCostToGoHeuristic(&ob::goalRegionCostToGo); pdef->setOptimizationObjective(opt);
        auto hcost = [&](const std::vector<double> &x) { double best = 1e300; for (auto &s : S) for (auto &gg : Gs) { double a = 0, b = 0; for (int i = 0; i < n; ++i) { a += (x[i] - s[i]) * (x[i] - s[i]); b += (x[i] - gg[i]) * (x[i] - gg[i]); } best = std::min(best, std::sqrt(a) + std::sqrt(b)); } return best; };
        double dmin = 1e300; for (auto &s : S) for (auto &gg : Gs) { double a = 0; for (int i = 0; i < n; ++i) a += (s[i] - gg[i]) * (s[i] - gg[i]); dmin = std::min(dmin, std::sqrt(a)); }
        for (int which = 0; which < 2; ++which)
        {
            std::shared_ptr<ob::InformedSampler> smp; if (which == 0) smp = std::make_shared<ob::PathLengthDirectInfSampler>(pdef, 100); else smp = std::make_shared<ob::RejectionInfSampler>(pdef, 100);
            long ok = 0, fail = 0, outB = 0, costBad = 0, hBad = 0, lowBad = 0; ob::ScopedState<> st(si);
            for (int k = 0; k < 3000; ++k)
            {
                double c = dmin * (4.0 - 2.999 * k / 3000.0); bool useMin = k % 3 == 0; double cmin = dmin + (c - dmin) * 0.5;
                bool r = useMin ? smp->sampleUniform(st.get(), ob::Cost(cmin), ob::Cost(c)) : smp->sampleUniform(st.get(), ob::Cost(c)); if (!r) { ++fail; continue; } ++ok;
                if (!sp->satisfiesBounds(st.get())) ++outB; double hl = smp->heuristicSolnCost(st.get()).value(), h = which ? hl : hcost(getPos(st.get())); if (!(hl < c)) ++costBad; if (useMin && hl < cmin * (1 - 1e-12)) ++lowBad; if (std::fabs(h - hl) > 1e-9 * (1 + h)) ++hBad;
            }
            printf("cfg%d %s n=%d starts=%d goals=%d %s: ok=%ld fail=%ld outOfBounds=%ld cost>=c=%ld belowMin=%ld heuristicMismatch=%ld\n", cfg, se2 ? "SE2" : "Rn", n, ns, ng, which ? "rejection" : "direct", ok, fail, outB, costBad, lowBad, hBad);
        }
    }
}
