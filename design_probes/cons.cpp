// design-phase probe: C16 on-manifold oracle (throw-away)
#include <ompl/base/Constraint.h>
#include <ompl/base/ConstrainedSpaceInformation.h>
#include <ompl/base/spaces/RealVectorStateSpace.h>
#include <ompl/base/spaces/constraint/ProjectedStateSpace.h>
#include <ompl/base/spaces/constraint/AtlasStateSpace.h>
#include <ompl/base/spaces/constraint/TangentBundleStateSpace.h>
#include <ompl/base/ProblemDefinition.h>
#include <ompl/base/ScopedState.h>
#include <ompl/geometric/PathGeometric.h>
#include <ompl/geometric/planners/rrt/RRTConnect.h>
#include <ompl/geometric/planners/rrt/RRT.h>
#include <ompl/geometric/planners/prm/PRM.h>
#include <ompl/util/Console.h>
#include <atomic>
#include <cstdio>
namespace ob = ompl::base; namespace og = ompl::geometric;
struct Sphere : ob::Constraint { Sphere() : ob::Constraint(3, 1) {} void function(const Eigen::Ref<const Eigen::VectorXd> &x, Eigen::Ref<Eigen::VectorXd> out) const override { out[0] = x.norm() - 1; } void jacobian(const Eigen::Ref<const Eigen::VectorXd> &x, Eigen::Ref<Eigen::MatrixXd> out) const override { out = x.transpose().normalized(); } };
struct Torus : ob::Constraint { Torus() : ob::Constraint(3, 1) {} void function(const Eigen::Ref<const Eigen::VectorXd> &x, Eigen::Ref<Eigen::VectorXd> out) const override { double r = std::hypot(x[0], x[1]) - 1.0; out[0] = std::sqrt(r * r + x[2] * x[2]) - 0.4; } };
struct SphPlane : ob::Constraint { SphPlane() : ob::Constraint(4, 2) {} void function(const Eigen::Ref<const Eigen::VectorXd> &x, Eigen::Ref<Eigen::VectorXd> out) const override { out[0] = x.norm() - 1; out[1] = x[3] - 0.2 * x[0]; } };
int main(int argc, char **argv)
{
    ompl::RNG::setSeed(argc > 1 ? atoi(argv[1]) : 3); ompl::msg::setLogLevel(ompl::msg::LOG_NONE);
    const char *cn[] = {"sphere", "torus", "sph∩plane"}; const char *sn[] = {"PJ", "AT", "TB"};
    for (int ci = 0; ci < 3; ++ci) for (int si_ = 0; si_ < 3; ++si_) for (double delta : {0.05, 0.3})
    {
        ob::ConstraintPtr con; int n = 3; if (ci == 0) con = std::make_shared<Sphere>(); else if (ci == 1) con = std::make_shared<Torus>(); else { con = std::make_shared<SphPlane>(); n = 4; }
        auto amb = std::make_shared<ob::RealVectorStateSpace>(n); amb->setBounds(-2, 2);
        ob::ConstrainedStateSpacePtr css; ob::ConstrainedSpaceInformationPtr csi;
        if (si_ == 0) { css = std::make_shared<ob::ProjectedStateSpace>(amb, con); csi = std::make_shared<ob::ConstrainedSpaceInformation>(css); }
        else if (si_ == 1) { css = std::make_shared<ob::AtlasStateSpace>(amb, con); csi = std::make_shared<ob::ConstrainedSpaceInformation>(css); }
        else { css = std::make_shared<ob::TangentBundleStateSpace>(amb, con); csi = std::make_shared<ob::TangentBundleSpaceInformation>(css); }
        css->setDelta(delta); css->setup();
        csi->setStateValidityChecker([](const ob::State *) { return true; }); csi->setup();
        // anchor point
        Eigen::VectorXd x0 = Eigen::VectorXd::Zero(n); if (ci == 0) x0[2] = -1; else if (ci == 1) { x0[0] = 1.4; } else { x0[1] = 1; }
        ob::ScopedState<> a(css), b(css), c(css); a->as<ob::ConstrainedStateSpace::StateType>()->copy(x0);
        con->project(a.get());
        if (si_ > 0) css->as<ob::AtlasStateSpace>()->anchorChart(a.get());
        auto smp = css->allocStateSampler();
        long nS = 0, badS = 0, nN = 0, badN = 0, nI = 0, badI = 0, nG = 0, okG = 0, badGsat = 0, badGstep = 0, badGend = 0, exc = 0; double worstF = 0, worstStep = 0, worstEnd = 0;
        auto F = [&](const ob::State *s) { Eigen::VectorXd out(con->getCoDimension()); con->function(*s->as<ob::ConstrainedStateSpace::StateType>(), out); return out.norm(); };
        double tolF = con->getTolerance() * (1 + 1e-9);
        for (int i = 0; i < 400; ++i)
        {
            try {
            smp->sampleUniform(b.get()); ++nS; if (F(b.get()) > tolF) { ++badS; worstF = std::max(worstF, F(b.get())); }
            smp->sampleUniformNear(c.get(), b.get(), 5 * delta); ++nN; if (F(c.get()) > tolF) { ++badN; worstF = std::max(worstF, F(c.get())); }
            smp->sampleGaussian(c.get(), b.get(), 2 * delta); ++nN; if (F(c.get()) > tolF) { ++badN; worstF = std::max(worstF, F(c.get())); }
            smp->sampleUniform(c.get());
            for (double t : {0.0, 0.3, 0.5, 0.9, 1.0}) { ob::ScopedState<> o(css); css->interpolate(b.get(), c.get(), t, o.get()); ++nI; if (F(o.get()) > tolF) { ++badI; worstF = std::max(worstF, F(o.get())); } }
            std::vector<ob::State *> geo; bool ok = css->discreteGeodesic(b.get(), c.get(), true, &geo); ++nG;
            if (ok && si_ != 2) { ++okG; for (size_t k = 0; k < geo.size(); ++k) { if (F(geo[k]) > tolF) ++badGsat; if (k) { double d = css->distance(geo[k - 1], geo[k]); worstStep = std::max(worstStep, d / (css->getLambda() * delta)); if (d > css->getLambda() * delta * (1 + 1e-9)) ++badGstep; } } double e = css->distance(geo.back(), c.get()); worstEnd = std::max(worstEnd, e / delta); if (e > delta * (1 + 1e-9)) ++badGend; }
            for (auto *s : geo) css->freeState(s);
            } catch (std::exception &ex) { ++exc; }
        }
        // plan
        auto pdef = std::make_shared<ob::ProblemDefinition>(csi); Eigen::VectorXd g0 = -x0; if (ci == 2) { g0 = x0; g0[1] = -1; } ob::ScopedState<> g(css); g->as<ob::ConstrainedStateSpace::StateType>()->copy(g0); con->project(g.get()); if (si_ > 0) css->as<ob::AtlasStateSpace>()->anchorChart(g.get());
        pdef->setStartAndGoalStates(a, g, 0.05);
        auto pl = std::make_shared<og::RRTConnect>(csi); pl->setProblemDefinition(pdef); pl->setup(); std::atomic<unsigned long> cnt{0};
        ob::PlannerStatus st; int badPath = 0, np = 0; try { st = pl->solve(ob::PlannerTerminationCondition([&] { return ++cnt > 5000; })); auto p = std::dynamic_pointer_cast<og::PathGeometric>(pdef->getSolutionPath()); if (p) { np = p->getStateCount(); for (size_t k = 0; k < p->getStateCount(); ++k) if (F(p->getState(k)) > tolF) ++badPath; } } catch (std::exception &ex) { ++exc; }
        printf("%-10s %s d=%.2f | sample bad %ld/%ld near %ld/%ld interp %ld/%ld | geodesic ok %ld/%ld unsat=%ld step>λδ=%ld(max %.2f) end>δ=%ld(max %.2f) | plan %s states=%d offManifold=%d | worstF=%.2g exc=%ld\n", cn[ci], sn[si_], delta, badS, nS, badN, nN, badI, nI, okG, nG, badGsat, badGstep, worstStep, badGend, worstEnd, st.asString().c_str(), np, badPath, worstF, exc);
        fflush(stdout);
    }
}
