// design-phase probe: C06/C07/C08 oracles over a space zoo (throw-away)
#include <ompl/base/spaces/RealVectorStateSpace.h>
#include <ompl/base/spaces/SO2StateSpace.h>
#include <ompl/base/spaces/SO3StateSpace.h>
#include <ompl/base/spaces/SE2StateSpace.h>
#include <ompl/base/spaces/SE3StateSpace.h>
#include <ompl/base/spaces/TimeStateSpace.h>
#include <ompl/base/spaces/DiscreteStateSpace.h>
#include <ompl/base/spaces/DubinsStateSpace.h>
#include <ompl/base/spaces/ReedsSheppStateSpace.h>
#include <ompl/base/spaces/special/TorusStateSpace.h>
#include <ompl/base/spaces/special/SphereStateSpace.h>
#include <ompl/base/spaces/special/MobiusStateSpace.h>
#include <ompl/base/spaces/special/KleinBottleStateSpace.h>
#include <ompl/util/Console.h>
#include <ompl/util/RandomNumbers.h>
#include <random>
#include <map>
#include <cstdio>
#include <cmath>
namespace ob = ompl::base;
static std::mt19937_64 G(12345);
static double U(double a, double b) { return std::uniform_real_distribution<double>(a, b)(G); }
struct Stat { long n = 0, bad = 0; double worst = 0; std::string ex; };
static std::map<std::string, Stat> stats;
static void rec(const std::string &space, const std::string &clause, bool ok, double mag, const std::string &ex = "")
{ auto &s = stats[space + " | " + clause]; ++s.n; if (!ok) { ++s.bad; if (mag >= s.worst) { s.worst = mag; if (!ex.empty()) s.ex = ex; } } }
static std::string str(const ob::StateSpace *sp, const ob::State *s) { std::vector<double> r; sp->copyToReals(r, s); std::string o = "("; for (double v : r) { char b[40]; snprintf(b, 40, "%.17g ", v); o += b; } return o + ")"; }
static void special(const ob::StateSpacePtr &sp, ob::State *s, ob::StateSampler &smp)
{
    smp.sampleUniform(s);
    std::vector<double> r; sp->copyToReals(r, s);
    const double pi = M_PI; static const double sv[] = {-pi, std::nextafter(pi, 0), pi - 1e-12, -pi + 1e-12, 3.0, -3.0, 0.0, 1.0, -1.0, 0.5 * pi, -0.5 * pi, 1e-9, -1e-9};
    int mode = G() % 4;
    if (mode == 0) return;
    for (auto &v : r) if (G() % 2) v = sv[G() % (sizeof(sv) / sizeof(double))];
    sp->copyFromReals(s, r); sp->enforceBounds(s);
}
int main()
{
    ompl::msg::setLogLevel(ompl::msg::LOG_NONE);
    std::vector<std::pair<std::string, ob::StateSpacePtr>> zoo;
    auto rv = [](int n, double lo, double hi) { auto s = std::make_shared<ob::RealVectorStateSpace>(n); s->setBounds(lo, hi); return s; };
    zoo.push_back({"R1", rv(1, -1, 1)}); zoo.push_back({"R3", rv(3, -2, 5)}); zoo.push_back({"R6big", rv(6, -1e6, 1e6)});
    zoo.push_back({"SO2", std::make_shared<ob::SO2StateSpace>()}); zoo.push_back({"SO3", std::make_shared<ob::SO3StateSpace>()});
    { auto s = std::make_shared<ob::SE2StateSpace>(); ob::RealVectorBounds b(2); b.setLow(-3); b.setHigh(3); s->setBounds(b); zoo.push_back({"SE2", s}); }
    { auto s = std::make_shared<ob::SE3StateSpace>(); ob::RealVectorBounds b(3); b.setLow(-3); b.setHigh(3); s->setBounds(b); zoo.push_back({"SE3", s}); }
    { auto s = std::make_shared<ob::TimeStateSpace>(); s->setBounds(0, 10); zoo.push_back({"Time", s}); }
    zoo.push_back({"Discrete", std::make_shared<ob::DiscreteStateSpace>(-3, 7)});
    zoo.push_back({"Torus", std::make_shared<ob::TorusStateSpace>()}); zoo.push_back({"Sphere1", std::make_shared<ob::SphereStateSpace>()}); zoo.push_back({"Sphere3", std::make_shared<ob::SphereStateSpace>(3.0)});
    zoo.push_back({"Mobius", std::make_shared<ob::MobiusStateSpace>()}); zoo.push_back({"Klein", std::make_shared<ob::KleinBottleStateSpace>()});
    { auto s = std::make_shared<ob::DubinsStateSpace>(1.0); ob::RealVectorBounds b(2); b.setLow(-3); b.setHigh(3); s->setBounds(b); zoo.push_back({"Dubins", s}); }
    { auto s = std::make_shared<ob::DubinsStateSpace>(1.0, true); ob::RealVectorBounds b(2); b.setLow(-3); b.setHigh(3); s->setBounds(b); zoo.push_back({"DubinsSym", s}); }
    { auto s = std::make_shared<ob::ReedsSheppStateSpace>(1.0); ob::RealVectorBounds b(2); b.setLow(-3); b.setHigh(3); s->setBounds(b); zoo.push_back({"ReedsShepp", s}); }
    { auto c = std::make_shared<ob::CompoundStateSpace>(); c->addSubspace(rv(2, -1, 1), 0.7); c->addSubspace(std::make_shared<ob::SO2StateSpace>(), 2.5); c->addSubspace(std::make_shared<ob::SO3StateSpace>(), 0.0); auto in = std::make_shared<ob::CompoundStateSpace>(); in->addSubspace(rv(1, 0, 4), 1e-3); in->addSubspace(std::make_shared<ob::SO2StateSpace>(), 1e3); c->addSubspace(in, 1.3); zoo.push_back({"NestedCompound", c}); }
    for (auto &z : zoo)
    {
        auto sp = z.second; sp->setup(); const std::string &nm = z.first;
        auto smp = sp->allocStateSampler();
        ob::State *a = sp->allocState(), *b = sp->allocState(), *c = sp->allocState(), *o = sp->allocState(), *o2 = sp->allocState(), *m = sp->allocState();
        double ext = sp->getMaximumExtent(); bool hasSO3 = nm.find("SO3") != std::string::npos || nm == "SE3" || nm == "NestedCompound"; bool sphere = nm.find("Sphere") == 0; bool dub = nm.find("Dubins") == 0 || nm == "ReedsShepp";
        double tol = 1e-9 * (1 + (std::isfinite(ext) ? ext : 1)) + (hasSO3 ? 1e-4 * 3 : 0) + (sphere ? 3e-3 : 0) + (dub ? 1e-4 : 0);
        bool geodesic = !(sphere || nm == "Mobius" || nm == "Klein" || dub || nm == "Discrete");
        const int N = dub ? 20000 : 100000;
        for (int i = 0; i < N; ++i)
        {
            special(sp, a, *smp); special(sp, b, *smp); special(sp, c, *smp);
            if (i % 5 == 0) { sp->copyState(b, a); if (i % 10 == 0) { std::vector<double> r; sp->copyToReals(r, b); if (!r.empty()) { r[G() % r.size()] += 1e-7; sp->copyFromReals(b, r); sp->enforceBounds(b); } } }
            if (!sp->satisfiesBounds(a) || !sp->satisfiesBounds(b) || !sp->satisfiesBounds(c)) { rec(nm, "C08 enforceBounds result in bounds", false, 1, str(sp.get(), a) + str(sp.get(), b)); continue; }
            rec(nm, "C08 enforceBounds result in bounds", true, 0);
            double dab = sp->distance(a, b), dba = sp->distance(b, a), dbc = sp->distance(b, c), dac = sp->distance(a, c);
            rec(nm, "C06 d>=0", dab >= 0, -dab); rec(nm, "C06 d(x,x)=0", sp->distance(a, a) <= tol, sp->distance(a, a));
            if (!sp->equalStates(a, b)) rec(nm, "C06 d>0 for unequal", dab > 0, 1, str(sp.get(), a) + str(sp.get(), b));
            rec(nm, "C06 d<=extent", dab <= ext + tol, dab - ext, str(sp.get(), a) + str(sp.get(), b));
            if (sp->hasSymmetricDistance()) rec(nm, "C06 symmetric", std::fabs(dab - dba) <= tol, std::fabs(dab - dba), str(sp.get(), a) + str(sp.get(), b));
            if (sp->isMetricSpace()) rec(nm, "C06 triangle", dac <= dab + dbc + tol, dac - dab - dbc, str(sp.get(), a) + str(sp.get(), b) + str(sp.get(), c));
            // C07
            double t = (i % 7 == 0) ? 0.5 : U(0, 1), s = U(0, 1), u = U(0, 1);
            sp->interpolate(a, b, 0.0, o); rec(nm, "C07 t=0 gives from", sp->distance(a, o) <= tol || sp->equalStates(a, o), sp->distance(a, o));
            sp->interpolate(a, b, 1.0, o); rec(nm, "C07 t=1 gives to", sp->distance(b, o) <= tol || sp->equalStates(b, o), sp->distance(b, o), str(sp.get(), a) + str(sp.get(), b));
            sp->interpolate(a, b, t, o);
            { bool inb = dub ? true : sp->satisfiesBounds(o); rec(nm, "C07 interpolant in bounds", inb, 1, str(sp.get(), a) + str(sp.get(), b) + " t=" + std::to_string(t) + " -> " + str(sp.get(), o)); if (!inb) continue; }
            if (dub) { sp->enforceBounds(o); }
            sp->copyState(o2, a); sp->interpolate(o2, b, t, o2); rec(nm, "C07 alias from", sp->equalStates(o, o2) || sp->distance(o, o2) <= tol, sp->distance(o, o2));
            sp->copyState(o2, b); sp->interpolate(a, o2, t, o2); rec(nm, "C07 alias to", sp->equalStates(o, o2) || sp->distance(o, o2) <= tol, sp->distance(o, o2));
            if (geodesic) rec(nm, "C07 d(a,p_t)=t*d", std::fabs(sp->distance(a, o) - t * dab) <= tol * 10, std::fabs(sp->distance(a, o) - t * dab), str(sp.get(), a) + str(sp.get(), b) + " t=" + std::to_string(t));
            // reparam (skip near cut locus: d close to extent for rotation parts)
            sp->interpolate(a, b, s, m); if (!dub && !sp->satisfiesBounds(m)) continue; if (dub) sp->enforceBounds(m);
            sp->interpolate(m, b, u, o); sp->interpolate(a, b, s + (1 - s) * u, o2);
            if (dub) { sp->enforceBounds(o); sp->enforceBounds(o2); }
            if (sp->satisfiesBounds(o) && sp->satisfiesBounds(o2)) { double e = sp->distance(o, o2); rec(nm, "C07 reparam", e <= tol * 100 || dab > 0.98 * ext, e, str(sp.get(), a) + str(sp.get(), b) + " s=" + std::to_string(s) + " u=" + std::to_string(u)); }
            // C08 samplers
            double dist = std::pow(10.0, U(-6, 2)) * (std::isfinite(ext) ? ext : 1);
            smp->sampleUniformNear(o, a, dist); rec(nm, "C08 sampleUniformNear in bounds", sp->satisfiesBounds(o), 1, str(sp.get(), a) + " d=" + std::to_string(dist) + " -> " + str(sp.get(), o));
            smp->sampleGaussian(o, a, dist); rec(nm, "C08 sampleGaussian in bounds", sp->satisfiesBounds(o), 1, str(sp.get(), a) + " sd=" + std::to_string(dist) + " -> " + str(sp.get(), o));
            smp->sampleUniform(o); rec(nm, "C08 sampleUniform in bounds", sp->satisfiesBounds(o), 1);
            sp->copyState(o2, o); sp->enforceBounds(o2); rec(nm, "C08 enforceBounds no-op", sp->equalStates(o, o2), 1);
        }
        for (auto *s : {a, b, c, o, o2, m}) sp->freeState(s);
    }
    for (auto &kv : stats) if (kv.second.bad) printf("%-55s bad=%ld/%ld worst=%.3g ex=%s\n", kv.first.c_str(), kv.second.bad, kv.second.n, kv.second.worst, kv.second.ex.substr(0, 200).c_str());
    printf("clauses evaluated: %zu\n", stats.size());
}
