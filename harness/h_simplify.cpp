// h_simplify — C17: path post-processing preserves endpoints, validity and never worsens cost.
//
// One case = one fat-obstacle world (R^2, R^3, SE(2), weighted compound R^2 x SO(2) x R^1, Dubins as the non-metric
// space) + one valid input path (planner output / hand-made zig-zag / degenerate) + every applicable routine of
// PathSimplifier / PathGeometric / PathHybridization applied to a fresh copy with parameters drawn per case.
// The before/after oracle is the one of DESIGN.md §4/C17 (dense re-validation of §4/C01).
//
// Debugging aids (never used by the registered commands): --kind k (space kind 0..4), --input i (input class), --routine r
// (apply only routine r; 12 = hybridization; every application has its own random streams, so together with --only-case it
// replays exactly), --trace 1 (print the parameters before every library call), --open-worlds 1 (states outside the bounds
// count as valid; perturbPath then extrapolates into malformed SO(2) values, see the final report of this engine).
#include "common.h"
#include <ompl/base/spaces/RealVectorStateSpace.h>
#include <ompl/base/spaces/SE2StateSpace.h>
#include <ompl/base/spaces/SO2StateSpace.h>
#include <ompl/base/spaces/DubinsStateSpace.h>
#include <ompl/base/SpaceInformation.h>
#include <ompl/base/ProblemDefinition.h>
#include <ompl/base/DiscreteMotionValidator.h>
#include <ompl/base/ProjectionEvaluator.h>
#include <ompl/base/PlannerTerminationCondition.h>
#include <ompl/base/goals/GoalState.h>
#include <ompl/base/goals/GoalStates.h>
#include <ompl/base/goals/GoalSampleableRegion.h>
#include <ompl/base/objectives/PathLengthOptimizationObjective.h>
#include <ompl/base/objectives/MaximizeMinClearanceObjective.h>
#include <ompl/base/objectives/StateCostIntegralObjective.h>
#include <ompl/geometric/PathGeometric.h>
#include <ompl/geometric/PathSimplifier.h>
#include <ompl/geometric/PathHybridization.h>
#include <ompl/geometric/planners/rrt/RRT.h>
#include <ompl/geometric/planners/rrt/RRTConnect.h>
#include <ompl/geometric/planners/kpiece/KPIECE1.h>
#include <ompl/util/Console.h>
#include <ompl/util/RandomNumbers.h>
#include <algorithm>
#include <chrono>
#include <memory>

namespace ob = ompl::base;
namespace og = ompl::geometric;
using namespace vf;

namespace
{
    enum Kind
    {
        K_R2,
        K_R3,
        K_SE2,
        K_CMP,
        K_DUB,
        K_COUNT
    };
    const char *kindName[] = {"R2", "R3", "SE2", "Compound", "Dubins"};
    const double HI = 10.0;  // position bounds [0,HI]^pd

    struct Obst
    {
        bool ball;
        double c[3], r;   // ball
        double h[3];      // box half widths (centre c)
    };

    // ---------------------------------------------------------------------------------------------------------
    struct World
    {
        Kind kind = K_R2;
        int pd = 2;
        bool metric = true;
        ob::StateSpacePtr space;
        ob::SpaceInformationPtr si;
        std::vector<Obst> obs;
        bool open = false;  // --open-worlds 1: states outside the bounds count as valid (exploration only)
        bool slab = false;  // heading-dependent obstacle: x in [sx0,sx1] and yaw within sw/2 of st
        double sx0 = 0, sx1 = 0, st = 0, sw = 0;
        double res = 0.01, rho = 1.0;
        double rlp = 0.1;   // resolution length of the position part (position units)
        double lth = 0.03;  // resolution length of the SO(2) part
        mutable long validCalls = 0;

        void pos(const ob::State *s, double *p) const
        {
            p[2] = 0;
            switch (kind)
            {
                case K_R2:
                case K_R3:
                {
                    const double *v = s->as<ob::RealVectorStateSpace::StateType>()->values;
                    for (int i = 0; i < pd; ++i) p[i] = v[i];
                    break;
                }
                case K_SE2:
                case K_DUB:
                    p[0] = s->as<ob::SE2StateSpace::StateType>()->getX();
                    p[1] = s->as<ob::SE2StateSpace::StateType>()->getY();
                    break;
                case K_CMP:
                {
                    const double *v = s->as<ob::CompoundState>()->as<ob::RealVectorStateSpace::StateType>(0)->values;
                    p[0] = v[0];
                    p[1] = v[1];
                    break;
                }
                default:
                    break;
            }
        }
        bool hasYaw() const { return kind == K_SE2 || kind == K_DUB || kind == K_CMP; }
        double yaw(const ob::State *s) const
        {
            if (kind == K_SE2 || kind == K_DUB) return s->as<ob::SE2StateSpace::StateType>()->getYaw();
            if (kind == K_CMP) return s->as<ob::CompoundState>()->as<ob::SO2StateSpace::StateType>(1)->value;
            return 0;
        }
        void set(ob::State *s, const double *p, double th, double z) const
        {
            switch (kind)
            {
                case K_R2:
                case K_R3:
                {
                    double *v = s->as<ob::RealVectorStateSpace::StateType>()->values;
                    for (int i = 0; i < pd; ++i) v[i] = p[i];
                    break;
                }
                case K_SE2:
                case K_DUB:
                    s->as<ob::SE2StateSpace::StateType>()->setXY(p[0], p[1]);
                    s->as<ob::SE2StateSpace::StateType>()->setYaw(th);
                    break;
                case K_CMP:
                {
                    auto *cs = s->as<ob::CompoundState>();
                    cs->as<ob::RealVectorStateSpace::StateType>(0)->values[0] = p[0];
                    cs->as<ob::RealVectorStateSpace::StateType>(0)->values[1] = p[1];
                    cs->as<ob::SO2StateSpace::StateType>(1)->value = th;
                    cs->as<ob::RealVectorStateSpace::StateType>(2)->values[0] = z;
                    break;
                }
                default:
                    break;
            }
        }
        static double sdObst(const Obst &o, const double *p, int pd)
        {
            if (o.ball)
            {
                double d = 0;
                for (int i = 0; i < pd; ++i) d += (p[i] - o.c[i]) * (p[i] - o.c[i]);
                return std::sqrt(d) - o.r;
            }
            double out = 0, in = -1e300;
            for (int i = 0; i < pd; ++i)
            {
                double q = std::fabs(p[i] - o.c[i]) - o.h[i];
                if (q > 0) out += q * q;
                in = std::max(in, q);
            }
            return out > 0 ? std::sqrt(out) : in;
        }
        // signed distance to the nearest position obstacle or wall of the bounding box (1-Lipschitz in position)
        double clearance(const ob::State *s) const
        {
            double p[3];
            pos(s, p);
            double c = 1e300;
            for (int i = 0; i < pd; ++i) c = std::min(c, std::min(p[i] + 1.0, HI + 1.0 - p[i]));
            for (auto &o : obs) c = std::min(c, sdObst(o, p, pd));
            return c;
        }
        bool valid(const ob::State *s) const
        {
            ++validCalls;
            double p[3];
            pos(s, p);
            for (int i = 0; i < pd; ++i)
                if (!std::isfinite(p[i])) return false;
            if (!open && !space->satisfiesBounds(s)) return false;  // the walls of the bounding box are obstacles too
            for (auto &o : obs)
                if (sdObst(o, p, pd) <= 0) return false;
            if (slab && p[0] >= sx0 && p[0] <= sx1)
            {
                double d = std::fabs(std::remainder(yaw(s) - st, 2 * M_PI));
                if (d <= sw / 2) return false;
            }
            return true;
        }
        // distance between two states in units of the motion validator's step bound ("resolution lengths")
        double units(const ob::State *a, const ob::State *b) const
        {
            if (kind == K_SE2 || kind == K_CMP)
            {
                auto *cs = space->as<ob::CompoundStateSpace>();
                double u = 0;
                for (unsigned i = 0; i < cs->getSubspaceCount(); ++i)
                {
                    const auto &sub = cs->getSubspace(i);
                    u = std::max(u, sub->distance(a->as<ob::CompoundState>()->components[i],
                                                  b->as<ob::CompoundState>()->components[i]) /
                                        sub->getLongestValidSegmentLength());
                }
                return u;
            }
            return space->distance(a, b) / space->getLongestValidSegmentLength();
        }
    };

    class HSVC : public ob::StateValidityChecker
    {
    public:
        HSVC(const ob::SpaceInformationPtr &si, const World *w) : ob::StateValidityChecker(si), w_(w) {}
        bool isValid(const ob::State *s) const override { return w_->valid(s); }
        double clearance(const ob::State *s) const override { return w_->clearance(s); }

    private:
        const World *w_;
    };

    // records (by value, as a hash of the reals) every ordered pair a routine had validated successfully
    class RecMV : public ob::MotionValidator
    {
    public:
        RecMV(const ob::SpaceInformationPtr &si, ob::MotionValidatorPtr inner)
          : ob::MotionValidator(si), inner_(std::move(inner)), sp_(si->getStateSpace().get())
        {
        }
        uint64_t h(const ob::State *a, const ob::State *b) const
        {
            sp_->copyToReals(r1_, a);
            sp_->copyToReals(r2_, b);
            uint64_t x = hashBytes(r1_.data(), r1_.size() * sizeof(double));
            return hashBytes(r2_.data(), r2_.size() * sizeof(double), x * 31 + 7);
        }
        bool checkMotion(const ob::State *a, const ob::State *b) const override
        {
            bool r = inner_->checkMotion(a, b);
            ++calls;
            if (r && rec) ok.insert(h(a, b));
            return r;
        }
        bool checkMotion(const ob::State *a, const ob::State *b, std::pair<ob::State *, double> &lv) const override
        {
            bool r = inner_->checkMotion(a, b, lv);
            ++calls;
            if (r && rec) ok.insert(h(a, b));
            return r;
        }
        mutable std::unordered_set<uint64_t> ok;
        mutable long calls = 0;
        bool rec = false;

    private:
        ob::MotionValidatorPtr inner_;
        const ob::StateSpace *sp_;
        mutable std::vector<double> r1_, r2_;
    };

    class PosProj : public ob::ProjectionEvaluator
    {
    public:
        PosProj(const ob::StateSpacePtr &sp, const World *w) : ob::ProjectionEvaluator(sp), w_(w) {}
        unsigned int getDimension() const override { return 2; }
        void defaultCellSizes() override { cellSizes_ = {0.5, 0.5}; }
        void project(const ob::State *s, Eigen::Ref<Eigen::VectorXd> pr) const override
        {
            double p[3];
            w_->pos(s, p);
            pr(0) = p[0];
            pr(1) = p[1];
        }

    private:
        const World *w_;
    };

    // goal region: states within `threshold` (space distance, state -> centre) of a centre; samples by rejection
    class BallGoal : public ob::GoalSampleableRegion
    {
    public:
        BallGoal(const ob::SpaceInformationPtr &si, const ob::State *c, double thr)
          : ob::GoalSampleableRegion(si), c_(si->cloneState(c)), ss_(si->allocStateSampler())
        {
            setThreshold(thr);
        }
        ~BallGoal() override { si_->freeState(c_); }
        double distanceGoal(const ob::State *st) const override { return si_->distance(st, c_); }
        void sampleGoal(ob::State *st) const override
        {
            for (int i = 0; i < 50; ++i)
            {
                ss_->sampleUniformNear(st, c_, threshold_);
                if (si_->distance(st, c_) <= threshold_) return;
            }
            si_->copyState(st, c_);
        }
        unsigned int maxSampleCount() const override { return std::numeric_limits<unsigned int>::max(); }

    private:
        ob::State *c_;
        ob::StateSamplerPtr ss_;
    };

    // ---- objectives with a call budget (a routine that does not come back is cut off by an exception) ------------
    struct Budget
    {
        long calls = 0, limit = std::numeric_limits<long>::max();
        void arm(long n) { limit = calls + n; }
        void disarm() { limit = std::numeric_limits<long>::max(); }
    };
    struct BudgetExceeded
    {
    };
    enum ObjKind
    {
        O_DEFAULT,  // no objective passed: the routine's own PathLengthOptimizationObjective
        O_LENGTH,
        O_CLEAR,
        O_INTEGRAL,
        O_COUNT
    };
    const char *objName[] = {"length", "length", "clearance", "integral"};

    class LenObj : public ob::PathLengthOptimizationObjective
    {
    public:
        LenObj(const ob::SpaceInformationPtr &si, Budget *b) : ob::PathLengthOptimizationObjective(si), b_(b) {}
        ob::Cost motionCost(const ob::State *a, const ob::State *b) const override
        {
            if (++b_->calls > b_->limit) throw BudgetExceeded();
            return ob::PathLengthOptimizationObjective::motionCost(a, b);
        }

    private:
        Budget *b_;
    };
    class ClrObj : public ob::MaximizeMinClearanceObjective
    {
    public:
        ClrObj(const ob::SpaceInformationPtr &si, Budget *b) : ob::MaximizeMinClearanceObjective(si), b_(b) {}
        ob::Cost motionCost(const ob::State *a, const ob::State *b) const override
        {
            if (++b_->calls > b_->limit) throw BudgetExceeded();
            return ob::MaximizeMinClearanceObjective::motionCost(a, b);
        }

    private:
        Budget *b_;
    };
    // harness cost field: affine in the position, so that the trapezoid rule is exact along linearly interpolated
    // motions and the objective does not depend on how a curve is cut into segments
    class IntObj : public ob::StateCostIntegralObjective
    {
    public:
        IntObj(const ob::SpaceInformationPtr &si, Budget *b, const World *w, const double *g, double c0, bool interp)
          : ob::StateCostIntegralObjective(si, interp), b_(b), w_(w), c0_(c0)
        {
            for (int i = 0; i < 3; ++i) g_[i] = g[i];
        }
        ob::Cost stateCost(const ob::State *s) const override
        {
            double p[3];
            w_->pos(s, p);
            return ob::Cost(c0_ + g_[0] * p[0] + g_[1] * p[1] + g_[2] * p[2]);
        }
        ob::Cost motionCost(const ob::State *a, const ob::State *b) const override
        {
            if (++b_->calls > b_->limit) throw BudgetExceeded();
            return ob::StateCostIntegralObjective::motionCost(a, b);
        }

    private:
        Budget *b_;
        const World *w_;
        double g_[3], c0_;
    };

    // ---------------------------------------------------------------------------------------------------------
    double obstGap(const Obst &a, const Obst &b, int pd)
    {
        if (a.ball && b.ball)
        {
            double d = 0;
            for (int i = 0; i < pd; ++i) d += (a.c[i] - b.c[i]) * (a.c[i] - b.c[i]);
            return std::sqrt(d) - a.r - b.r;
        }
        if (a.ball != b.ball)
        {
            const Obst &ball = a.ball ? a : b, &box = a.ball ? b : a;
            return World::sdObst(box, ball.c, pd) - ball.r;
        }
        double out = 0, in = -1e300;
        for (int i = 0; i < pd; ++i)
        {
            double g = std::fabs(a.c[i] - b.c[i]) - a.h[i] - b.h[i];
            if (g > 0) out += g * g;
            in = std::max(in, g);
        }
        return out > 0 ? std::sqrt(out) : in;
    }

    void buildWorld(World &w, Rng &rng, const Args &a)
    {
        int forced = atoi(a.get("kind", "-1").c_str());
        double u = rng.u01();
        w.kind = forced >= 0 ? (Kind)forced : u < 0.28 ? K_R2 : u < 0.44 ? K_R3 : u < 0.64 ? K_SE2 : u < 0.82 ? K_CMP : K_DUB;
        w.pd = w.kind == K_R3 ? 3 : 2;
        w.open = a.get("open-worlds") == "1";
        w.res = rng.logUni(0.005, 0.02);
        switch (w.kind)
        {
            case K_R2:
            case K_R3:
            {
                auto sp = std::make_shared<ob::RealVectorStateSpace>(w.pd);
                sp->setBounds(0, HI);
                w.space = sp;
                break;
            }
            case K_SE2:
            {
                auto sp = std::make_shared<ob::SE2StateSpace>();
                ob::RealVectorBounds b(2);
                b.setLow(0);
                b.setHigh(HI);
                sp->setBounds(b);
                w.space = sp;
                break;
            }
            case K_DUB:
            {
                w.rho = rng.uni(0.3, 1.0);
                auto sp = std::make_shared<ob::DubinsStateSpace>(w.rho, false);
                ob::RealVectorBounds b(2);
                b.setLow(0);
                b.setHigh(HI);
                sp->setBounds(b);
                w.space = sp;
                break;
            }
            case K_CMP:
            {
                auto sp = std::make_shared<ob::CompoundStateSpace>();
                auto r2 = std::make_shared<ob::RealVectorStateSpace>(2);
                r2->setBounds(0, HI);
                auto r1 = std::make_shared<ob::RealVectorStateSpace>(1);
                r1->setBounds(0, 2);
                sp->addSubspace(r2, rng.logUni(0.3, 3.0));
                sp->addSubspace(std::make_shared<ob::SO2StateSpace>(), rng.logUni(0.1, 3.0));
                sp->addSubspace(r1, rng.logUni(0.1, 3.0));
                sp->lock();
                w.space = sp;
                break;
            }
            default:
                break;
        }
        w.metric = w.space->isMetricSpace();
        w.si = std::make_shared<ob::SpaceInformation>(w.space);
        w.si->setStateValidityChecker(std::make_shared<HSVC>(w.si, &w));
        w.si->setStateValidityCheckingResolution(w.res);
        ob::MotionValidatorPtr inner;
        if (w.kind == K_DUB)
            inner = std::make_shared<ob::DubinsMotionValidator>(w.si);
        else
            inner = std::make_shared<ob::DiscreteMotionValidator>(w.si);
        w.si->setMotionValidator(std::make_shared<RecMV>(w.si, inner));
        if (w.kind == K_CMP) w.space->registerDefaultProjection(std::make_shared<PosProj>(w.space, &w));
        w.si->setup();
        if (w.kind == K_SE2 || w.kind == K_CMP)
        {
            w.rlp = w.space->as<ob::CompoundStateSpace>()->getSubspace(0)->getLongestValidSegmentLength();
            w.lth = w.space->as<ob::CompoundStateSpace>()->getSubspace(1)->getLongestValidSegmentLength();
        }
        else
            w.rlp = w.space->getLongestValidSegmentLength();
        // obstacles: every feature >= 4 resolution lengths thick, gaps between obstacles 0 or >= 4 resolution lengths
        int nobs = rng.range(1, w.pd == 3 ? 9 : 7);
        if (rng.coin(0.04)) nobs = 0;
        const double fat = 2.0 * w.rlp * 1.05;
        for (int k = 0, tries = 0; k < nobs && tries < 200; ++tries)
        {
            Obst o{};
            o.ball = rng.coin(0.5);
            for (int i = 0; i < w.pd; ++i) o.c[i] = rng.uni(0.5, HI - 0.5);
            if (o.ball)
                o.r = fat + rng.uni(0, 1.2) * rng.u01();
            else
                for (int i = 0; i < w.pd; ++i) o.h[i] = fat + rng.uni(0, w.pd == 3 ? 2.5 : 1.5) * rng.u01();
            bool ok = true;
            for (auto &q : w.obs)
            {
                double g = obstGap(o, q, w.pd);
                if (g > 0 && g < 4.2 * w.rlp) ok = false;
            }
            if (!ok) continue;
            w.obs.push_back(o);
            ++k;
        }
        if ((w.kind == K_SE2 || w.kind == K_CMP) && rng.coin(0.5))
        {
            w.slab = true;
            double wx = std::max(4.2 * w.rlp, rng.uni(0.4, 1.5));
            w.sx0 = rng.uni(1.5, HI - 1.5 - wx);
            w.sx1 = w.sx0 + wx;
            w.st = rng.uni(-M_PI, M_PI);
            w.sw = std::max(4.2 * w.lth, rng.uni(0.4, 2.5));
        }
    }

    bool randomValid(const World &w, Rng &rng, ob::State *s, const double *near = nullptr, double rad = 0)
    {
        for (int t = 0; t < 300; ++t)
        {
            double p[3] = {0, 0, 0};
            for (int i = 0; i < w.pd; ++i)
                p[i] = near ? std::min(HI, std::max(0.0, near[i] + rng.uni(-rad, rad))) : rng.uni(0, HI);
            w.set(s, p, rng.uni(-M_PI, M_PI), rng.uni(0, 2));
            if (w.valid(s)) return true;
        }
        return false;
    }

    // dense re-validation (DESIGN §4/C01): worst span of consecutive invalid samples, in resolution lengths
    double denseWorst(const World &w, const og::PathGeometric &p, long &samples, long *worstSeg = nullptr)
    {
        double worst = 0, run = 0;
        bool in = false;
        long seg = 0;
        ob::State *tmp = w.si->allocState();
        auto visit = [&](const ob::State *s, double step) {
            ++samples;
            if (!w.valid(s))
            {
                run = in ? run + step : 0.0;
                in = true;
                if (run > worst && worstSeg) *worstSeg = seg;
                worst = std::max(worst, run);
            }
            else
                in = false;
        };
        if (p.getStateCount() > 0) visit(p.getState(0), 0);
        for (size_t i = 0; i + 1 < p.getStateCount(); ++i)
        {
            const ob::State *a = p.getState(i), *b = p.getState(i + 1);
            double u = w.units(a, b);
            seg = (long)i;
            if (!std::isfinite(u))
            {
                worst = std::numeric_limits<double>::infinity();
                break;
            }
            int m = std::max(1, (int)std::ceil(4.0 * u));
            if (m > 200000) m = 200000;
            for (int j = 1; j < m; ++j)
            {
                w.space->interpolate(a, b, (double)j / m, tmp);
                visit(tmp, u / m);
            }
            visit(b, u / m);
        }
        w.si->freeState(tmp);
        return worst;
    }

    uint64_t hashPath(const World &w, const og::PathGeometric &p)
    {
        std::vector<double> r;
        uint64_t h = 1469598103934665603ULL;
        for (size_t i = 0; i < p.getStateCount(); ++i)
        {
            w.space->copyToReals(r, p.getState(i));
            h = hashBytes(r.data(), r.size() * sizeof(double), h);
        }
        return h;
    }

    // crash-prone input classes (see runCase): 0 = path of a single state, 1 = perturbPath with snapToVertex == 0
    int riskyCase(long c) { return c < 32 && (c % 4) <= 1 ? (int)(c % 4) : -1; }

    // ---- input paths -----------------------------------------------------------------------------------------
    enum InKind
    {
        IN_RRT,
        IN_RRTC,
        IN_KPIECE,
        IN_ZIG,
        IN_LONG,
        IN_TWO,
        IN_THREE,
        IN_REPEAT,
        IN_ZERO,
        IN_ONE,
        IN_COUNT
    };
    const char *inName[] = {"RRT", "RRTConnect", "KPIECE1", "zigzag", "long", "two", "three", "repeated", "zerolen", "one"};

    // random walk of individually validated motions
    void walk(const World &w, Rng &rng, og::PathGeometric &p, int n, bool zig)
    {
        ob::State *s = w.si->allocState();
        if (p.getStateCount() == 0)
        {
            if (!randomValid(w, rng, s))
            {
                w.si->freeState(s);
                return;
            }
            p.append(s);
        }
        double stepLo = zig ? 0.3 : 0.05, stepHi = zig ? 3.0 : 6.0;
        int fails = 0;
        while ((int)p.getStateCount() < n && fails < 60)
        {
            double q[3];
            w.pos(p.getState(p.getStateCount() - 1), q);
            bool ok = rng.coin(0.15) ? randomValid(w, rng, s) : randomValid(w, rng, s, q, rng.uni(stepLo, stepHi));
            if (ok && w.si->checkMotion(p.getState(p.getStateCount() - 1), s))
                p.append(s);
            else
                ++fails;
        }
        w.si->freeState(s);
    }

    struct Input
    {
        std::shared_ptr<og::PathGeometric> path;
        ob::GoalPtr goal;  // may be null
        int kind = IN_ZIG;
        int goalKind = 0;
    };

    bool planInput(World &w, Rng &rng, Input &in, int which)
    {
        ob::State *s = w.si->allocState(), *g = w.si->allocState();
        bool ok = randomValid(w, rng, s) && randomValid(w, rng, g);
        if (!ok)
        {
            w.si->freeState(s);
            w.si->freeState(g);
            return false;
        }
        auto pdef = std::make_shared<ob::ProblemDefinition>(w.si);
        pdef->addStartState(s);
        auto gs = std::make_shared<ob::GoalState>(w.si);
        gs->setState(g);
        gs->setThreshold(rng.logUni(0.02, 0.6));
        pdef->setGoal(gs);
        w.si->freeState(s);
        w.si->freeState(g);
        ob::PlannerPtr pl;
        if (which == IN_RRT)
        {
            auto r = std::make_shared<og::RRT>(w.si);
            if (rng.coin(0.3)) r->setIntermediateStates(true);
            if (rng.coin(0.5)) r->setRange(rng.uni(0.3, 3.0));
            pl = r;
        }
        else if (which == IN_RRTC)
        {
            auto r = std::make_shared<og::RRTConnect>(w.si);
            if (rng.coin(0.5)) r->setRange(rng.uni(0.3, 3.0));
            pl = r;
        }
        else
        {
            auto r = std::make_shared<og::KPIECE1>(w.si);
            if (rng.coin(0.5)) r->setRange(rng.uni(0.3, 3.0));
            pl = r;
        }
        pl->setProblemDefinition(pdef);
        pl->setup();
        long evals = 0, budget = w.kind == K_DUB ? 2500 : 4000;
        ob::PlannerTerminationCondition ptc([&] { return ++evals > budget || pdef->hasExactSolution(); });
        pl->solve(ptc);
        if (!pdef->hasExactSolution()) return false;
        auto p = std::dynamic_pointer_cast<og::PathGeometric>(pdef->getSolutionPath());
        if (!p || p->getStateCount() < 2) return false;  // start inside the goal: a one-state path, see riskyCase()
        if (p->getStateCount() > 150) return false;  // collapseCloseVertices is cubic in the number of states: keep cases bounded
        in.path = std::make_shared<og::PathGeometric>(*p);
        in.goal = gs;
        in.goalKind = 1;
        in.kind = which;
        return true;
    }

    void makeGoal(World &w, Rng &rng, Input &in)
    {
        const ob::State *last = in.path->getState(in.path->getStateCount() - 1);
        double u = rng.u01();
        if (u < 0.2)
        {
            in.goal.reset();
            in.goalKind = 0;
        }
        else if (u < 0.45)
        {
            auto gs = std::make_shared<ob::GoalState>(w.si);
            gs->setState(last);
            gs->setThreshold(rng.coin() ? 1e-9 : rng.logUni(1e-3, 0.5));
            in.goal = gs;
            in.goalKind = 1;
        }
        else if (u < 0.7 || w.kind == K_DUB)
        {
            auto gs = std::make_shared<ob::GoalStates>(w.si);
            gs->addState(last);
            ob::State *s = w.si->allocState();
            double q[3];
            w.pos(last, q);
            int extra = rng.range(1, 4);
            for (int i = 0; i < extra; ++i)
                if (rng.coin(0.7) ? randomValid(w, rng, s, q, rng.uni(0.2, 3.0)) : randomValid(w, rng, s)) gs->addState(s);
            w.si->freeState(s);
            gs->setThreshold(rng.coin() ? 1e-9 : rng.logUni(1e-3, 0.3));
            in.goal = gs;
            in.goalKind = 2;
        }
        else
        {
            // a ball whose centre is displaced from the last state by less than the threshold
            double thr = rng.logUni(0.05, 1.5);
            ob::State *c = w.si->allocState();
            auto ss = w.si->allocStateSampler();
            bool ok = false;
            for (int i = 0; i < 30 && !ok; ++i)
            {
                ss->sampleUniformNear(c, last, thr * 0.5);
                ok = w.si->distance(last, c) <= thr * 0.95;
            }
            if (!ok) w.si->copyState(c, last);
            in.goal = std::make_shared<BallGoal>(w.si, c, thr);
            w.si->freeState(c);
            in.goalKind = 3;
        }
    }

    bool makeInput(World &w, Rng &rng, Input &in, const Args &a, long c)
    {
        int forced = atoi(a.get("input", "-1").c_str());
        double u = rng.u01();
        if (riskyCase(c) == 0) forced = IN_ONE;
        int k = forced >= 0 ? forced
                : u < 0.10 ? IN_RRT
                : u < 0.20 ? IN_RRTC
                : u < 0.28 ? IN_KPIECE
                : u < 0.50 ? IN_ZIG
                : u < 0.62 ? IN_LONG
                : u < 0.69 ? IN_TWO
                : u < 0.77 ? IN_THREE
                : u < 0.91 ? IN_REPEAT
                            : IN_ZERO;
        if (k <= IN_KPIECE)
        {
            if (planInput(w, rng, in, k)) return true;
            k = IN_ZIG;
        }
        in.kind = k;
        // a walk can get stuck at its first state (e.g. every Dubins curve from there leaves the box): try again elsewhere
        for (int attempt = 0; attempt < 10; ++attempt)
        {
        in.path = std::make_shared<og::PathGeometric>(w.si);
        og::PathGeometric &p = *in.path;
        switch (k)
        {
            case IN_ZIG:
                walk(w, rng, p, rng.range(4, 14), true);
                break;
            case IN_LONG:
                walk(w, rng, p, rng.range(25, 70), rng.coin());
                break;
            case IN_TWO:
                walk(w, rng, p, 2, false);
                break;
            case IN_THREE:
                walk(w, rng, p, 3, rng.coin());
                break;
            case IN_ONE:
                walk(w, rng, p, 1, false);
                break;
            case IN_ZERO:
            {
                walk(w, rng, p, 1, false);
                int n = rng.range(2, 6);
                while (p.getStateCount() > 0 && (int)p.getStateCount() < n) p.append(p.getState(0));
                break;
            }
            case IN_REPEAT:
            {
                // zero-length segments (a state repeated in place) and states revisited later on
                int n = rng.range(4, 16);
                walk(w, rng, p, 2, true);
                while (p.getStateCount() >= 2 && (int)p.getStateCount() < n)
                {
                    size_t m = p.getStateCount();
                    double v = rng.u01();
                    if (v < 0.3)
                        p.append(p.getState(m - 1));
                    else if (v < 0.55)
                    {
                        const ob::State *e = p.getState(rng.ui(m - 1));
                        if (w.si->checkMotion(p.getState(m - 1), e))
                            p.append(e);
                        else
                            walk(w, rng, p, (int)m + 1, true);
                    }
                    else
                        walk(w, rng, p, (int)m + 1, true);
                    if (p.getStateCount() == m) break;
                }
                if (rng.coin(0.3) && p.getStateCount() > 0) p.prepend(p.getState(0));
                break;
            }
            default:
                break;
        }
        if (k == IN_ONE || p.getStateCount() >= 2) break;
        }
        if (in.path->getStateCount() < (k == IN_ONE ? 1u : 2u)) return false;
        makeGoal(w, rng, in);
        return true;
    }

    // ---- routines ----------------------------------------------------------------------------------------------
    enum Routine
    {
        R_REDUCE,
        R_PARTIAL,
        R_ROPE,
        R_COLLAPSE,
        R_BSPLINE,
        R_PERTURB,
        R_BETTERGOAL,
        R_SIMPLIFY,
        R_SIMPLIFYMAX,
        R_SUBDIVIDE,
        R_INTERP,
        R_INTERPN,
        R_COUNT
    };
    const char *rName[] = {"reduceVertices", "partialShortcutPath", "ropeShortcutPath", "collapseCloseVertices",
                           "smoothBSpline",  "perturbPath",         "findBetterGoal",   "simplify",
                           "simplifyMax",    "subdivide",           "interpolate",      "interpolateCount"};

    struct ObjSel
    {
        ObjKind kind = O_DEFAULT;
        ob::OptimizationObjectivePtr forRoutine;  // what is handed to the library (null for O_DEFAULT)
        ob::OptimizationObjectivePtr forOracle;   // what the oracle evaluates with (never null)
        Budget budget;
    };

    void drawObjective(World &w, Rng &rng, ObjSel &o, bool costAware)
    {
        double u = rng.u01();
        if (!costAware)
            o.kind = O_DEFAULT;
        else if (u < 0.25)
            o.kind = O_DEFAULT;
        else if (u < 0.40)
            o.kind = O_LENGTH;
        else if (u < 0.68 || w.kind == K_DUB)
            o.kind = O_CLEAR;
        else
            o.kind = O_INTEGRAL;
        switch (o.kind)
        {
            case O_DEFAULT:
                o.forOracle = std::make_shared<LenObj>(w.si, &o.budget);
                break;
            case O_LENGTH:
                o.forOracle = o.forRoutine = std::make_shared<LenObj>(w.si, &o.budget);
                break;
            case O_CLEAR:
                o.forOracle = o.forRoutine = std::make_shared<ClrObj>(w.si, &o.budget);
                break;
            case O_INTEGRAL:
            {
                double g[3] = {0, 0, 0};
                for (int i = 0; i < w.pd; ++i) g[i] = rng.uni(-1, 1);
                // shifted so that the field is positive for every position within [-10, 20]^pd
                double c0 = 0.2;
                for (int i = 0; i < w.pd; ++i) c0 += std::max(g[i] * 10.0, -g[i] * 20.0);
                o.forOracle = o.forRoutine = std::make_shared<IntObj>(w.si, &o.budget, &w, g, c0, rng.coin());
                break;
            }
            default:
                break;
        }
    }

    struct Verdict
    {
        Sink &sink;
        const World &w;
        long c;
        bool fired = false;  // one routine application reports its first failing clause only (causes, not consequences)
        // directionBug: the witness shows that the routine validated the motion in the opposite direction only
        void viol(const std::string &clause, const std::string &routine, const std::string &detail, J j, bool directionBug = false)
        {
            if (fired) return;
            // Dubins distance and interpolation are discontinuous in their arguments: a 1-ulp perturbation of an interpolated
            // vertex can switch the optimal word and change the curve by about 2*pi*rho. "The same curve, re-segmented" is
            // therefore not numerically well defined there, and the clauses that compare lengths / costs / dense validity
            // of re-segmented curves are statistics in the asymmetric space -- except when the witness itself shows a
            // direction bug (motion validated only in the reverse direction) and for the hybridization graph
            if (!w.space->hasSymmetricInterpolate() && !directionBug &&
                (clause == "invalid-stretch" || clause == "length-changed" || clause == "cost-worse" || clause == "longer"))
            {
                sink.count("c17_asym_stat_" + clause + "_" + routine);
                return;
            }
            fired = true;
            std::string key = "C17:" + clause + ":" + routine;
            if (!detail.empty()) key += ":" + detail;
            if (!w.space->hasSymmetricInterpolate()) key += ":asymmetric";
            j.str("space", kindName[w.kind]).num("resolution", w.res).i("obstacles", (long long)w.obs.size()).num("rho", w.rho);
            sink.viol(key, j);
        }
    };

    std::vector<double> flat(const World &w, const og::PathGeometric &p, size_t cap = 40)
    {
        std::vector<double> out, r;
        for (size_t i = 0; i < p.getStateCount() && i < cap; ++i)
        {
            w.space->copyToReals(r, p.getState(i));
            out.insert(out.end(), r.begin(), r.end());
        }
        return out;
    }

    // The value of the clearance objective (minimum clearance along the curve) evaluated at a quarter of the resolution,
    // independently of how the curve is cut into segments. MaximizeMinClearanceObjective itself samples one resolution
    // length apart (and skips the first state of every motion), so its value moves by up to a resolution length when a
    // segment is merely split; every modification a routine accepts on its samples (one resolution length
    // apart, 1-Lipschitz field) can lose up to half a resolution length of true clearance, so the routines are granted 3
    // resolution lengths (six such steps) before a deterioration is a verdict; smaller ones are counted (worseThan).
    double denseMinClearance(const World &w, const og::PathGeometric &p)
    {
        double c = std::numeric_limits<double>::infinity();
        ob::State *tmp = w.si->allocState();
        for (size_t i = 0; i < p.getStateCount(); ++i)
        {
            // like the objective itself (initialCost is the identity, a motion's cost skips its first state) the very
            // first state does not count: a path of one state has the identity cost +inf
            if (i > 0) c = std::min(c, w.clearance(p.getState(i)));
            if (i + 1 == p.getStateCount()) break;
            const ob::State *a = p.getState(i), *b = p.getState(i + 1);
            double u = w.units(a, b);
            if (!std::isfinite(u)) continue;
            int m = std::min(200000, std::max(1, (int)std::ceil(4.0 * u)));
            for (int j = 1; j < m; ++j)
            {
                w.space->interpolate(a, b, (double)j / m, tmp);
                c = std::min(c, w.clearance(tmp));
            }
        }
        w.si->freeState(tmp);
        return c;
    }
    double oracleCost(const World &w, ObjKind ok, const ob::OptimizationObjectivePtr &obj, const og::PathGeometric &p)
    {
        return ok == O_CLEAR ? denseMinClearance(w, p) : p.cost(obj).value();
    }

    // is `worse` strictly worse than `ref` under the objective, beyond the tolerance the objective's evaluation has?
    // returns 0 = not worse, 1 = within the declared discretisation band (statistic), 2 = worse
    int worseThan(const World &w, ObjKind ok, double out, double in, size_t nseg, double len)
    {
        if (std::isnan(out) || std::isnan(in)) return std::isnan(out) && !std::isnan(in) ? 2 : 0;
        if (ok == O_CLEAR)
        {
            // larger is better; the routine decides on samples one resolution length apart of a 1-Lipschitz field
            if (out >= in - 1e-9 * (1 + std::fabs(in))) return 0;
            return out < in - 3.0 * w.rlp ? 2 : 1;
        }
        double tol = 1e-9 * (1 + std::fabs(in));
        if (w.kind == K_DUB) tol = 1e-5 * w.rho * (1.0 + len + (double)nseg);  // DUBINS_EPS policy of §2.4
        return out <= in + tol ? 0 : 2;
    }

    void runCase(Sink &sink, const Args &a, long c)
    {
        Rng rng(caseSeed(a, c));
        ompl::RNG::setSeed(caseSeed(a, c, 1) % 1000000000 + 1);
        World w;
        buildWorld(w, rng, a);
        auto *mv = static_cast<RecMV *>(w.si->getMotionValidator().get());
        Input in;
        if (!makeInput(w, rng, in, a, c))
        {
            sink.inconclusive("no-input-path");
            sink.noteCase(0, false);
            return;
        }
        const og::PathGeometric &P = *in.path;
        long ds = 0;
        double d0 = denseWorst(w, P, ds);
        if (!P.check() || d0 > 2.0)
        {
            // not an input the statement quantifies over (planner output is C01's business)
            sink.count("c17_inputs_rejected");
            sink.inconclusive("input-not-valid");
            sink.noteCase(0, false);
            return;
        }
        const size_t n0 = P.getStateCount();
        const double L0 = P.length();
        sink.count(std::string("c17_in_") + inName[in.kind]);
        sink.count(std::string("c17_space_") + kindName[w.kind]);
        sink.count("c17_inputs");
        if (L0 == 0 && n0 >= 2) sink.count("c17_in_total_length_zero");
        {
            bool zl = false;
            for (size_t i = 0; i + 1 < n0; ++i)
                if (w.space->equalStates(P.getState(i), P.getState(i + 1))) zl = true;
            if (zl) sink.count("c17_in_with_zero_length_segment");
        }
        std::unordered_set<uint64_t> inputPairs;
        for (size_t i = 0; i + 1 < n0; ++i) inputPairs.insert(mv->h(P.getState(i), P.getState(i + 1)));
        Verdict V{sink, w, c};
        const ob::State *first = P.getState(0), *last = P.getState(n0 - 1);
        int only = atoi(a.get("routine", "-1").c_str());
        int changed = 0;
        std::string sampleTxt;

        auto apply = [&](int r) {
            if (only >= 0 && r != only) return;
            if (r == R_BSPLINE && !w.metric) return;  // documented: not to be run on non-metric spaces
            const std::string rn = rName[r];
            V.fired = false;
            // every routine application has its own random streams, so that `--routine r --only-case c` replays it
            Rng rng(caseSeed(a, c, 100 + r));
            ompl::RNG::setSeed(caseSeed(a, c, 200 + r) % 1000000000 + 1);
            bool costAware = r == R_PARTIAL || r == R_ROPE || r == R_PERTURB || r == R_BETTERGOAL;
            bool usesObj = costAware || r == R_SIMPLIFY || r == R_SIMPLIFYMAX;
            ObjSel o;
            drawObjective(w, rng, o, usesObj);
            bool withGoal = r == R_BETTERGOAL || r == R_SIMPLIFY || r == R_SIMPLIFYMAX;
            og::PathSimplifier ps(w.si, withGoal ? in.goal : ob::GoalPtr(), o.forRoutine);
            og::PathGeometric q(P);
            double costIn = costAware ? oracleCost(w, o.kind, o.forOracle, q) : 0;
            bool ret = false, returned = true;
            unsigned req = 0;
            long ptcEvals = 0, ptcBudget = 0;
            mv->ok.clear();
            mv->rec = true;
            J par;
            // legitimate runs need a few thousand motion-cost evaluations at most; a clearance evaluation interpolates the motion
            {
                long nodes = (long)n0 + 45;
                long lim = o.kind == O_CLEAR ? 40000 : 400000;
                if (r == R_ROPE && o.kind == O_CLEAR) lim = 2000 + 2 * nodes * nodes;
                if (r == R_SIMPLIFY || r == R_SIMPLIFYMAX) lim = std::numeric_limits<long>::max() / 4;  // bounded by construction
                o.budget.arm(lim);
            }
            try
            {
                auto steps = [&](int hi) { return rng.coin(0.3) ? 0u : (unsigned)rng.range(1, hi); };
                auto trace = [&] {
                    if (a.get("trace") == "1")
                        fprintf(stderr, "case %ld %s obj=%s n0=%zu L0=%.17g %s\n", c, rn.c_str(), objName[o.kind], n0, L0, par.done().c_str());
                };
                auto snap = [&] { return r != R_PERTURB && rng.coin(0.03) ? 0.0 : rng.logUni(1e-4, 0.1); };
                switch (r)
                {
                    case R_REDUCE:
                    {
                        unsigned ms = steps(200), me = steps(60);
                        double rr = rng.coin(0.2) ? 0.33 : (rng.coin(0.15) ? 1.0 : rng.uni(0.0, 1.0));  // documented range: between 0 and 1 (1.0 = any vertex)
                        par.i("maxSteps", ms).i("maxEmptySteps", me).num("rangeRatio", rr);
                        trace();
                        ret = ps.reduceVertices(q, ms, me, rr);
                        break;
                    }
                    case R_PARTIAL:
                    {
                        unsigned ms = steps(200), me = steps(60);
                        double rr = rng.coin(0.2) ? 0.33 : (rng.coin(0.15) ? 1.0 : rng.uni(0.01, 1.0)), sn = snap();  // 1.0: the documented upper end
                        par.i("maxSteps", ms).i("maxEmptySteps", me).num("rangeRatio", rr).num("snapToVertex", sn);
                        trace();
                        ret = ps.partialShortcutPath(q, ms, me, rr, sn);
                        break;
                    }
                    case R_ROPE:
                    {
                        double delta = L0 > 0 ? L0 * rng.logUni(1.0 / 40, 1.0) : 1.0, eq = rng.coin(0.2) ? 0.1 : rng.uni(0, 0.5);
                        par.num("delta", delta).num("equivalenceTolerance", eq);
                        trace();
                        ret = ps.ropeShortcutPath(q, delta, eq);
                        break;
                    }
                    case R_COLLAPSE:
                    {
                        unsigned ms = steps(100), me = steps(40);
                        par.i("maxSteps", ms).i("maxEmptySteps", me);
                        trace();
                        ret = ps.collapseCloseVertices(q, ms, me);
                        break;
                    }
                    case R_BSPLINE:
                    {
                        unsigned ms = (unsigned)rng.range(0, n0 > 40 ? 4 : 6);
                        double mc = rng.coin(0.4) ? std::numeric_limits<double>::epsilon() : L0 * rng.logUni(1e-4, 0.05);
                        par.i("maxSteps", ms).num("minChange", mc);
                        trace();
                        ps.smoothBSpline(q, ms, mc);
                        break;
                    }
                    case R_PERTURB:
                    {
                        double st = L0 > 0 && rng.coin(0.7) ? L0 * rng.logUni(0.01, 0.6) : rng.logUni(0.02, 3.0);
                        unsigned ms = steps(120), me = steps(60);
                        double sn = riskyCase(c) == 1 ? 0.0 : snap();
                        par.num("stepSize", st).i("maxSteps", ms).i("maxEmptySteps", me).num("snapToVertex", sn);
                        trace();
                        ret = ps.perturbPath(q, st, ms, me, sn);
                        break;
                    }
                    case R_BETTERGOAL:
                    {
                        ptcBudget = rng.range(0, 300);
                        ob::PlannerTerminationCondition ptc([&] { return ++ptcEvals > ptcBudget; });
                        unsigned sa = (unsigned)rng.range(1, 20);
                        double rr = rng.coin(0.2) ? 0.33 : (rng.coin(0.15) ? 1.0 : rng.uni(0.01, 1.0)), sn = snap();  // 1.0: the documented upper end
                        par.i("ptcBudget", ptcBudget).i("samplingAttempts", sa).num("rangeRatio", rr).num("snapToVertex", sn);
                        trace();
                        ret = ps.findBetterGoal(q, ptc, sa, rr, sn);
                        break;
                    }
                    case R_SIMPLIFY:
                    {
                        ptcBudget = rng.coin(0.15) ? 0 : (long)rng.logUni(1, 400);
                        bool once = rng.coin(0.6);
                        ob::PlannerTerminationCondition ptc([&] { return ++ptcEvals > ptcBudget; });
                        par.i("ptcBudget", ptcBudget).b("atLeastOnce", once);
                        trace();
                        ret = ps.simplify(q, ptc, once);
                        break;
                    }
                    case R_SIMPLIFYMAX:
                        trace();
                        ret = ps.simplifyMax(q);
                        break;
                    case R_SUBDIVIDE:
                        trace();
                        q.subdivide();
                        break;
                    case R_INTERP:
                        trace();
                        q.interpolate();
                        break;
                    case R_INTERPN:
                    {
                        double v = rng.u01();
                        req = v < 0.12   ? (unsigned)rng.ui(n0 + 1)
                              : v < 0.3  ? (unsigned)n0
                              : v < 0.5  ? (unsigned)(n0 + rng.range(1, 3))
                              : v < 0.85 ? (unsigned)(n0 + rng.range(1, 5 * (int)n0 + 10))
                                         : (unsigned)(n0 + rng.range(100, 1500));
                        par.i("count", req);
                        trace();
                        q.interpolate(req);
                        break;
                    }
                }
            }
            catch (BudgetExceeded &)
            {
                returned = false;
            }
            o.budget.disarm();
            mv->rec = false;
            sink.count("c17_run_" + rn);
            sink.count("c17_routine_runs");
            if (ret && r != R_SIMPLIFY && r != R_SIMPLIFYMAX) sink.count("c17_changed_" + rn);
            par.str("objective", objName[o.kind]).str("input", inName[in.kind]).i("goalKind", in.goalKind).b("ret", ret);

            const size_t n1 = q.getStateCount();
            if (n1 == 0)
            {
                V.viol("first-state", rn, "", J().str("what", "output path is empty").obj("params", par).arr("input", flat(w, P)));
                return;
            }
            // --- clauses for every routine
            bool bad = false;
            if (!w.space->equalStates(q.getState(0), first))
            {
                V.viol("first-state", rn, "", J().obj("params", par).arr("input", flat(w, P)).arr("output", flat(w, q)));
                bad = true;
            }
            const ob::State *l1 = q.getState(n1 - 1);
            bool lastSame = w.space->equalStates(l1, last);
            if (!lastSame)
            {
                bool allowed = withGoal && in.goal && in.goal->isSatisfied(l1);
                if (allowed)
                    sink.count("c17_last_replaced_by_goal_state");
                else
                {
                    V.viol("last-state", rn, "", J().obj("params", par).arr("input", flat(w, P)).arr("output", flat(w, q)));
                    bad = true;
                }
            }
            long wseg = -1;
            double d1 = denseWorst(w, q, ds, &wseg);
            sink.maxstat("c17_worst_invalid_stretch_out", d1);
            const bool declaredInvalid = (r == R_SIMPLIFY || r == R_SIMPLIFYMAX) && !ret;
            if (d1 > 2.0 && declaredInvalid)
                sink.count("c17_stat_simplify_false_with_invalid_stretch");  // the routine itself said: not valid
            else if (d1 > 2.0)
            {
                const bool onlyReversed = wseg >= 0 && (size_t)wseg + 1 < n1 && !mv->ok.count(mv->h(q.getState(wseg), q.getState(wseg + 1))) &&
                                          mv->ok.count(mv->h(q.getState(wseg + 1), q.getState(wseg))) > 0;
                V.viol("invalid-stretch", rn, "",
                       J().num("stretch_in_resolution_lengths", d1).num("input_stretch", d0).i("worst_segment", wseg)
                           .b("segment_validated_as_given",
                              wseg >= 0 && (size_t)wseg + 1 < n1 && mv->ok.count(mv->h(q.getState(wseg), q.getState(wseg + 1))) > 0)
                           .b("segment_validated_only_reversed",
                              wseg >= 0 && (size_t)wseg + 1 < n1 && !mv->ok.count(mv->h(q.getState(wseg), q.getState(wseg + 1))) &&
                                  mv->ok.count(mv->h(q.getState(wseg + 1), q.getState(wseg))) > 0)
                           .obj("params", par)
                           .arr("input", flat(w, P)).arr("output", flat(w, q)),
                       onlyReversed);
                bad = true;
            }
            if (!returned)
            {
                // the routine was cut off by the call budget of the objective: it had not come back after the
                // number of motion cost evaluations armed above. What it had made of the caller's path by then is still judged by the cost clause.
                sink.count("c17_not_returned_" + rn + "_" + objName[o.kind]);
            }
            const double L1 = q.length();
            // --- shortcutting routines in a metric space never lengthen
            bool shortcutting = r == R_REDUCE || r == R_COLLAPSE || ((r == R_PARTIAL || r == R_ROPE) && o.kind <= O_LENGTH);
            if (shortcutting && w.metric && returned)
            {
                sink.count("c17_length_checks");
                if (!(L1 <= L0 + 1e-9 * (1 + L0)))
                {
                    V.viol("longer", rn, "", J().num("length_in", L0).num("length_out", L1).obj("params", par)
                                                 .arr("input", flat(w, P)).arr("output", flat(w, q)));
                    bad = true;
                }
            }
            // --- cost-aware routines never worsen their own objective
            if (costAware && !(shortcutting && w.metric && returned))
            {
                double costOut;
                try
                {
                    costOut = oracleCost(w, o.kind, o.forOracle, q);
                    sink.count("c17_cost_checks");
                    sink.count(std::string("c17_cost_checks_") + objName[o.kind]);
                    int wv = worseThan(w, o.kind, costOut, costIn, n0 + n1, L0 + L1);
                    if (wv == 1)
                    {
                        sink.count("c17_clearance_within_discretisation_band");
                        sink.maxstat("c17_clearance_band_worst_in_resolution_lengths_" + rn, (costIn - costOut) / w.rlp);
                    }
                    if (wv == 2)
                    {
                        V.viol("cost-worse", rn, objName[o.kind],
                               J().num("cost_in", costIn).num("cost_out", costOut).b("returned", returned).obj("params", par)
                                   .arr("input", flat(w, P)).arr("output", flat(w, q)));
                        bad = true;
                    }
                    else if (!returned)
                        sink.inconclusive("no-return:" + rn + ":" + objName[o.kind]);
                }
                catch (BudgetExceeded &)
                {
                }
            }
            // --- simplify()==true  =>  check()
            if (r == R_SIMPLIFY || r == R_SIMPLIFYMAX)
            {
                sink.count("c17_simplify_runs");
                if (ret)
                {
                    sink.count("c17_simplify_true");
                    if (!q.check())
                    {
                        V.viol("simplify-true-check-false", rn, "",
                               J().i("ptcEvals", ptcEvals).obj("params", par).arr("input", flat(w, P)).arr("output", flat(w, q)));
                        bad = true;
                    }
                }
                else
                    sink.count("c17_simplify_false");
                if (w.metric && o.kind <= O_LENGTH && L0 > 0) sink.maxstat("c17_simplify_length_ratio_max", L1 / L0);
            }
            // --- densifying keeps the vertices in order, hits the requested count, keeps the length
            if (r == R_SUBDIVIDE || r == R_INTERP || r == R_INTERPN)
            {
                sink.count("c17_densify_runs");
                size_t j = 0;
                for (size_t i = 0; i < n0; ++i)
                {
                    while (j < n1 && !w.space->equalStates(q.getState(j), P.getState(i))) ++j;
                    if (j == n1)
                    {
                        V.viol("vertices-lost", rn, "", J().i("missing_input_index", (long long)i).obj("params", par)
                                                            .arr("input", flat(w, P)).arr("output", flat(w, q)));
                        bad = true;
                        break;
                    }
                    ++j;
                }
                size_t expect = n1;
                if (r == R_SUBDIVIDE) expect = n0 < 2 ? n0 : 2 * n0 - 1;
                if (r == R_INTERPN) expect = n0 < 2 ? n0 : std::max<size_t>(req, n0);
                if (r == R_INTERPN && n0 >= 2 && req >= n0) sink.count("c17_interpolate_count_checks");
                if (r == R_INTERPN && n0 >= 3 && req > n0 && L0 == 0) sink.count("c17_interpolate_count_zero_length_path");
                if (n1 != expect)
                {
                    V.viol("count", rn, "", J().i("states_in", (long long)n0).i("requested", req).i("states_out", (long long)n1)
                                                .obj("params", par).arr("input", flat(w, P)));
                    bad = true;
                }
                double tol = 1e-9 * (1 + L0);
                if (w.kind == K_DUB) tol = 1e-5 * w.rho * (1.0 + L0 + (double)n1);
                if (!(std::fabs(L1 - L0) <= tol))
                {
                    V.viol("length-changed", rn, "", J().num("length_in", L0).num("length_out", L1).obj("params", par)
                                                         .arr("input", flat(w, P)));
                    bad = true;
                }
            }
            // --- coverage statistic: where do the output segments come from
            for (size_t i = 0; i + 1 < n1 && i < 400; ++i)
            {
                uint64_t hh = mv->h(q.getState(i), q.getState(i + 1));
                if (inputPairs.count(hh))
                    sink.count("c17_seg_from_input");
                else if (mv->ok.count(hh))
                    sink.count("c17_seg_in_checkmotion_log");
                else
                    sink.count("c17_seg_derived");
            }
            if (n1 != n0 || ret) ++changed;
            if (bad) sink.count("c17_routine_runs_violated");
            if (sampleTxt.size() < 400)
                sampleTxt += rn + "(" + objName[o.kind] + "):" + std::to_string(n0) + "->" + std::to_string(n1) + " ";
        };
        // Two input classes crash the unchanged library inside perturbPath (a path of one state; snapToVertex == 0). A
        // sanitizer abort costs the worker the counters of its current launch, so these classes are confined to the first
        // cases of every shard and perturbPath is applied last there.
        const bool risky = riskyCase(c) >= 0;
        for (int r = 0; r < R_COUNT; ++r)
            if (!(risky && r == R_PERTURB)) apply(r);

        // ---- hybridization -------------------------------------------------------------------------------------
        if ((only < 0 || only == R_COUNT) && n0 >= 1)
        {
            Rng rng(caseSeed(a, c, 100 + R_COUNT));
            ompl::RNG::setSeed(caseSeed(a, c, 200 + R_COUNT) % 1000000000 + 1);
            ObjSel o;
            drawObjective(w, rng, o, true);
            const std::string rn = "PathHybridization";
            V.fired = false;
            std::vector<og::PathGeometricPtr> paths;
            paths.push_back(std::make_shared<og::PathGeometric>(P));
            int np = rng.range(1, 4);
            bool sameEnds = rng.coin(0.8);
            for (int k = 0; k < np; ++k)
            {
                auto p = std::make_shared<og::PathGeometric>(w.si);
                if (sameEnds)
                {
                    // another valid route from the same first to the same last state through random via points
                    p->append(first);
                    walk(w, rng, *p, rng.range(2, 10), true);
                    bool closed = false;
                    for (int t = 0; t < 40 && !closed; ++t)
                    {
                        if (w.si->checkMotion(p->getState(p->getStateCount() - 1), last))
                        {
                            p->append(last);
                            closed = true;
                        }
                        else
                            walk(w, rng, *p, (int)p->getStateCount() + 1, true);
                    }
                    if (!closed) continue;
                }
                else
                    walk(w, rng, *p, rng.range(1, 12), true);
                if (p->getStateCount() == 0) continue;
                if (rng.coin(0.3))
                {
                    og::PathSimplifier ps(w.si);
                    ps.partialShortcutPath(*p);
                }
                long dd = 0;
                if (!p->check() || denseWorst(w, *p, dd) > 2.0) continue;
                paths.push_back(p);
            }
            if (rng.coin(0.25)) paths.push_back(std::make_shared<og::PathGeometric>(P));  // an equal copy
            o.budget.arm(o.kind == O_CLEAR ? 60000 : 400000);
            try
            {
                og::PathHybridization hy(w.si, o.forOracle);
                std::unique_ptr<og::PathHybridization> hyDefault;
                og::PathHybridization *H = &hy;
                if (o.kind == O_DEFAULT)
                {
                    hyDefault.reset(new og::PathHybridization(w.si));
                    H = hyDefault.get();
                }
                // a hybridization object is reused (AnytimePathShortening, ParallelPlan do): after clear() the same path objects are
                // recorded again and the claim is the same
                const int hyRounds = rng.coin(0.4) ? 2 : 1;
                for (int hyRound = 0; hyRound < hyRounds && !V.fired; ++hyRound)
                {
                if (hyRound > 0)
                {
                    H->clear();
                    sink.count("c17_hybrid_rounds_after_clear");
                    if (H->pathCount() != 0)
                        V.viol("hybrid-clear", rn, objName[o.kind], J().str("what", "pathCount() != 0 after clear()").i("pathCount", (long long)H->pathCount()));
                    if (rng.coin(0.5)) std::reverse(paths.begin(), paths.end());
                }
                double best = 0;
                bool haveBest = false;
                unsigned attempts = 0;
                for (auto &p : paths)
                {
                    attempts += H->recordPath(p, rng.coin());
                    if (rng.coin(0.15)) H->recordPath(p, rng.coin());  // recording the same path twice is a no-op
                    double cst = oracleCost(w, o.kind, o.forOracle, *p);
                    if (!haveBest || o.forOracle->isCostBetterThan(ob::Cost(cst), ob::Cost(best))) best = cst;
                    haveBest = true;
                }
                H->computeHybridPath();
                const og::PathGeometricPtr &hp = H->getHybridPath();
                sink.count("c17_run_PathHybridization");
                sink.count("c17_hybrid_paths_recorded", (long long)H->pathCount());
                sink.count("c17_hybrid_connection_attempts", attempts);
                J par;
                par.str("objective", objName[o.kind]).i("paths", (long long)paths.size()).b("sameEnds", sameEnds).b("after_clear", hyRound > 0);
                if (!hp || hp->getStateCount() == 0)
                    V.viol("hybrid-worse", rn, objName[o.kind], J().str("what", "no hybrid path").obj("params", par));
                else
                {
                    double hc = oracleCost(w, o.kind, o.forOracle, *hp);
                    size_t nseg = hp->getStateCount();
                    double len = hp->length();
                    for (auto &p : paths)
                    {
                        nseg += p->getStateCount();
                        len += p->length();
                    }
                    int wv = worseThan(w, o.kind, hc, best, nseg, len);
                    sink.count("c17_hybrid_checks");
                    if (wv == 1) sink.count("c17_clearance_within_discretisation_band");
                    if (wv == 2)
                    {
                        J j;
                        j.num("best_recorded_cost", best).num("hybrid_cost", hc).obj("params", par).arr("hybrid", flat(w, *hp));
                        for (size_t k = 0; k < paths.size() && k < 5; ++k) j.arr("path" + std::to_string(k), flat(w, *paths[k]));
                        V.viol("hybrid-worse", rn, objName[o.kind], j);
                    }
                    if (o.forOracle->isCostBetterThan(ob::Cost(hc), ob::Cost(best)) &&
                        std::fabs(hc - best) > 1e-9 * (1 + std::fabs(best)))
                        sink.count("c17_hybrid_strictly_better");
                    // statistics only (the statement does not name them for hybridization)
                    long dd = 0;
                    if (denseWorst(w, *hp, dd) > 2.0) sink.count("c17_stat_hybrid_invalid_stretch");
                }
                }
            }
            catch (BudgetExceeded &)
            {
                sink.inconclusive("no-return:PathHybridization");
            }
            o.budget.disarm();
        }
        if (risky) apply(R_PERTURB);
        sink.count("c17_dense_samples", ds);
        sink.count("c17_isvalid_calls", w.validCalls);
        sink.count("c17_checkmotion_calls", mv->calls);
        uint64_t h = hmix(hashPath(w, P), (uint64_t)w.kind * 131 + w.obs.size());
        bool nontrivial = n0 >= 3 && !w.obs.empty() && changed > 0;
        sink.noteCase(h, nontrivial);
        sink.sample(J().str("space", kindName[w.kind]).str("input", inName[in.kind]).i("states", (long long)n0).num("length", L0)
                        .i("obstacles", (long long)w.obs.size()).b("heading_slab", w.slab).num("resolution", w.res)
                        .str("routines", sampleTxt));
    }
}  // namespace

int main(int argc, char **argv)
{
    Args a = parseArgs(argc, argv);
    ompl::msg::setLogLevel(ompl::msg::LOG_NONE);
    if (a.prop != "C17")
    {
        fprintf(stderr, "h_simplify does not serve %s\n", a.prop.c_str());
        return 2;
    }
    Sink sink(a);
    long total = (long)((a.thorough() ? 60000 : 12000) * a.scale);
    for (long c = 0; c < total; ++c)
    {
        if (!mine(a, c) || !sink.wanted(c)) continue;
        sink.begin(c);
        auto t0 = std::chrono::steady_clock::now();
        runCase(sink, a, c);
        double dt = std::chrono::duration<double>(std::chrono::steady_clock::now() - t0).count();
        sink.maxstat("c17_case_seconds_max", dt);  // statistic only, never part of a decision
        if (a.get("trace") == "1" || dt > 20) fprintf(stderr, "case %ld took %.2f s\n", c, dt);
    }
    sink.done();
    return 0;
}
