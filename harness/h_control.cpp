// Engine h_control: control planners (control::RRT with/without intermediate states, SST, EST, KPIECE1, PDST, SyclopRRT, SyclopEST)
// on three harness-owned dynamical systems in generated obstacle worlds.
//   C02 solutions replay through the propagator to the goal
//   C03 interruption at every evaluation index / resumed solves / clear and new-query histories / state and control leaks
//   C20 same seed => same bytes (fingerprints compared across processes by the driver)
//
// C02: one case = one (planner variant, dynamical system, world, start/goal, planner parameters, seed) tuple, all drawn from
// vf::Rng(caseSeed).  The planner is run once on a fresh problem definition under an evaluation-counting termination
// condition; whatever it registers in the problem definition is then replayed with the harness's own copy of the
// propagator: every recorded (control, duration) is applied as n = duration/stepSize steps of stepSize from the
// *recorded* state i, every intermediate state must be valid, and the result must be the recorded state i+1.
// C03 and C20 re-use the same registry, systems, world generator, termination condition and replay oracle.
#include "common.h"

#include <ompl/base/ProblemDefinition.h>
#include <ompl/base/ProjectionEvaluator.h>
#include <ompl/base/ScopedState.h>
#include <ompl/base/goals/GoalSampleableRegion.h>
#include <ompl/base/goals/GoalState.h>
#include <ompl/base/objectives/PathLengthOptimizationObjective.h>
#include <ompl/base/spaces/RealVectorStateSpace.h>
#include <ompl/base/spaces/SE2StateSpace.h>
#include <ompl/control/PathControl.h>
#include <ompl/control/PlannerData.h>
#include <ompl/control/SimpleDirectedControlSampler.h>
#include <ompl/control/SpaceInformation.h>
#include <ompl/control/StatePropagator.h>
#include <ompl/control/planners/est/EST.h>
#include <ompl/control/planners/kpiece/KPIECE1.h>
#include <ompl/control/planners/pdst/PDST.h>
#include <ompl/control/planners/rrt/RRT.h>
#include <ompl/control/planners/sst/SST.h>
#include <ompl/control/planners/syclop/GridDecomposition.h>
#include <ompl/control/planners/syclop/SyclopEST.h>
#include <ompl/control/planners/syclop/SyclopRRT.h>
#include <ompl/control/spaces/RealVectorControlSpace.h>
#include <ompl/control/spaces/DiscreteControlSpace.h>
#include <ompl/util/Console.h>
#include <ompl/util/RandomNumbers.h>

#include <algorithm>
#include <chrono>
#include <memory>

namespace ob = ompl::base;
namespace oc = ompl::control;
using namespace vf;

namespace
{
    const char *PLANNERS[8] = {"RRT", "RRT-intermediate", "SST", "EST", "KPIECE1", "PDST", "SyclopRRT", "SyclopEST"};
    const char *SYSTEMS[4] = {"point", "car", "dint", "pointd"};
    enum
    {
        P_RRT,
        P_RRTI,
        P_SST,
        P_EST,
        P_KPIECE,
        P_PDST,
        P_SYRRT,
        P_SYEST
    };
    enum
    {
        S_POINT,
        S_CAR,
        S_DINT,
        S_POINTD  // first-order point robot steered by a DiscreteControlSpace: control k = one of n headings at constant speed
    };

    struct Obst
    {
        int type;  // 0 disc (a,b centre, c radius); 1 box [a,c] x [b,d]
        double a, b, c, d;
        bool contains(double x, double y, double inflate = 0.) const
        {
            if (type == 0)
            {
                double dx = x - a, dy = y - b, r = c + inflate;
                return dx * dx + dy * dy <= r * r;
            }
            return x >= a - inflate && x <= c + inflate && y >= b - inflate && y <= d + inflate;
        }
    };

    // statistics on how the library drives the propagator (reset per case)
    struct PropStats
    {
        long calls = 0, notStep = 0, aliased = 0;
    };

    // The dynamical system: a pure function of (state, control, dt).  The same (non-inlined) function is handed to the
    // library and used by the replay, so identical inputs give bit-identical outputs.
    struct Sys
    {
        int kind = 0;
        ob::StateSpacePtr space;
        std::shared_ptr<oc::ControlSpace> cspace;  // RealVectorControlSpace(2), or DiscreteControlSpace for S_POINTD
        const ob::SO2StateSpace *so2 = nullptr;
        double L = 0.5;          // car wheel base
        double vmax = 1.0;       // dint velocity bound
        bool clampVel = false;   // dint: propagator saturates the velocity
        double clo[2], chi[2];   // control bounds (harness's record); pointd: clo[0] = dlo, chi[0] = dhi, [1] unused (0)
        int dlo = 0, dhi = 0, dn = 1;  // pointd: discrete control bounds (harness's record) and number of headings
        double speed = 0;        // pointd: constant speed
        double h = 0.1;          // propagation step size
        mutable PropStats ps;

        unsigned ncomp() const { return (kind == S_POINT || kind == S_POINTD) ? 2 : kind == S_CAR ? 3 : 4; }
        bool discrete() const { return kind == S_POINTD; }
        // the control as numbers (reports only): real-vector controls (u0, u1); discrete control (k, 0)
        void cvals(const oc::Control *c, double *u) const
        {
            if (discrete())
            {
                u[0] = c->as<oc::DiscreteControlSpace::ControlType>()->value;
                u[1] = 0;
            }
            else
            {
                const double *v = c->as<oc::RealVectorControlSpace::ControlType>()->values;
                u[0] = v[0], u[1] = v[1];
            }
        }
        void comps(const ob::State *s, double *v) const
        {
            if (kind == S_CAR)
            {
                const auto *p = s->as<ob::SE2StateSpace::StateType>();
                v[0] = p->getX();
                v[1] = p->getY();
                v[2] = p->getYaw();
            }
            else
            {
                const double *q = s->as<ob::RealVectorStateSpace::StateType>()->values;
                for (unsigned i = 0; i < ncomp(); ++i)
                    v[i] = q[i];
            }
        }
        void setComps(ob::State *s, const double *v) const
        {
            if (kind == S_CAR)
            {
                auto *p = s->as<ob::SE2StateSpace::StateType>();
                p->setXY(v[0], v[1]);
                p->setYaw(v[2]);
            }
            else
            {
                double *q = s->as<ob::RealVectorStateSpace::StateType>()->values;
                for (unsigned i = 0; i < ncomp(); ++i)
                    q[i] = v[i];
            }
        }
        void xy(const ob::State *s, double &x, double &y) const
        {
            if (kind == S_CAR)
            {
                const auto *p = s->as<ob::SE2StateSpace::StateType>();
                x = p->getX();
                y = p->getY();
            }
            else
            {
                const double *q = s->as<ob::RealVectorStateSpace::StateType>()->values;
                x = q[0];
                y = q[1];
            }
        }
        void setXY(ob::State *s, double x, double y) const
        {
            if (kind == S_CAR)
                s->as<ob::SE2StateSpace::StateType>()->setXY(x, y);
            else
            {
                double *q = s->as<ob::RealVectorStateSpace::StateType>()->values;
                q[0] = x;
                q[1] = y;
            }
        }

        // all inputs are read before the result is written: the library calls this with result == state
        __attribute__((noinline)) void step(const ob::State *st, const oc::Control *c, double dt, ob::State *res) const
        {
            if (kind == S_POINTD)
            {
                // control k = heading 2*pi*(k - dlo)/dn at constant speed (defined for any integer k: a pure function)
                const int k = c->as<oc::DiscreteControlSpace::ControlType>()->value;
                const double hd = 2 * M_PI * (double)(k - dlo) / (double)dn;
                const double *q = st->as<ob::RealVectorStateSpace::StateType>()->values;
                const double x = q[0], y = q[1];
                double *r = res->as<ob::RealVectorStateSpace::StateType>()->values;
                r[0] = x + speed * std::cos(hd) * dt;
                r[1] = y + speed * std::sin(hd) * dt;
                return;
            }
            const double *u = c->as<oc::RealVectorControlSpace::ControlType>()->values;
            const double u0 = u[0], u1 = u[1];
            if (kind == S_POINT)
            {
                const double *q = st->as<ob::RealVectorStateSpace::StateType>()->values;
                const double x = q[0], y = q[1];
                double *r = res->as<ob::RealVectorStateSpace::StateType>()->values;
                r[0] = x + dt * u0;
                r[1] = y + dt * u1;
            }
            else if (kind == S_CAR)
            {
                const auto *s = st->as<ob::SE2StateSpace::StateType>();
                const double x = s->getX(), y = s->getY(), th = s->getYaw();
                auto *r = res->as<ob::SE2StateSpace::StateType>();
                r->setXY(x + dt * u0 * std::cos(th), y + dt * u0 * std::sin(th));
                r->setYaw(th + dt * u0 * std::tan(u1) / L);
                so2->enforceBounds(r->as<ob::SO2StateSpace::StateType>(1));
            }
            else
            {
                // explicit Euler: positions advance with the OLD velocity, so n short steps != one long step
                const double *q = st->as<ob::RealVectorStateSpace::StateType>()->values;
                const double x = q[0], y = q[1], vx = q[2], vy = q[3];
                double *r = res->as<ob::RealVectorStateSpace::StateType>()->values;
                double nvx = vx + dt * u0, nvy = vy + dt * u1;
                if (clampVel)
                {
                    nvx = std::max(-vmax, std::min(vmax, nvx));
                    nvy = std::max(-vmax, std::min(vmax, nvy));
                }
                r[0] = x + dt * vx;
                r[1] = y + dt * vy;
                r[2] = nvx;
                r[3] = nvy;
            }
        }
    };

    class Propagator : public oc::StatePropagator
    {
    public:
        Propagator(oc::SpaceInformation *si, const Sys *sys) : oc::StatePropagator(si), sys_(sys) {}
        void propagate(const ob::State *state, const oc::Control *control, double duration,
                       ob::State *result) const override
        {
            ++sys_->ps.calls;
            if (duration != sys_->h)
                ++sys_->ps.notStep;
            if (state == result)
                ++sys_->ps.aliased;
            sys_->step(state, control, duration, result);
        }

    private:
        const Sys *sys_;
    };

    struct World
    {
        double x0, y0, W, H;
        std::vector<Obst> obs;
        bool freeXY(double x, double y, double inflate) const
        {
            for (const auto &o : obs)
                if (o.contains(x, y, inflate))
                    return false;
            return true;
        }
    };

    // validity as in the library's demos: bounds test plus obstacle test on (x,y)
    struct Validity
    {
        const ob::SpaceInformation *si;
        const Sys *sys;
        const World *w;
        bool operator()(const ob::State *s) const
        {
            if (!si->satisfiesBounds(s))
                return false;
            double x, y;
            sys->xy(s, x, y);
            for (const auto &o : w->obs)
                if (o.contains(x, y))
                    return false;
            return true;
        }
    };

    class XYProjection : public ob::ProjectionEvaluator
    {
    public:
        XYProjection(const ob::StateSpacePtr &space, const Sys *sys, const World &w, int cells)
          : ob::ProjectionEvaluator(space), sys_(sys)
        {
            ob::RealVectorBounds b(2);
            b.setLow(0, w.x0);
            b.setHigh(0, w.x0 + w.W);
            b.setLow(1, w.y0);
            b.setHigh(1, w.y0 + w.H);
            setBounds(b);
            setCellSizes({w.W / cells, w.H / cells});
        }
        unsigned int getDimension() const override { return 2; }
        void project(const ob::State *state, Eigen::Ref<Eigen::VectorXd> projection) const override
        {
            double x, y;
            sys_->xy(state, x, y);
            projection(0) = x;
            projection(1) = y;
        }

    private:
        const Sys *sys_;
    };

    class XYDecomposition : public oc::GridDecomposition
    {
    public:
        XYDecomposition(int len, const ob::RealVectorBounds &b, const Sys *sys) : GridDecomposition(len, 2, b), sys_(sys)
        {
        }
        void project(const ob::State *s, std::vector<double> &coord) const override
        {
            coord.resize(2);
            sys_->xy(s, coord[0], coord[1]);
        }
        void sampleFullState(const ob::StateSamplerPtr &sampler, const std::vector<double> &coord,
                             ob::State *s) const override
        {
            sampler->sampleUniform(s);
            sys_->setXY(s, coord[0], coord[1]);
        }

    private:
        const Sys *sys_;
    };

    // goal = disc in (x,y); the other coordinates are free
    template <class Base>
    class XYGoalT : public Base
    {
    public:
        XYGoalT(const ob::SpaceInformationPtr &si, const Sys *sys, double cx, double cy, double thr)
          : Base(si), sys_(sys), cx_(cx), cy_(cy)
        {
            this->setThreshold(thr);
        }
        double distanceGoal(const ob::State *st) const override
        {
            double x, y;
            sys_->xy(st, x, y);
            return std::hypot(x - cx_, y - cy_);
        }

    protected:
        const Sys *sys_;
        double cx_, cy_;
    };
    using XYGoalRegion = XYGoalT<ob::GoalRegion>;
    class XYGoalSampleable : public XYGoalT<ob::GoalSampleableRegion>
    {
    public:
        XYGoalSampleable(const ob::SpaceInformationPtr &si, const Sys *sys, double cx, double cy, double thr)
          : XYGoalT<ob::GoalSampleableRegion>(si, sys, cx, cy, thr), sampler_(si->allocStateSampler())
        {
        }
        void sampleGoal(ob::State *st) const override
        {
            sampler_->sampleUniform(st);
            double r = threshold_ * std::sqrt(rng_.uniform01()), a = rng_.uniformReal(-M_PI, M_PI);
            sys_->setXY(st, cx_ + r * std::cos(a), cy_ + r * std::sin(a));
        }
        unsigned int maxSampleCount() const override { return 1000000000u; }

    private:
        mutable ompl::RNG rng_;
        ob::StateSamplerPtr sampler_;
    };

    // goal = disc in (x,y) AND a condition on the remaining coordinates (car: heading within a quarter turn of h0; double
    // integrator: speed below vGoal); the distance it reports is the (x,y) distance alone -- a heuristic, as Goal::isSatisfied
    // allows: a state can be closer than a satisfying one without satisfying the goal
    class XYCondGoal : public XYGoalT<ob::GoalSampleableRegion>
    {
    public:
        XYCondGoal(const ob::SpaceInformationPtr &si, const Sys *sys, double cx, double cy, double thr, double h0, double vGoal)
          : XYGoalT<ob::GoalSampleableRegion>(si, sys, cx, cy, thr), sampler_(si->allocStateSampler()), h0_(h0), vGoal_(vGoal)
        {
        }
        bool cond(const ob::State *st) const
        {
            double v[4] = {0, 0, 0, 0};
            sys_->comps(st, v);
            if (sys_->kind == S_CAR) return std::cos(v[2] - h0_) > 0.7;
            if (sys_->kind == S_DINT) return std::hypot(v[2], v[3]) < vGoal_;
            return true;
        }
        bool isSatisfied(const ob::State *st) const override { return distanceGoal(st) <= threshold_ && cond(st); }
        bool isSatisfied(const ob::State *st, double *distance) const override
        {
            double d = distanceGoal(st);
            if (distance) *distance = d;
            return d <= threshold_ && cond(st);
        }
        void sampleGoal(ob::State *st) const override
        {
            sampler_->sampleUniform(st);
            double r = threshold_ * std::sqrt(rng_.uniform01()), a = rng_.uniformReal(-M_PI, M_PI);
            double v[4] = {0, 0, 0, 0};
            sys_->comps(st, v);
            v[0] = cx_ + r * std::cos(a), v[1] = cy_ + r * std::sin(a);
            if (sys_->kind == S_CAR) v[2] = h0_;
            if (sys_->kind == S_DINT) v[2] = v[3] = 0;
            sys_->setComps(st, v);
        }
        unsigned int maxSampleCount() const override { return 1000000000u; }

    private:
        mutable ompl::RNG rng_;
        ob::StateSamplerPtr sampler_;
        double h0_, vGoal_;
    };

    double ulp(double v)
    {
        v = std::fabs(v);
        return std::nextafter(v, std::numeric_limits<double>::infinity()) - v;
    }

    std::vector<double> compVec(const Sys &sys, const ob::State *s)
    {
        double v[4];
        sys.comps(s, v);
        return std::vector<double>(v, v + sys.ncomp());
    }


    // ---- allocation-counting spaces (C03): every allocState/freeState and allocControl/freeControl goes through a live set --
    // (the counterpart of pl::Counting in planners_common.h; control planners are single-threaded, so no lock)
    struct Tracker
    {
        std::unordered_set<const void *> live;
        long allocs = 0, frees = 0, badFrees = 0;
        void onAlloc(const void *p)
        {
            live.insert(p);
            ++allocs;
        }
        // false when the pointer is not a live object of this space (double free / foreign pointer): not forwarded
        bool onFree(const void *p)
        {
            auto it = live.find(p);
            if (it == live.end())
            {
                ++badFrees;
                return false;
            }
            live.erase(it);
            ++frees;
            return true;
        }
        long liveCount() const { return (long)live.size(); }
    };

    template <class Base>
    struct CountingSpace : Base
    {
        std::shared_ptr<Tracker> tr;
        using Base::Base;
        ob::State *allocState() const override
        {
            ob::State *s = Base::allocState();
            if (tr) tr->onAlloc(s);
            return s;
        }
        void freeState(ob::State *s) const override
        {
            if (!tr || tr->onFree(s)) Base::freeState(s);
        }
    };

    template <class Base>
    struct CountingControlSpaceT : Base
    {
        std::shared_ptr<Tracker> tr;
        using Base::Base;
        oc::Control *allocControl() const override
        {
            oc::Control *c = Base::allocControl();
            if (tr) tr->onAlloc(c);
            return c;
        }
        void freeControl(oc::Control *c) const override
        {
            if (!tr || tr->onFree(c)) Base::freeControl(c);
        }
    };
    using CountingControlSpace = CountingControlSpaceT<oc::RealVectorControlSpace>;
    using CountingDiscreteControlSpace = CountingControlSpaceT<oc::DiscreteControlSpace>;

    // ---- scenario: world, system, query and planner of one case --------------------------------------------------------
    // The generator of C02, cut into stages that draw from the caller's Rng in the original order (world, start/goal
    // positions, system, query, planner parameters, budget), so that C02 generates exactly the cases it always did and the
    // C03 / C20 modes generate worlds of the same family.
    struct Pos
    {
        double sx = 0, sy = 0, gx = 0, gy = 0, s2x = 0, s2y = 0;
    };

    // one query on a scenario: start states, goal and the problem definition holding them
    struct Query
    {
        Pos p;
        std::vector<ob::ScopedState<>> starts;
        ob::ProblemDefinitionPtr pdef;
        int goalKind = 0;
        double thr = 0;
        bool onlyInvalidStarts = false;
    };

    struct Scen
    {
        // ---- inputs
        int pl = 0, sk = 0;
        std::string P, S;
        bool thorough = false;
        double slowfrac = 0.03;
        Sink *gsink = nullptr;                // receives the generation counters (C02 only)
        std::shared_ptr<Tracker> stTr, ctTr;  // non-null: counting state / control spaces
        uint64_t hash = 0;
        // ---- world
        World w;
        double mn = 0;
        int layout = 0;
        bool wallVertical = true;
        double wallPos = 0;
        Pos pos;  // positions of the first query
        // ---- system
        Sys sys;
        unsigned minD = 1, maxD = 1;
        ob::RealVectorBounds xyb{2};
        bool creeping = false;
        double cscale = 1.0;
        std::shared_ptr<oc::SpaceInformation> si;
        Validity valid{nullptr, nullptr, nullptr};
        unsigned kdir = 1;
        double h = 0, scale = 0, tol = 0;
        // ---- planner parameters
        bool sstStopAtFirst = false, regionalNN = false;

        Scen() = default;
        Scen(const Scen &) = delete;
        Scen &operator=(const Scen &) = delete;

        double H(double v)
        {
            hash = hmixd(hash, v);
            return v;
        }
        void note(const std::string &counter)
        {
            if (gsink) gsink->count(counter);
        }
        template <class T, class... A>
        std::shared_ptr<T> mkSpace(A &&...args)
        {
            if (stTr)
            {
                auto sp = std::make_shared<CountingSpace<T>>(std::forward<A>(args)...);
                sp->tr = stTr;
                return sp;
            }
            return std::make_shared<T>(std::forward<A>(args)...);
        }

        bool drawFree(Rng &rng, double &x, double &y, double clearance) const
        {
            for (int t = 0; t < 300; ++t)
            {
                x = w.x0 + rng.uni(0.4, w.W - 0.4);
                y = w.y0 + rng.uni(0.4, w.H - 0.4);
                if (w.freeXY(x, y, clearance))
                    return true;
            }
            return false;
        }
        // start and goal position: free, far apart, on different sides of the wall
        bool place(Rng &rng, Pos &p) const
        {
            for (int t = 0; t < 200; ++t)
            {
                if (!drawFree(rng, p.sx, p.sy, 0.25) || !drawFree(rng, p.gx, p.gy, 0.25))
                    break;
                if (std::hypot(p.sx - p.gx, p.sy - p.gy) < 0.4 * mn)
                    continue;
                if (layout == 2)
                {
                    double ps = wallVertical ? p.sx : p.sy, pg = wallVertical ? p.gx : p.gy;
                    if ((ps - wallPos) * (pg - wallPos) > 0)
                        continue;
                }
                return true;
            }
            return false;
        }
        // positions of a further query in the same world (C03 histories)
        bool drawPositions(Rng &rng, Pos &p) const { return place(rng, p) && drawFree(rng, p.s2x, p.s2y, 0.25); }

        // ---- world ------------------------------------------------------------------------------------------
        bool genWorld(Rng &rng)
        {
            w.W = H(rng.uni(6, 14));
            w.H = H(rng.uni(6, 14));
            {
                int k = rng.range(0, 2);
                w.x0 = H(k == 0 ? 0. : k == 1 ? -w.W / 2 : rng.uni(-20, 20));
                k = rng.range(0, 2);
                w.y0 = H(k == 0 ? 0. : k == 1 ? -w.H / 2 : rng.uni(-20, 20));
            }
            mn = std::min(w.W, w.H);
            double lay = rng.u01();
            layout = lay < 0.1 ? 0 : lay < 0.65 ? 1 : 2;
            wallVertical = true;
            wallPos = 0;
            auto scatter = [&](int k) {
                for (int i = 0; i < k; ++i)
                {
                    Obst o;
                    if (rng.coin())
                    {
                        o.type = 0;
                        o.a = w.x0 + rng.uni(0, w.W);
                        o.b = w.y0 + rng.uni(0, w.H);
                        o.c = rng.uni(0.3, 0.3 + 0.12 * mn);
                        o.d = 0;
                    }
                    else
                    {
                        o.type = 1;
                        double bw = rng.uni(0.4, 0.25 * w.W), bh = rng.uni(0.4, 0.25 * w.H);
                        o.a = w.x0 + rng.uni(0, w.W - bw);
                        o.b = w.y0 + rng.uni(0, w.H - bh);
                        o.c = o.a + bw;
                        o.d = o.b + bh;
                    }
                    w.obs.push_back(o);
                }
            };
            if (layout == 1)
                scatter(rng.range(1, 7));
            else if (layout == 2)
            {
                wallVertical = rng.coin();
                double ext = wallVertical ? w.W : w.H, oth = wallVertical ? w.H : w.W;
                double e0 = wallVertical ? w.x0 : w.y0, o0 = wallVertical ? w.y0 : w.x0;
                wallPos = e0 + ext * rng.uni(0.35, 0.65);
                double th = rng.uni(0.2, 1.0), gw = rng.uni(1.0, 3.0), gc = o0 + rng.uni(gw / 2, oth - gw / 2);
                Obst lo{1, 0, 0, 0, 0}, hi{1, 0, 0, 0, 0};
                if (wallVertical)
                {
                    lo = Obst{1, wallPos - th / 2, o0 - 1, wallPos + th / 2, gc - gw / 2};
                    hi = Obst{1, wallPos - th / 2, gc + gw / 2, wallPos + th / 2, o0 + oth + 1};
                }
                else
                {
                    lo = Obst{1, o0 - 1, wallPos - th / 2, gc - gw / 2, wallPos + th / 2};
                    hi = Obst{1, gc + gw / 2, wallPos - th / 2, o0 + oth + 1, wallPos + th / 2};
                }
                w.obs.push_back(lo);
                w.obs.push_back(hi);
                scatter(rng.range(0, 2));
            }
            // start / goal positions
            bool placed = false;
            for (int attempt = 0; attempt < 2 && !placed; ++attempt)
            {
                placed = place(rng, pos);
                if (!placed)
                {
                    w.obs.clear();
                    layout = 0;
                }
            }
            if (!placed || !drawFree(rng, pos.s2x, pos.s2y, 0.25))
                return false;
            for (const auto &o : w.obs)
            {
                H(o.type);
                H(o.a);
                H(o.b);
                H(o.c);
                H(o.d);
            }
            H(pos.sx), H(pos.sy), H(pos.gx), H(pos.gy);
            return true;
        }

        // ---- system -----------------------------------------------------------------------------------------
        void genSystem(Rng &rng)
        {
            sys.kind = sk;
            sys.h = H(rng.logUni(0.02, 0.25));
            minD = (unsigned)rng.range(1, 4), maxD = minD + (unsigned)rng.range(0, 20);
            H(minD), H(maxD);
            xyb.setLow(0, w.x0);
            xyb.setHigh(0, w.x0 + w.W);
            xyb.setLow(1, w.y0);
            xyb.setHigh(1, w.y0 + w.H);
            if (sk == S_POINTD)
            {
                auto sp = mkSpace<ob::RealVectorStateSpace>(2);
                sp->setBounds(xyb);
                sys.space = sp;
                // non-zero lower bound: a sampler that draws from [0, count-1] leaves [dlo, dhi]
                sys.dlo = rng.range(-6, 8);
                if (sys.dlo >= 0) ++sys.dlo;  // -6..-1, 1..9
                sys.dn = rng.range(4, 12);
                sys.dhi = sys.dlo + sys.dn - 1;
                sys.speed = rng.uni(0.3, 2);
                sys.clo[0] = sys.dlo, sys.chi[0] = sys.dhi;
                sys.clo[1] = sys.chi[1] = 0;
                H(sys.dn);
            }
            else if (sk == S_POINT)
            {
                auto sp = mkSpace<ob::RealVectorStateSpace>(2);
                sp->setBounds(xyb);
                sys.space = sp;
                sys.clo[0] = -rng.uni(0.2, 2), sys.chi[0] = rng.uni(0.2, 2);
                sys.clo[1] = -rng.uni(0.2, 2), sys.chi[1] = rng.uni(0.2, 2);
            }
            else if (sk == S_CAR)
            {
                auto sp = mkSpace<ob::SE2StateSpace>();
                sp->setBounds(xyb);
                sys.space = sp;
                sys.so2 = sp->getSubspace(1)->as<ob::SO2StateSpace>();
                sys.L = H(rng.uni(0.3, 1.0));
                sys.clo[0] = -rng.uni(0, 0.6), sys.chi[0] = rng.uni(0.5, 2);
                if (rng.coin(0.15))
                    sys.clo[0] = sys.chi[0];  // constant forward speed: a degenerate (low == high) control bound
                sys.clo[1] = -rng.uni(0.2, 0.9), sys.chi[1] = rng.uni(0.2, 0.9);
            }
            else
            {
                auto sp = mkSpace<ob::RealVectorStateSpace>(4);
                sys.vmax = H(rng.uni(0.5, 2.5));
                sys.clampVel = rng.coin();
                H(sys.clampVel);
                ob::RealVectorBounds b4(4);
                b4.setLow(0, xyb.low[0]), b4.setHigh(0, xyb.high[0]);
                b4.setLow(1, xyb.low[1]), b4.setHigh(1, xyb.high[1]);
                b4.setLow(2, -sys.vmax), b4.setHigh(2, sys.vmax);
                b4.setLow(3, -sys.vmax), b4.setHigh(3, sys.vmax);
                sp->setBounds(b4);
                sys.space = sp;
                sys.clo[0] = -rng.uni(0.3, 2), sys.chi[0] = rng.uni(0.3, 2);
                sys.clo[1] = -rng.uni(0.3, 2), sys.chi[1] = rng.uni(0.3, 2);
            }
            // A small class of "creeping" systems: control magnitudes so small that successive propagation steps are
            // closer together than std::numeric_limits<float>::epsilon() in the state-space metric.  The goal is out of
            // reach, but planners still report approximate solutions, and those must replay like any other.
            creeping = rng.u01() < slowfrac;
            cscale = creeping ? rng.logUni(2e-7, 5e-6) : 1.0;
            H(cscale);
            if (creeping)
            {
                if (sk == S_POINTD)
                    sys.speed *= cscale;
                else
                    for (int d = 0; d < 2; ++d)
                        sys.clo[d] *= cscale, sys.chi[d] *= cscale;
                note("c02_cases_creeping_system");
            }
            for (int d = 0; d < 2; ++d)
                H(sys.clo[d]), H(sys.chi[d]);
            if (sk == S_POINTD)
            {
                H(sys.speed);
                if (ctTr)
                {
                    auto cs = std::make_shared<CountingDiscreteControlSpace>(sys.space, sys.dlo, sys.dhi);
                    cs->tr = ctTr;
                    sys.cspace = cs;
                }
                else
                    sys.cspace = std::make_shared<oc::DiscreteControlSpace>(sys.space, sys.dlo, sys.dhi);
            }
            else
            {
                std::shared_ptr<oc::RealVectorControlSpace> rv;
                if (ctTr)
                {
                    auto cs = std::make_shared<CountingControlSpace>(sys.space, 2);
                    cs->tr = ctTr;
                    rv = cs;
                }
                else
                    rv = std::make_shared<oc::RealVectorControlSpace>(sys.space, 2);
                ob::RealVectorBounds cb(2);
                for (int d = 0; d < 2; ++d)
                    cb.setLow(d, sys.clo[d]), cb.setHigh(d, sys.chi[d]);
                rv->setBounds(cb);
                sys.cspace = rv;
            }
            si = std::make_shared<oc::SpaceInformation>(sys.space, sys.cspace);
            si->setStatePropagator(std::make_shared<Propagator>(si.get(), &sys));
            valid = Validity{si.get(), &sys, &w};
            Validity v = valid;
            si->setStateValidityChecker([v](const ob::State *s) { return v(s); });
            si->setPropagationStepSize(sys.h);
            si->setMinMaxControlDuration(minD, maxD);
            kdir = rng.coin(0.5) ? 1u : (unsigned)rng.range(2, 5);
            H(kdir);
            if (kdir > 1)
            {
                const unsigned kd = kdir;
                si->setDirectedControlSamplerAllocator([kd](const oc::SpaceInformation *s) {
                    return std::make_shared<oc::SimpleDirectedControlSampler>(s, kd);
                });
            }
            si->setup();
            h = si->getPropagationStepSize();
            scale = si->getMaximumExtent() + std::max({std::fabs(w.x0), std::fabs(w.x0 + w.W),
                                                       std::fabs(w.y0), std::fabs(w.y0 + w.H)});
            tol = 1e-9 * (1 + scale);
        }

        // ---- start / goal -----------------------------------------------------------------------------------
        // fills q (starts, goal, problem definition) for the positions q.p; `into` non-null: the start states and the goal
        // of that existing problem definition are replaced instead of creating a new one
        void genQuery(Rng &rng, Query &q, const ob::ProblemDefinitionPtr &into = nullptr)
        {
            const double sx = q.p.sx, sy = q.p.sy, gx = q.p.gx, gy = q.p.gy, s2x = q.p.s2x, s2y = q.p.s2y;
            auto mkState = [&](ob::ScopedState<> &s, double x, double y) {
                double v[4] = {x, y, 0, 0};
                if (sk == S_CAR)
                    v[2] = rng.uni(-M_PI, M_PI);
                else if (sk == S_DINT && rng.coin())
                {
                    v[2] = rng.uni(-0.3, 0.3) * sys.vmax;
                    v[3] = rng.uni(-0.3, 0.3) * sys.vmax;
                }
                sys.setComps(s.get(), v);
            };
            ob::ProblemDefinitionPtr pdef = into;
            if (pdef)
                pdef->clearStartStates();
            else
                pdef = std::make_shared<ob::ProblemDefinition>(si);
            std::vector<ob::ScopedState<>> &starts = q.starts;
            starts.clear();
            q.onlyInvalidStarts = false;
            {
                double r = rng.u01();
                if (r < 0.1)
                {
                    // an invalid start state listed first: the planner has to skip it
                    ob::ScopedState<> bad(sys.space);
                    if (!w.obs.empty() && rng.coin())
                    {
                        // just inside an obstacle's boundary (a single propagation step could leave it)
                        const Obst &o = w.obs[rng.ui(w.obs.size())];
                        const double delta = rng.uni(0.001, 0.05);
                        double bx, by;
                        if (o.type == 0)
                        {
                            const double ang = rng.uni(-M_PI, M_PI), rr = std::max(0., o.c - delta);
                            bx = o.a + rr * std::cos(ang);
                            by = o.b + rr * std::sin(ang);
                        }
                        else
                        {
                            bx = rng.uni(o.a, o.c);
                            by = rng.uni(o.b, o.d);
                            switch (rng.range(0, 3))
                            {
                                case 0: bx = o.a + delta; break;
                                case 1: bx = o.c - delta; break;
                                case 2: by = o.b + delta; break;
                                default: by = o.d - delta; break;
                            }
                        }
                        bx = std::max(w.x0, std::min(w.x0 + w.W, bx));
                        by = std::max(w.y0, std::min(w.y0 + w.H, by));
                        mkState(bad, bx, by);
                    }
                    else
                        mkState(bad, w.x0 - 1.0, w.y0 + 0.5 * w.H);
                    if (!valid(bad.get()))
                    {
                        starts.push_back(bad);
                        note("c02_cases_with_invalid_extra_start");
                    }
                }
                ob::ScopedState<> s1(sys.space);
                mkState(s1, sx, sy);
                if (r < 0.1 && !starts.empty() && rng.coin(0.3))
                {
                    note("c02_cases_with_only_invalid_starts");  // expected outcome: INVALID_START and no path
                    q.onlyInvalidStarts = true;
                }
                else
                    starts.push_back(s1);
                if (r > 0.8 && std::hypot(s2x - gx, s2y - gy) > 0.25 * mn)
                {
                    ob::ScopedState<> s2(sys.space);
                    mkState(s2, s2x, s2y);
                    starts.push_back(s2);
                    note("c02_cases_with_two_valid_starts");
                }
            }
            for (auto &s : starts)
                pdef->addStartState(s);
            int goalKind;
            {
                double r = rng.u01();
                goalKind = r < 0.5 ? 0 : r < 0.8 ? 1 : 2;
                // a third of the sampleable disc goals of the car / double integrator carry a condition on the other coordinates
                if (goalKind == 0 && sk != S_POINT && sk != S_POINTD && rng.coin(0.35)) goalKind = 3;
                // Syclop needs a sampleable goal to locate the goal region; without one it has to return INVALID_GOAL
                if (goalKind == 2 && (pl == P_SYRRT || pl == P_SYEST) && !rng.coin(0.25))
                    goalKind = 0;
            }
            H(goalKind);
            double thr;
            if (goalKind == 1)
            {
                thr = H(rng.uni(0.5, 1.5));
                ob::ScopedState<> g(sys.space);
                mkState(g, gx, gy);
                if (sk == S_DINT)
                {
                    double v[4];
                    sys.comps(g.get(), v);
                    v[2] = v[3] = 0;
                    sys.setComps(g.get(), v);
                }
                auto gs = std::make_shared<ob::GoalState>(si);
                gs->setState(g);
                gs->setThreshold(thr);
                pdef->setGoal(gs);
            }
            else
            {
                thr = H(rng.uni(0.3, 1.0));
                if (goalKind == 3)
                {
                    pdef->setGoal(std::make_shared<XYCondGoal>(si, &sys, gx, gy, thr, rng.uni(-M_PI, M_PI), sk == S_DINT ? rng.uni(0.25, 0.7) * sys.vmax : 0.0));
                    note("c02_cases_goal_with_condition");
                }
                else if (goalKind == 0)
                    pdef->setGoal(std::make_shared<XYGoalSampleable>(si, &sys, gx, gy, thr));
                else
                    pdef->setGoal(std::make_shared<XYGoalRegion>(si, &sys, gx, gy, thr));
            }
            q.pdef = pdef;
            q.goalKind = goalKind;
            q.thr = thr;
        }

        // the objective a drawn SST variant needs on every problem definition it is given
        void applyObjective(const ob::ProblemDefinitionPtr &pdef) const
        {
            if (pl == P_SST && sstStopAtFirst)
            {
                // any solution satisfies the objective -> SST returns at its first exact solution
                auto opt = std::make_shared<ob::PathLengthOptimizationObjective>(si);
                opt->setCostThreshold(opt->infiniteCost());
                pdef->setOptimizationObjective(opt);
            }
        }

        // ---- planner ----------------------------------------------------------------------------------------
        // draws the planner's parameters, constructs it, hands it the problem definition and sets it up (may throw)
        ob::PlannerPtr makePlanner(Rng &rng, const ob::ProblemDefinitionPtr &pdef)
        {
            const double goalBias = H(rng.coin(0.15) ? 0.0 : rng.uni(0.02, 0.3));
            const int cells = rng.range(8, 30);
            const bool explicitProj = sk == S_DINT ? !rng.coin(0.2) : rng.coin(0.6);
            H(cells), H(explicitProj);
            auto proj = [&]() { return std::make_shared<XYProjection>(sys.space, &sys, w, cells); };
            ob::PlannerPtr planner;
            sstStopAtFirst = false, regionalNN = false;
            switch (pl)
            {
                case P_RRT:
                case P_RRTI:
                {
                    auto p = std::make_shared<oc::RRT>(si);
                    p->setGoalBias(goalBias);
                    p->setIntermediateStates(pl == P_RRTI);
                    planner = p;
                    break;
                }
                case P_SST:
                {
                    auto p = std::make_shared<oc::SST>(si);
                    p->setGoalBias(goalBias);
                    double sel = H(rng.logUni(0.1, 1.0));
                    p->setSelectionRadius(sel);
                    p->setPruningRadius(H(sel * rng.uni(0.2, 0.8)));
                    sstStopAtFirst = rng.coin();
                    H(sstStopAtFirst);
                    applyObjective(pdef);
                    planner = p;
                    break;
                }
                case P_EST:
                {
                    auto p = std::make_shared<oc::EST>(si);
                    p->setGoalBias(goalBias);
                    if (rng.coin())
                        p->setRange(H(rng.uni(0.5, 4.0)));
                    if (explicitProj)
                        p->setProjectionEvaluator(proj());
                    planner = p;
                    break;
                }
                case P_KPIECE:
                {
                    auto p = std::make_shared<oc::KPIECE1>(si);
                    p->setGoalBias(goalBias);
                    if (rng.coin())
                        p->setBorderFraction(H(rng.uni(0.3, 0.95)));
                    if (explicitProj)
                        p->setProjectionEvaluator(proj());
                    planner = p;
                    break;
                }
                case P_PDST:
                {
                    auto p = std::make_shared<oc::PDST>(si);
                    p->setGoalBias(goalBias);
                    if (explicitProj)
                        p->setProjectionEvaluator(proj());
                    planner = p;
                    break;
                }
                case P_SYRRT:
                case P_SYEST:
                {
                    auto dec = std::make_shared<XYDecomposition>(rng.range(3, 10), xyb, &sys);
                    H(dec->getNumRegions());
                    if (pl == P_SYRRT)
                    {
                        auto p = std::make_shared<oc::SyclopRRT>(si, dec);
                        regionalNN = rng.coin(0.3);
                        p->setRegionalNearestNeighbors(regionalNN);
                        p->setNumFreeVolumeSamples(rng.range(2000, 20000));
                        if (rng.coin())
                        {
                            p->setNumRegionExpansions(rng.range(5, 100));
                            p->setNumTreeExpansions(rng.range(1, 5));
                        }
                        planner = p;
                    }
                    else
                    {
                        auto p = std::make_shared<oc::SyclopEST>(si, dec);
                        p->setNumFreeVolumeSamples(rng.range(2000, 20000));
                        if (rng.coin())
                        {
                            p->setNumRegionExpansions(rng.range(5, 100));
                            p->setNumTreeExpansions(rng.range(1, 5));
                        }
                        planner = p;
                    }
                    break;
                }
            }
            planner->setProblemDefinition(pdef);
            planner->setup();
            return planner;
        }

        // ---- evaluation budget of one solve() call -------------------------------------------------------------
        unsigned long drawBudget(Rng &rng) const
        {
            unsigned long budget = (unsigned long)(thorough ? rng.logUni(2000, 60000) : rng.logUni(1500, 25000));
            if (pl == P_SST && !sstStopAtFirst)
                budget = budget / 2 + 500;  // always runs the whole budget
            if (creeping)
                budget = 300 + budget % 1700;  // nothing can be reached; a short run gives the approximate paths wanted
            if (regionalNN)
                budget = std::min(budget, 6000ul);  // linear scans over the region's motions: quadratic in the tree size
            return budget;
        }
        // second, equally deterministic bound on the tree size: calls of the harness's propagator by the library
        long callCap() const { return thorough ? 600000 : 300000; }
    };

    // ---- replay oracle ---------------------------------------------------------------------------------------------------
    // where the verdicts and observations of the oracle go: C02 reports "C02:<clause>:<Planner>", C03 re-uses every clause as
    // "C03:solution-<clause>:control::<Planner>"
    struct OracleOut
    {
        Sink &sink;
        std::string keyPre;      // "C02:" / "C03:solution-"
        std::string subj;        // planner part of the key
        std::string interpSubj;  // subject of the interpolated-form clause
        std::string cnt;         // counter prefix ("c02_" / "c03c_")
        std::function<J()> base;
        // optional: returns a complete key that replaces the clause's own (symptoms of one root cause share one key), or ""
        std::function<std::string(const std::string &)> fold;
        void viol(const std::string &clause, const std::string &cls, const J &d) const
        {
            if (fold)
            {
                const std::string k = fold(clause);
                if (!k.empty())
                {
                    sink.viol(k, d);
                    return;
                }
            }
            sink.viol(keyPre + clause + ":" + subj + cls, d);
        }
        void count(const std::string &name, long long n = 1) const { sink.count(cnt + name, n); }
        void maxstat(const std::string &name, double v) const { sink.maxstat(cnt + name, v); }
    };

    struct PathReport
    {
        bool examined = false;  // the path had states and consistent counts, so the clauses below were decided
        size_t controls = 0;
        long steps = 0;
    };

    // One registered solution against the query it was registered for: non-empty, flag vs status of the registering call,
    // first state a valid start, every control (whole step count, bounds, step-by-step replay from the recorded state, every
    // step valid, recorded next state reproduced), last state vs goal / reported difference, interpolated form.
    PathReport checkPath(Scen &sc, const Query &q, const ob::PlannerSolution &sol, const ob::PlannerStatus &st, const OracleOut &o)
    {
        PathReport rep;
        const Sys &sys = sc.sys;
        const auto &si = sc.si;
        const Validity &valid = sc.valid;
        const int sk = sc.sk;
        const std::string &P = sc.P, &S = sc.S;
        const double h = sc.h, tol = sc.tol;
        const unsigned minD = sc.minD, maxD = sc.maxD;
        const ob::ProblemDefinitionPtr &pdef = q.pdef;
        const double gx = q.p.gx, gy = q.p.gy;
        const auto &base = o.base;

        const bool approx = sol.approximate_;
        auto *path = dynamic_cast<oc::PathControl *>(sol.path_.get());
        if (!path || path->getStateCount() == 0)
        {
            o.viol("empty-path", "", base().str("what", path ? "path without states" : "not a PathControl"));
            return rep;
        }
        const std::vector<ob::State *> &states = path->getStates();
        const std::vector<oc::Control *> &controls = path->getControls();
        const std::vector<double> &durs = path->getControlDurations();
        if (states.size() != controls.size() + 1 || durs.size() != controls.size())
        {
            o.viol("empty-path", "", base()
                                         .str("what", "states/controls/durations counts inconsistent")
                                         .u("states", states.size())
                                         .u("controls", controls.size())
                                         .u("durations", durs.size()));
            return rep;
        }
        rep.examined = true;
        rep.controls = controls.size();
        o.count(std::string(approx ? "solutions_approx:" : "solutions_exact:") + P);

        // flag <-> status of the call that registered the path
        {
            const bool statusApprox = st == ob::PlannerStatus::APPROXIMATE_SOLUTION;
            if (approx != statusApprox)
                o.viol("approx-flag-status", "",
                       base().b("flagged_approximate", approx).num("difference", sol.difference_)
                           .num("distanceGoal_last", [&] {
                               auto *gr = dynamic_cast<ob::GoalRegion *>(pdef->getGoal().get());
                               return gr ? gr->distanceGoal(states.back()) : -1.;
                           }())
                           .b("last_satisfies_goal", pdef->getGoal()->isSatisfied(states.back())));
        }

        // first state = a valid start state
        {
            bool isStart = false;
            for (auto &s : q.starts)
                if (sys.space->equalStates(s.get(), states[0]))
                    isStart = true;
            if (!isStart || !valid(states[0]))
                o.viol("start-state", "", base().arr("first", compVec(sys, states[0])).b("is_start", isStart)
                                              .b("valid", valid(states[0])));
            o.count("start_checks");
        }

        ob::State *cur = si->allocState(), *nxt = si->allocState();
        // every control: duration, bounds, replay
        long stepsHere = 0;
        bool durViol[2] = {false, false}, misViol[2] = {false, false}, oobViol = false, invViol = false;
        for (size_t i = 0; i < controls.size(); ++i)
        {
            // input class of this control (part of the key): does one propagation step from the recorded state move
            // the state by less than float epsilon in the state-space metric?
            sys.step(states[i], controls[i], h, nxt);
            const bool subEps = si->distance(states[i], nxt) < std::numeric_limits<float>::epsilon();
            const std::string cls = subEps ? ":steps-below-float-eps" : "";
            if (subEps)
                o.count("controls_with_steps_below_float_eps");
            const double qd = durs[i] / h;
            const double rq = std::floor(qd + 0.5);
            if (!(std::fabs(qd - rq) <= 1e-9) || !(rq >= 1) || !(rq < 1e9))
            {
                if (!durViol[subEps])
                    o.viol("duration-not-multiple", cls,
                           base().u("control_index", i).num("duration", durs[i]).num("ratio", qd));
                durViol[subEps] = true;
                continue;  // nothing sensible to replay for this control
            }
            const long n = (long)rq;
            if ((unsigned long)n < minD)
                o.count("controls_below_min_duration");
            if ((unsigned long)n > maxD)
                o.count("controls_above_max_duration");
            double u[2];
            sys.cvals(controls[i], u);
            if (sys.discrete())
            {
                // discrete control space: the recorded value is one of the space's values dlo..dhi (exact, integers)
                const int k = controls[i]->as<oc::DiscreteControlSpace::ControlType>()->value;
                o.count("discrete_controls_checked");
                if (!(k >= sys.dlo && k <= sys.dhi))
                {
                    if (!oobViol)
                        o.viol("control-oob", "", base().u("control_index", i).i("dim", 0).i("value", k)
                                                      .i("low", sys.dlo).i("high", sys.dhi).i("headings", sys.dn));
                    oobViol = true;
                }
            }
            else
            for (int d = 0; d < 2; ++d)
            {
                const double mlo = std::numeric_limits<double>::epsilon() + 4 * ulp(sys.clo[d]);
                const double mhi = std::numeric_limits<double>::epsilon() + 4 * ulp(sys.chi[d]);
                if (!(u[d] >= sys.clo[d] - mlo && u[d] <= sys.chi[d] + mhi))
                {
                    if (!oobViol)
                        o.viol("control-oob", "", base().u("control_index", i).i("dim", d).num("value", u[d])
                                                      .num("low", sys.clo[d]).num("high", sys.chi[d]));
                    oobViol = true;
                }
            }
            // replay from the RECORDED state i, so one mismatch does not cascade
            si->copyState(cur, states[i]);
            long firstInvalid = -1;
            for (long j = 0; j < n; ++j)
            {
                sys.step(cur, controls[i], h, nxt);
                if (firstInvalid < 0 && !valid(nxt))
                    firstInvalid = j;
                std::swap(cur, nxt);
            }
            stepsHere += n;
            if (firstInvalid >= 0)
            {
                if (!invViol)
                    o.viol("replay-invalid-step", "", base().u("control_index", i).i("steps", n)
                                                          .i("first_invalid_step", firstInvalid + 1)
                                                          .arr("from", compVec(sys, states[i]))
                                                          .arr("control", {u[0], u[1]}));
                invViol = true;
            }
            double va[4], vb[4];
            sys.comps(cur, va);
            sys.comps(states[i + 1], vb);
            double worst = 0;
            bool bitEq = true;
            for (unsigned d = 0; d < sys.ncomp(); ++d)
            {
                if (memcmp(&va[d], &vb[d], sizeof(double)) != 0)
                    bitEq = false;
                double e = std::fabs(va[d] - vb[d]);
                if (sk == S_CAR && d == 2 && e > M_PI)
                    e = 2 * M_PI - e;
                if (!(e <= worst))
                    worst = e;
            }
            o.maxstat("worst_replay_error", worst);
            if (!(worst <= tol))
            {
                if (!misViol[subEps])
                {
                    // diagnosis aid: which step count would have reproduced the recorded state best
                    long bestN = -1;
                    double bestE = std::numeric_limits<double>::infinity();
                    si->copyState(cur, states[i]);
                    for (long j = 1; j <= std::max<long>(n, (long)maxD) + 5; ++j)
                    {
                        sys.step(cur, controls[i], h, nxt);
                        std::swap(cur, nxt);
                        double w2[4], e = 0;
                        sys.comps(cur, w2);
                        for (unsigned d = 0; d < sys.ncomp(); ++d)
                        {
                            double ee = std::fabs(w2[d] - vb[d]);
                            if (sk == S_CAR && d == 2 && ee > M_PI)
                                ee = 2 * M_PI - ee;
                            e = std::max(e, ee);
                        }
                        if (e < bestE)
                            bestE = e, bestN = j;
                    }
                    // and one long step of n*h
                    si->copyState(cur, states[i]);
                    sys.step(cur, controls[i], durs[i], nxt);
                    double w3[4], eLong = 0;
                    sys.comps(nxt, w3);
                    for (unsigned d = 0; d < sys.ncomp(); ++d)
                        eLong = std::max(eLong, std::fabs(w3[d] - vb[d]));
                    o.viol("replay-mismatch", cls,
                           base().u("control_index", i).u("controls", controls.size()).i("steps", n)
                               .num("error", worst).num("tolerance", tol)
                               .arr("from", compVec(sys, states[i])).arr("control", {u[0], u[1]})
                               .arr("recorded_next", compVec(sys, states[i + 1]))
                               .arr("replayed_next", std::vector<double>(va, va + sys.ncomp()))
                               .i("best_matching_step_count", bestN).num("error_at_best", bestE)
                               .num("error_of_single_long_step", eLong));
                }
                misViol[subEps] = true;
            }
            else
            {
                o.count(bitEq ? "replay_bitwise_equal" : "replay_tolerance_equal_only");
                if (!bitEq)
                    o.count("replay_tolerance_equal_only:" + P + cls);
            }
            o.count("controls_replayed");
            if (n >= 2)
            {
                o.count("multistep_controls");
                if (sk == S_DINT)
                {
                    // sensitivity of the oracle: would one long Euler step have been told apart?
                    si->copyState(cur, states[i]);
                    sys.step(cur, controls[i], durs[i], nxt);
                    double w3[4], eLong = 0;
                    sys.comps(nxt, w3);
                    for (unsigned d = 0; d < 4; ++d)
                        eLong = std::max(eLong, std::fabs(w3[d] - vb[d]));
                    if (eLong > tol)
                        o.count("dint_controls_where_long_step_differs");
                }
            }
        }
        rep.steps = stepsHere;
        o.count("steps_replayed", stepsHere);
        o.maxstat("max_controls_in_path", (double)controls.size());

        // last state vs goal
        const ob::State *last = states.back();
        auto *gr = dynamic_cast<ob::GoalRegion *>(pdef->getGoal().get());
        if (!approx)
        {
            o.count("goal_checks_exact");
            if (!pdef->getGoal()->isSatisfied(last))
                o.viol("goal-not-satisfied", "",
                       base().arr("last", compVec(sys, last)).num("distanceGoal", gr ? gr->distanceGoal(last) : -1.)
                           .arr("goal_xy", {gx, gy}));
        }
        else
        {
            o.count("goal_checks_approx");
            const double dg = gr->distanceGoal(last);
            if (!(std::fabs(sol.difference_ - dg) <= tol))
                o.viol("approx-difference", "", base().num("reported_difference", sol.difference_)
                                                    .num("distanceGoal_last", dg)
                                                    .arr("last", compVec(sys, last)));
            if (pdef->getGoal()->isSatisfied(last))
                o.count("approx_flag_but_goal_satisfied");
        }
        // the interpolated form (PathControl::interpolate(): one control per propagation step) is the library's own way of
        // applying the recorded controls for their recorded durations: one state per step, every duration one step, same end
        if (!durViol[0] && !durViol[1] && !misViol[0] && !misViol[1] && !controls.empty())
        {
            oc::PathControl ip(*path);
            ip.interpolate();
            o.count("interpolated_forms_checked");
            std::string bad;
            if ((long)ip.getStateCount() != 1 + stepsHere || (long)ip.getControlCount() != stepsHere)
                bad = "state/control count differs from the number of recorded steps";
            else
            {
                for (double d : ip.getControlDurations())
                    if (!(std::fabs(d - h) <= 1e-9 * h)) bad = "a duration of the interpolated form is not one step";
                double va[4], vb[4];
                sys.comps(ip.getState(ip.getStateCount() - 1), va);
                sys.comps(last, vb);
                for (unsigned d = 0; d < sys.ncomp() && bad.empty(); ++d)
                {
                    double e = std::fabs(va[d] - vb[d]);
                    if (sk == S_CAR && d == 2 && e > M_PI) e = 2 * M_PI - e;
                    if (!(e <= tol)) bad = "the interpolated form ends at a different state";
                }
            }
            if (!bad.empty())
                o.sink.viol(o.keyPre + "interpolated-form:" + o.interpSubj, base().str("what", bad).i("recorded_steps", stepsHere).u("interpolated_states", ip.getStateCount())
                                                                                .u("controls", controls.size()).num("step_size", h).str("planner", P));
        }
        if (controls.size() >= 2)
        {
            o.count("replayed:" + P);
            o.count("replayed_sys:" + S);
            o.count("replayed:" + P + ":" + S);
        }
        else
            o.count("short_paths_lt2_controls");
        si->freeState(cur);
        si->freeState(nxt);
        return rep;
    }

    // ======================================================================================================================
    // C02
    // ======================================================================================================================
    void runCaseImpl(Sink &sink, const Args &a, long c, std::string &label);
    // C03 / C20 keep their three-system numbering (a fourth residue would renumber every case); `--force-sys 3` (manual
    // runs only, never passed by the driver) runs every C03 / C20 case on the given system instead, e.g. pointd
    int pickSys(const Args &a, int sk)
    {
        const std::string f = a.get("force-sys", "");
        if (f.empty()) return sk;
        const int v = atoi(f.c_str());
        return v >= 0 && v <= S_POINTD ? v : sk;
    }
    long c02BaseCases(const Args &a) { return (long)((a.thorough() ? 22000 : 6000) * a.scale); }
    long c02DiscreteCases(const Args &a) { return (long)((a.thorough() ? 1600 : 400) * a.scale); }

    void runCase(Sink &sink, const Args &a, long c)
    {
        // wall-clock is a statistic only (slowest case, for budgeting); it never influences a case or a verdict
        const auto t0 = std::chrono::steady_clock::now();
        std::string label;
        runCaseImpl(sink, a, c, label);
        const double dt = std::chrono::duration<double>(std::chrono::steady_clock::now() - t0).count();
        sink.maxstat("c02_slowest_case_seconds", dt);
        if (dt > 10)
        {
            sink.count("c02_cases_over_10s");
            fprintf(stderr, "slow case %ld (%s): %.1f s\n", c, label.c_str(), dt);
        }
    }

    void runCaseImpl(Sink &sink, const Args &a, long c, std::string &label)
    {
        Rng rng(caseSeed(a, c));
        const uint32_t libSeed = (uint32_t)(caseSeed(a, c, 1) % 1000000000ULL + 1);
        ompl::RNG::setSeed(libSeed);

        // cases 0..c02BaseCases-1: the three real-vector-control systems; the block appended after them (so that the
        // earlier cases keep their numbers and random streams): the discrete-control point robot, planner rotated by
        // index/16 so that every shard sees every planner
        const long nbase = c02BaseCases(a);
        int pl, sk;
        if (c < nbase)
        {
            const int combo = (int)((c + c / 16) % 24);
            pl = combo % 8, sk = combo / 8;
        }
        else
        {
            const long k = c - nbase;
            pl = (int)((k + k / 16) % 8), sk = S_POINTD;
            sink.count("c02_cases_discrete_control_system");
        }
        const std::string P = PLANNERS[pl], S = SYSTEMS[sk];
        label = P + "/" + S;

        Scen sc;
        sc.pl = pl, sc.sk = sk, sc.P = P, sc.S = S;
        sc.thorough = a.thorough();
        sc.slowfrac = atof(a.get("slowfrac", "0.03").c_str());
        sc.gsink = &sink;
        sc.hash = hmix(hmix(hashStr(P), hashStr(S)), libSeed);
        uint64_t &hash = sc.hash;
        auto H = [&](double v) { return sc.H(v); };

        if (!sc.genWorld(rng))
        {
            sink.inconclusive("world-generation");
            sink.noteCase(hash, false);
            return;
        }
        sc.genSystem(rng);
        Query q;
        q.p = sc.pos;
        sc.genQuery(rng, q);
        ob::PlannerPtr planner;
        try
        {
            planner = sc.makePlanner(rng, q.pdef);
        }
        catch (std::exception &e)
        {
            sink.inconclusive("setup-exception:" + P);
            sink.noteCase(hash, false);
            return;
        }
        const World &w = sc.w;
        Sys &sys = sc.sys;
        const auto &pdef = q.pdef;
        const double h = sc.h, thr = q.thr, cscale = sc.cscale;
        const unsigned minD = sc.minD, maxD = sc.maxD;
        const int goalKind = q.goalKind;
        const bool creeping = sc.creeping;
        const double sx = q.p.sx, sy = q.p.sy, gx = q.p.gx, gy = q.p.gy;

        // ---- run --------------------------------------------------------------------------------------------
        // Termination by evaluation count only.  In 1 of 3 cases the same planner instance (no clear()) is driven through
        // 2-3 consecutive solve() calls whatever the earlier calls returned, with drawn budgets (half of the later ones
        // tiny: 10-100 evaluations) and, per gap with probability 1/2, pdef->clearSolutionPaths() in between.  Every path
        // registered by any call is examined together with the status of the call that registered it.
        const unsigned long budget = sc.drawBudget(rng);
        // second, equally deterministic bound on the tree size: calls of the harness's propagator by the library, summed
        // over the calls of the case; a continued call is always granted at least 20000 of them
        const long callCap = sc.callCap();
        const int phases = rng.coin(1.0 / 3) ? rng.range(2, 3) : 1;
        std::vector<unsigned long> limits(phases, budget);
        std::vector<bool> clearBefore(phases, false);
        if (phases > 1)
        {
            const double r = rng.u01();
            if (r < 0.2)
                limits[0] = (unsigned long)rng.logUni(10, 300);  // a first call that hardly gets anywhere
            else if (r < 0.4)
                limits[0] = budget / 3 + 1;
            for (int ph = 1; ph < phases; ++ph)
            {
                limits[ph] = (unsigned long)(rng.coin() ? rng.logUni(10, 100) : rng.logUni(100, budget / 2. + 101));
                clearBefore[ph] = rng.coin();
            }
        }
        H(phases);
        for (int ph = 0; ph < phases; ++ph)
            H((double)limits[ph]), H(clearBefore[ph]);
        unsigned long evals = 0, evalsTotal = 0;
        ob::ProblemDefinition *pd = pdef.get();
        sys.ps = PropStats();
        ob::PlannerStatus st = ob::PlannerStatus::UNKNOWN;
        struct Found
        {
            ob::PlannerSolution sol;  // holds the path alive, so path addresses identify registrations uniquely
            ob::PlannerStatus status;
            int phase;
            unsigned long limit, evals;
            bool clearedBefore, exactExistedBefore;
        };
        std::vector<Found> found;
        std::set<const ob::Path *> seen;
        int curCall = 0;
        bool curCleared = false, curExactBefore = false;
        unsigned long curLimit = budget;
        auto base = [&]() {
            J j;
            j.str("planner", P).str("system", S).str("status", st.asString()).u("lib_seed", libSeed);
            j.num("step", h).u("min_steps", minD).u("max_steps", maxD).u("budget", curLimit).u("evals", evals);
            j.i("goal_kind", goalKind).num("threshold", thr).u("n_obstacles", w.obs.size()).i("solve_calls", phases);
            if (phases > 1)
            {
                std::vector<double> lim(limits.begin(), limits.end()), clr(clearBefore.begin(), clearBefore.end());
                j.i("call", curCall).arr("call_budgets", lim).arr("cleared_paths_before_call", clr);
                j.b("exact_solution_existed_before_call", curExactBefore);
            }
            if (creeping)
                j.num("control_scale", cscale);
            return j;
        };
        bool abandoned = false, everCleared = false, everExact = false;
        long maxCalls = 0;
        for (int ph = 0; ph < phases && !abandoned; ++ph)
        {
            if (clearBefore[ph])
            {
                pdef->clearSolutionPaths();
                everCleared = true;
                sink.count("c02_clearSolutionPaths_between_calls");
            }
            // "or an exact solution was registered" ends a call early only if none was there when the call began;
            // otherwise a continued call would return at once
            const bool stopOnExact = !pdef->hasExactSolution();
            const unsigned long limit = limits[ph];
            const PropStats *pstats = &sys.ps;
            const long callsAtStart = sys.ps.calls;
            evals = 0;
            curCall = ph, curCleared = clearBefore[ph], curExactBefore = everExact, curLimit = limit;
            const long callAllowance = std::max(callCap - callsAtStart, 20000l);
            ob::PlannerTerminationCondition ptc([&evals, limit, pd, pstats, callAllowance, callsAtStart, stopOnExact] {
                return ++evals > limit || pstats->calls - callsAtStart > callAllowance ||
                       (stopOnExact && pd->hasExactSolution());
            });
            try
            {
                st = planner->solve(ptc);
            }
            catch (std::exception &e)
            {
                sink.inconclusive("solve-exception:" + P);
                sink.noteCase(hash, false);
                return;
            }
            evalsTotal += evals;
            if (sys.ps.calls - callsAtStart > callAllowance)
                maxCalls = callCap + 1;  // marks "some call was ended by the propagation cap"
            sink.count("c02_solve_calls");
            if (ph > 0)
            {
                sink.count("c02_continued_solve_calls");
                if (everExact)
                    sink.count("c02_continued_solve_calls_after_exact_solution");
                if (limit <= 100)
                    sink.count("c02_continued_solve_calls_tiny_budget");
            }
            sink.count("c02_status:" + st.asString());
            const bool solStatus =
                st == ob::PlannerStatus::EXACT_SOLUTION || st == ob::PlannerStatus::APPROXIMATE_SOLUTION;
            size_t added = 0;
            for (const auto &sol : pdef->getSolutions())
                if (seen.insert(sol.path_.get()).second)
                {
                    found.push_back(Found{sol, st, ph, limit, evals, curCleared, curExactBefore});
                    ++added;
                    if (ph > 0)
                    {
                        sink.count("c02_paths_registered_by_continued_calls");
                        if (everExact)
                        {
                            sink.count(std::string("c02_paths_registered_after_exact_solution_") +
                                       (sol.approximate_ ? "approx" : "exact"));
                            sink.count("c02_paths_registered_after_exact_solution:" + P);
                        }
                    }
                }
            if (!solStatus && added > 0)
            {
                // a non-solution status must not register a path
                sink.viol("C02:nonsolution-added-path:" + P, base().u("paths_added_by_call", added));
                abandoned = true;
            }
            if (solStatus && pdef->getSolutionCount() == 0)
            {
                if (!everCleared)
                {
                    sink.viol("C02:empty-path:" + P,
                              base().str("what", "solution status but the problem definition has no path"));
                    abandoned = true;
                }
                else  // the harness emptied the list itself; the statement has no path to speak about (observation only)
                    sink.count("c02_solution_status_without_path_after_clearSolutionPaths:" + P);
            }
            if (solStatus && added == 0 && pdef->getSolutionCount() > 0)
                sink.count("c02_solution_status_without_new_path:" + P);
            if (pdef->hasExactSolution())
                everExact = true;
            for (const auto &f : found)
                if (!f.sol.approximate_)
                    everExact = true;
        }
        evals = evalsTotal;
        const PropStats libStats = sys.ps;
        sink.count("c02_lib_propagator_calls", libStats.calls);
        sink.count("c02_lib_propagator_calls_dt_not_step", libStats.notStep);
        sink.count("c02_lib_propagator_calls_in_place", libStats.aliased);
        sink.count("c02_ptc_evaluations", (long long)evals);
        if (maxCalls > callCap)
            sink.count("c02_cases_stopped_by_propagation_cap");
        if (abandoned)
        {
            sink.noteCase(hash, false);
            return;
        }
        if (found.empty())
        {
            sink.count("c02_nosolution:" + P);
            sink.inconclusive("no-solution");
            sink.noteCase(hash, false);
            return;
        }
        sink.count("c02_solutions_registered", (long long)found.size());
        if (found.size() > 1)
            sink.count("c02_cases_with_several_registered_paths");

        OracleOut out{sink, "C02:", P, "PathControl", "c02_", base, nullptr};
        bool nontrivial = false;
        for (size_t k = 0; k < found.size(); ++k)
        {
            const ob::PlannerSolution &sol = found[k].sol;
            // base() reports the call that registered this path: its status, budget and history
            st = found[k].status;
            curCall = found[k].phase, curLimit = found[k].limit, evals = found[k].evals;
            curCleared = found[k].clearedBefore, curExactBefore = found[k].exactExistedBefore;
            const PathReport rep = checkPath(sc, q, sol, st, out);
            if (!rep.examined)
                continue;
            if (rep.controls >= 2)
                nontrivial = true;
            if (nontrivial && k == 0)
            {
                auto *path = static_cast<oc::PathControl *>(sol.path_.get());
                const auto &controls = path->getControls();
                sink.sample(base().u("controls", controls.size()).i("steps", rep.steps).b("approximate", sol.approximate_)
                                .num("difference", sol.difference_).arr("world", {w.x0, w.y0, w.W, w.H})
                                .arr("start_xy", {sx, sy}).arr("goal_xy", {gx, gy})
                                .arr("control_low", {sys.clo[0], sys.clo[1]}).arr("control_high", {sys.chi[0], sys.chi[1]})
                                .arr("first_control", [&] {
                                    double fu[2];
                                    sys.cvals(controls[0], fu);
                                    return std::vector<double>{fu[0], fu[1]};
                                }())
                                .num("first_duration", path->getControlDurations()[0]).arr("last", compVec(sys, path->getStates().back())));
            }
        }
        sink.noteCase(hash, nontrivial);
    }

    // ======================================================================================================================
    // C03 (control planners): interruption at every evaluation index, resumed solves, clear / new-query histories, and the
    // memory clause on state- and control-counting spaces.  Mirrors c03 of h_planners.cpp.
    // ======================================================================================================================

    // the evaluation-counting termination condition of C02 (evaluation limit, propagation cap, "an exact solution was
    // registered") as an object that also records how often it was evaluated after it first fired; it stays true once fired
    struct EvalCond
    {
        unsigned long evals = 0, after = 0, limit;
        bool fired = false, stopOnExact;
        const ob::ProblemDefinition *pd;
        const PropStats *ps;
        long callsAtStart, callAllowance;
        ob::PlannerTerminationCondition ptc;
        EvalCond(unsigned long limit_, bool stopOnExact_, const ob::ProblemDefinition *pd_, const PropStats *ps_, long callAllowance_)
          : limit(limit_), stopOnExact(stopOnExact_), pd(pd_), ps(ps_), callsAtStart(ps_->calls), callAllowance(callAllowance_)
          , ptc([this] { return eval(); })
        {
        }
        EvalCond(const EvalCond &) = delete;
        bool eval()
        {
            vf::heartbeat();
            ++evals;
            if (fired)
            {
                ++after;
                return true;
            }
            if (evals > limit || ps->calls - callsAtStart > callAllowance || (stopOnExact && pd->hasExactSolution()))
                fired = true;
            return fired;
        }
    };

    const char *statusName(const ob::PlannerStatus &st)
    {
        static std::string s;
        s = st.asString();
        return s.c_str();
    }

    // everything one C03 scope owns; destroyed in reverse order of declaration: planner, queries, scenario.  The trackers
    // are held by the caller and outlive it.
    struct C3Scope
    {
        std::unique_ptr<Scen> sc;
        std::unique_ptr<Query> q;
        ob::PlannerPtr planner;
    };

    struct C3
    {
        Sink &sink;
        std::string P, subj, S;
        uint64_t scenSeed = 0;
        uint32_t libSeed = 0;
        std::string cfg;      // drawn planner configuration that matters for the diagnosis
        std::string hist;     // calls made so far in this scope
        bool dirty = false;   // a new problem definition was given to a planner that still held its previous query
        J detail(const std::string &what) const
        {
            J j;
            j.str("planner", subj).str("system", S).str("what", what).str("history", hist).u("lib_seed", libSeed);
            if (!cfg.empty()) j.str("planner_config", cfg);
            j.str("scenario_seed", std::to_string(scenSeed)).b("after_setProblemDefinition_without_clear", dirty);
            return j;
        }
        void viol(const std::string &clause, const J &d) const { sink.viol("C03:" + clause + ":" + subj, d); }
    };

    struct CallResult
    {
        ob::PlannerStatus status = ob::PlannerStatus::UNKNOWN;
        bool threw = false;
        std::string what;
        std::vector<ob::PlannerSolution> added;
        unsigned long evals = 0, after = 0;
    };

    // builds world, system, first query and planner of a scenario from one seed (deterministic: the same seed and library
    // seed give the same scenario and the same planner run).  Returns "" or the reason why there is none.
    std::string buildScope(C3Scope &s, uint64_t scenSeed, int pl, int sk, const Args &a, const std::shared_ptr<Tracker> &stTr,
                           const std::shared_ptr<Tracker> &ctTr, Rng &rng, bool withPlanner = true)
    {
        s.sc.reset(new Scen());
        Scen &sc = *s.sc;
        sc.pl = pl, sc.sk = sk, sc.P = PLANNERS[pl], sc.S = SYSTEMS[sk];
        sc.thorough = a.thorough();
        sc.slowfrac = 0.0;  // creeping systems are C02's business
        sc.stTr = stTr, sc.ctTr = ctTr;
        sc.hash = scenSeed;
        if (!sc.genWorld(rng))
            return "world-generation";
        sc.genSystem(rng);
        s.q.reset(new Query());
        s.q->p = sc.pos;
        sc.genQuery(rng, *s.q);
        if (!withPlanner)
            return "";
        try
        {
            s.planner = sc.makePlanner(rng, s.q->pdef);
        }
        catch (std::exception &e)
        {
            return std::string("setup-exception:") + sc.P;
        }
        return "";
    }

    // one solve() call under the status / solution-set oracle; every path the call added goes through the replay oracle
    CallResult solveCall(C3 &cx, C3Scope &s, unsigned long limit, bool stopOnExact, const std::string &what)
    {
        CallResult r;
        Sink &sink = cx.sink;
        Scen &sc = *s.sc;
        Query &q = *s.q;
        const auto &pdef = q.pdef;
        std::set<const ob::Path *> before;
        const std::vector<ob::PlannerSolution> beforeSols = pdef->getSolutions();  // keeps the paths alive: addresses stay unique
        for (auto &x : beforeSols) before.insert(x.path_.get());
        EvalCond e(limit, stopOnExact, pdef.get(), &sc.sys.ps, std::max(sc.callCap() / 2, 20000l));
        try
        {
            r.status = s.planner->solve(e.ptc);
        }
        catch (const std::exception &ex)
        {
            r.threw = true;
            r.what = ex.what();
        }
        r.evals = e.evals;
        r.after = e.after;
        for (auto &x : pdef->getSolutions())
            if (!before.count(x.path_.get())) r.added.push_back(x);
        sink.count("c03c_solve_calls");
        sink.count("c03c_ptc_evaluations", (long long)r.evals);
        sink.maxstat("c03c_max_evaluations_after_fire", (double)r.after);
        auto detail = [&](const std::string &w) {
            return cx.detail(w).str("call", what).u("limit", limit).u("evals", r.evals).u("evals_after_fire", r.after)
                .str("status", r.threw ? "exception" : statusName(r.status));
        };
        if (r.threw)
        {
            sink.count("c03c_solve_threw:" + cx.P);
            if (!r.added.empty()) cx.viol("exception-added-path", detail("solve() threw but added a solution path").str("exception", r.what));
            return r;
        }
        // (a) bounded number of further evaluations
        if (r.after > 64)
            cx.viol("evaluations-after-termination", detail("solve() kept evaluating the termination condition after it fired"));
        sink.count(std::string("c03c_status:") + statusName(r.status));
        // (b) the status describes the call that returned it
        const bool solStatus = r.status == ob::PlannerStatus::EXACT_SOLUTION || r.status == ob::PlannerStatus::APPROXIMATE_SOLUTION;
        // (after setProblemDefinition(new) without clear() a status that speaks about the previous query's solution is one more
        // symptom of the planner not having forgotten it)
        auto staleOr = [&](const std::string &clause) { return cx.dirty ? std::string("stale-query-after-setProblemDefinition") : clause; };
        if (solStatus && r.added.empty())
        {
            if (pdef->getSolutionCount() == 0)
                cx.viol(staleOr("status-without-path"), detail("solution status but the problem definition holds no solution path"));
            else
                sink.count("c03c_solution_status_without_new_path");
        }
        if (!solStatus && !r.added.empty())
            cx.viol("nonsolution-added-path", detail("non-solution status but a path was added").u("added", r.added.size()));
        if (r.status == ob::PlannerStatus::EXACT_SOLUTION && !pdef->hasExactSolution() && !(solStatus && r.added.empty() && pdef->getSolutionCount() == 0))
            cx.viol(staleOr("exact-status-no-exact-solution"), detail("status EXACT_SOLUTION but the problem definition holds no exact solution"));
        // (c) every added path: the complete replay oracle of C02, for the query the planner was asked
        OracleOut out{sink, "C03:solution-", cx.subj, cx.subj, "c03c_",
                      [&]() {
                          J j = detail("path added by this call");
                          j.num("step", sc.h).u("min_steps", sc.minD).u("max_steps", sc.maxD).i("goal_kind", q.goalKind);
                          j.num("threshold", q.thr).u("n_obstacles", sc.w.obs.size()).arr("start_xy", {q.p.sx, q.p.sy});
                          j.arr("goal_xy", {q.p.gx, q.p.gy});
                          return j;
                      },
                      [&](const std::string &clause) {
                          // after setProblemDefinition(new) without clear(): end points of the previous query are symptoms
                          // of one root cause (the planner did not forget it) and share one key per planner
                          if (cx.dirty && (clause == "start-state" || clause == "goal-not-satisfied" || clause == "approx-difference"))
                              return "C03:stale-query-after-setProblemDefinition:" + cx.subj;
                          return std::string();
                      }};
        for (auto &sol : r.added)
        {
            const PathReport rep = checkPath(sc, q, sol, r.status, out);
            sink.count("c03c_paths_replayed");
            if (rep.examined)
                sink.count("c03c_paths_replayed:" + cx.P);
        }
        // top-ranked solution vs accessor agreement
        const auto sols = pdef->getSolutions();
        if (!sols.empty() && (pdef->hasApproximateSolution() != sols[0].approximate_ || pdef->getSolutionDifference() != sols[0].difference_))
            cx.viol("top-accessors", detail("hasApproximateSolution/getSolutionDifference disagree with the top-ranked solution"));
        return r;
    }

    // (d) a resumed solve() keeps or improves what the problem definition reports
    void resumeCheck(C3 &cx, const std::vector<ob::PlannerSolution> &before, const std::vector<ob::PlannerSolution> &after)
    {
        if (before.empty()) return;
        cx.sink.count("c03c_resume_checks");
        bool exactBefore = false, exactAfter = false;
        for (auto &x : before) exactBefore |= !x.approximate_;
        for (auto &x : after) exactAfter |= !x.approximate_;
        if (after.empty())
            cx.viol("solution-lost", cx.detail("resumed solve() lost the reported solution"));
        else if (exactBefore && !exactAfter)
            cx.viol("resume-worse", cx.detail("an exact solution was held before the resumed solve() but none afterwards"));
        else if (!before[0].approximate_ && after[0].approximate_)
            cx.viol("resume-worse", cx.detail("exact top-ranked solution replaced by an approximate one after resumed solve()"));
        else if (before[0].approximate_ && after[0].approximate_ && after[0].difference_ > before[0].difference_)
            cx.viol("resume-worse", cx.detail("difference of the top-ranked approximate solution got larger after resumed solve()")
                                        .num("before", before[0].difference_).num("after", after[0].difference_));
    }

    // memory clause: call after the whole scope (planner, problem definitions, paths, planner data) has been destroyed
    void leakCheck(C3 &cx, const Tracker &stTr, const Tracker &ctTr, bool exported)
    {
        cx.sink.count("c03c_leak_scopes_checked");
        cx.sink.count("c03c_states_allocated", stTr.allocs);
        cx.sink.count("c03c_controls_allocated", ctTr.allocs);
        const std::string sfx = exported ? "-after-getPlannerData" : "";
        // input class in the key: SyclopRRT keeps its motions in a different structure when regional nearest neighbours are on
        const std::string cls = cx.cfg == "regionalNearestNeighbors=true" ? ":regional-nn" : "";
        if (stTr.liveCount() > 0)
            cx.sink.viol("C03:leak-states" + sfx + ":" + cx.subj + cls, cx.detail("states still allocated after planner, problem definition, paths and planner data were destroyed")
                                            .i("leaked", stTr.liveCount()).i("allocated", stTr.allocs));
        if (ctTr.liveCount() > 0)
            cx.sink.viol("C03:leak-controls" + sfx + ":" + cx.subj + cls, cx.detail("controls still allocated after planner, problem definition, paths and planner data were destroyed")
                                              .i("leaked", ctTr.liveCount()).i("allocated", ctTr.allocs));
        if (stTr.badFrees > 0)
            cx.viol("bad-free", cx.detail("freeState() called on a pointer that is not a live state (double free)").i("n", stTr.badFrees));
        if (ctTr.badFrees > 0)
            cx.viol("bad-free", cx.detail("freeControl() called on a pointer that is not a live control (double free)").i("n", ctTr.badFrees));
    }

    // evaluation budget of a normal solve() call: the budget C02 draws for the scenario (quick 1500..25000), capped in the
    // thorough tier (2000..60000 there)
    unsigned long c03Budget(const Scen &sc, Rng &rng, const Args &a)
    {
        const unsigned long drawn = sc.drawBudget(rng);
        return std::min<unsigned long>(drawn, a.thorough() ? 30000ul : 25000ul);
    }

    std::string configOf(const Scen &sc)
    {
        if (sc.pl == P_SYRRT) return sc.regionalNN ? "regionalNearestNeighbors=true" : "regionalNearestNeighbors=false";
        if (sc.pl == P_SST) return sc.sstStopAtFirst ? "objective satisfied by any solution" : "default objective";
        return "";
    }

    void c03Interrupt(Sink &sink, const Args &a, long c, int pl, long block, long combo, int nblocks, int blockSize)
    {
        const std::string P = PLANNERS[pl];
        const int sk = pickSys(a, (int)((pl + combo) % 3));
        const uint32_t libSeed = (uint32_t)(caseSeed(a, c, 1) % 1000000000ULL + 1);
        // the scenario belongs to (planner, combo): all blocks of k interrupt the same problem.  Scenarios without a usable
        // query (only invalid start states; Syclop without a sampleable goal) are left to the history part.
        uint64_t scenSeed = 0;
        unsigned long budget = 0;
        std::string cfg;
        bool have = false;
        for (int salt = 0; salt < 50 && !have; ++salt)
        {
            scenSeed = hmix(hmix(hmix(splitmix(a.seed), 0xC03C), (uint64_t)(pl * 100 + combo)), (uint64_t)salt);
            Rng r(scenSeed);
            C3Scope s;
            ompl::RNG::setSeed(libSeed);
            if (!buildScope(s, scenSeed, pl, sk, a, nullptr, nullptr, r, true).empty()) continue;
            if (s.q->onlyInvalidStarts) continue;
            if ((pl == P_SYRRT || pl == P_SYEST) && s.q->goalKind == 2) continue;
            budget = c03Budget(*s.sc, r, a);
            cfg = configOf(*s.sc);
            have = true;
        }
        if (!have)
        {
            sink.inconclusive("c03-no-scenario");
            sink.noteCase(0, false);
            return;
        }
        C3 cx{sink, P, "control::" + P, SYSTEMS[sk], scenSeed, libSeed, cfg, "", false};
        // one scope: fresh scenario + planner from the same seeds
        auto fresh = [&](C3Scope &s, const std::shared_ptr<Tracker> &stTr, const std::shared_ptr<Tracker> &ctTr) {
            Rng r(scenSeed);
            ompl::RNG::setSeed(libSeed);
            return buildScope(s, scenSeed, pl, sk, a, stTr, ctTr, r, true).empty();
        };
        std::vector<long> ks;
        long K1 = -1;
        if (block < nblocks - 1)
            for (long k = block * blockSize; k < (block + 1) * blockSize; ++k) ks.push_back(k);
        else
        {
            // calibration: evaluation index at which the run first holds an exact solution
            {
                C3Scope s;
                if (fresh(s, nullptr, nullptr))
                {
                    EvalCond e(budget, true, s.q->pdef.get(), &s.sc->sys.ps, std::max(s.sc->callCap() / 2, 20000l));
                    try
                    {
                        s.planner->solve(e.ptc);
                        if (s.q->pdef->hasExactSolution()) K1 = (long)e.evals;
                    }
                    catch (const std::exception &)
                    {
                    }
                }
            }
            const long base = (long)(nblocks - 1) * blockSize;
            for (long k = base; k < (long)budget + 50; k = (long)(k * 1.35) + 1) ks.push_back(k);
            if (K1 > 0)
                for (long d = -2; d <= 2; ++d)
                    if (K1 + d >= 0) ks.push_back(K1 + d);
            sink.count(K1 > 0 ? "c03c_calibrated" : "c03c_calibration_no_solution");
            if (K1 > 0) sink.maxstat("c03c_max_K1", (double)K1);
        }
        long calls = 0;
        for (long k : ks)
        {
            auto stTr = std::make_shared<Tracker>(), ctTr = std::make_shared<Tracker>();
            cx.hist = "interrupt@" + std::to_string(k);
            cx.dirty = false;
            const long violBefore = sink.violTotal();
            {
                C3Scope s;
                if (!fresh(s, stTr, ctTr))
                {
                    sink.count("c03c_setup_threw:" + P);
                    break;
                }
                CallResult r = solveCall(cx, s, (unsigned long)k, true, "interrupted solve");
                ++calls;
                sink.count("c03c_interrupted_solves");
                sink.count("c03c_interrupted:" + P);
                if (!r.added.empty()) sink.count("c03c_interrupted_with_solution");
                if (s.q->pdef->hasExactSolution()) sink.count("c03c_interrupted_with_exact_solution");
                // every fourth k: a resumed solve() with a normal budget on the same planner
                if (k % 4 == 1 && !r.threw)
                {
                    cx.hist += ",solve";
                    const auto before = s.q->pdef->getSolutions();
                    CallResult r2 = solveCall(cx, s, std::max(200ul, budget / 3), !s.q->pdef->hasExactSolution(), "resumed solve");
                    ++calls;
                    sink.count("c03c_resumed_solves");
                    if (!r2.added.empty()) sink.count("c03c_resumed_with_new_path");
                    if (!r2.threw) resumeCheck(cx, before, s.q->pdef->getSolutions());
                }
            }
            // a leak is found when a scope ends: it is not a consequence of an earlier violation and the scopes of later k are
            // independent of it, so unlike the other clauses it does not end the enumeration
            const bool otherViolation = sink.violTotal() != violBefore;
            leakCheck(cx, *stTr, *ctTr, false);
            if (otherViolation) break;  // one witness per case; later k would repeat the same cause
        }
        sink.noteCase(hmix(caseSeed(a, c, 2), (uint64_t)(block * 131 + combo * 8 + pl)), calls >= 2);
        if (block == 0 || block == nblocks - 1)
            sink.sample(J().str("kind", "C03 control interruption block").str("planner", cx.subj).str("system", SYSTEMS[sk])
                            .i("k_from", ks.empty() ? -1 : ks.front()).i("k_to", ks.empty() ? -1 : ks.back()).i("K1", K1)
                            .u("budget", budget).i("solve_calls", calls), 6);
    }

    const char *OPN[] = {"solve", "solve0", "clear", "clearQuery", "clear+setProblemDefinition", "setProblemDefinition",
                         "getPlannerData", "newQueryOnPdef+clear"};
    enum
    {
        OP_SOLVE,
        OP_SOLVE0,
        OP_CLEAR,
        OP_CLEARQUERY,
        OP_NEWPDEF_CLEAR,
        OP_NEWPDEF,
        OP_PDATA,
        OP_SAMEPDEF_CLEAR,
        OP_N
    };

    void c03History(Sink &sink, const Args &a, long c, int pl, long hidx)
    {
        const std::string P = PLANNERS[pl];
        const int sk = pickSys(a, (int)((pl + hidx) % 3));
        const uint32_t libSeed = (uint32_t)(caseSeed(a, c, 1) % 1000000000ULL + 1);
        const uint64_t scenSeed = caseSeed(a, c);
        Rng rng(scenSeed);
        C3 cx{sink, P, "control::" + P, SYSTEMS[sk], scenSeed, libSeed, "", "", false};
        auto stTr = std::make_shared<Tracker>(), ctTr = std::make_shared<Tracker>();
        bool exported = false;
        int nsolves = 0, nops = 0;
        {
            C3Scope s;
            ompl::RNG::setSeed(libSeed);
            const std::string why = buildScope(s, scenSeed, pl, sk, a, stTr, ctTr, rng, true);
            if (!why.empty())
            {
                sink.inconclusive("c03-" + why);
                sink.noteCase(0, false);
                return;
            }
            Scen &sc = *s.sc;
            cx.cfg = configOf(sc);
            const unsigned long budget = c03Budget(sc, rng, a);
            int len = 2 + (int)rng.ui(7);
            // the first two histories of every planner are fixed:
            //   0: solve, switch the problem definition without clear(), solve
            //   1: solve, clear(), setProblemDefinition(new), solve, clear(), clear(), getPlannerData()
            static const int H0[] = {OP_SOLVE, OP_NEWPDEF, OP_SOLVE};
            static const int H1[] = {OP_SOLVE, OP_CLEAR, OP_NEWPDEF, OP_SOLVE, OP_CLEAR, OP_CLEAR, OP_PDATA};
            const int *fixedOps = hidx == 0 ? H0 : hidx == 1 ? H1 : nullptr;
            if (hidx == 0) len = 3;
            if (hidx == 1) len = 7;
            bool clean = true;  // the planner holds nothing of an earlier query (fresh, or cleared since the last solve())
            const long violBefore = sink.violTotal();
            bool abandoned = false;
            // a new query in the same world; false if no positions could be placed.  Half of them (and those of the fixed
            // histories) swap the ends of the current query: the new goal lies where the previous search started, so a planner
            // that did not forget its tree reaches it from the previous start
            auto newQuery = [&](const ob::ProblemDefinitionPtr &into) {
                Pos p;
                if (fixedOps || rng.coin())
                {
                    p.sx = s.q->p.gx, p.sy = s.q->p.gy, p.gx = s.q->p.sx, p.gy = s.q->p.sy;
                    if (!sc.drawFree(rng, p.s2x, p.s2y, 0.25)) return false;
                    sink.count("c03c_new_queries_swapped_ends");
                }
                else if (!sc.drawPositions(rng, p))
                    return false;
                if (into)
                {
                    into->clearSolutionPaths();
                    s.q->p = p;
                    sc.genQuery(rng, *s.q, into);
                }
                else
                {
                    std::unique_ptr<Query> nq(new Query());
                    nq->p = p;
                    sc.genQuery(rng, *nq);
                    sc.applyObjective(nq->pdef);
                    s.q = std::move(nq);  // the previous problem definition goes away, as in user code that replaces it
                }
                sink.count("c03c_new_queries");
                return true;
            };
            for (int step = 0; step < len && !abandoned; ++step)
            {
                int op = step == 0 ? OP_SOLVE : (int)rng.ui(OP_N);
                if (fixedOps) op = fixedOps[step];
                cx.hist += std::string(cx.hist.empty() ? "" : ",") + OPN[op];
                sink.count(std::string("c03c_op_") + OPN[op]);
                ++nops;
                // flushed before the operation runs: a crash witness then tells which history led to it
                sink.rawLine(J().str("t", "info").str("history", cx.hist).b("dirty_switch", cx.dirty).done());
                try
                {
                    switch (op)
                    {
                        case OP_SOLVE:
                        case OP_SOLVE0:
                        {
                            const auto before = s.q->pdef->getSolutions();
                            unsigned long limit = op == OP_SOLVE0 ? 0ul : std::max(50ul, (unsigned long)(budget * rng.uni(0.1, 0.6)));
                            // fixed history 0: a full first search, so that the tree the planner should forget is a large one
                            if (hidx == 0 && step == 0) limit = budget;
                            CallResult r = solveCall(cx, s, limit, !s.q->pdef->hasExactSolution(), OPN[op]);
                            ++nsolves;
                            if (cx.dirty) sink.count("c03c_solves_after_dirty_switch");
                            if (clean) sink.count("c03c_first_like_solves");
                            if (!r.threw) resumeCheck(cx, before, s.q->pdef->getSolutions());
                            clean = false;
                            break;
                        }
                        case OP_CLEAR:
                        {
                            s.planner->clear();
                            if (!fixedOps && rng.coin(0.3)) s.planner->clear();  // clear() is idempotent
                            oc::PlannerData pd(sc.si);
                            s.planner->getPlannerData(pd);
                            if (pd.numVertices() != 0)
                                cx.viol("plannerdata-after-clear", cx.detail("getPlannerData() not empty after clear()").u("vertices", pd.numVertices()));
                            sink.count("c03c_clear_checks");
                            clean = true;
                            cx.dirty = false;
                            s.q->pdef->clearSolutionPaths();
                            break;
                        }
                        case OP_CLEARQUERY:
                            s.planner->clearQuery();
                            clean = true;
                            cx.dirty = false;
                            break;
                        case OP_NEWPDEF_CLEAR:
                            s.planner->clear();
                            if (!newQuery(nullptr))
                            {
                                abandoned = true;
                                break;
                            }
                            s.planner->setProblemDefinition(s.q->pdef);
                            clean = true;
                            cx.dirty = false;
                            break;
                        case OP_NEWPDEF:
                            if (!newQuery(nullptr))
                            {
                                abandoned = true;
                                break;
                            }
                            s.planner->setProblemDefinition(s.q->pdef);
                            if (!clean)
                            {
                                cx.dirty = true;
                                sink.count("c03c_dirty_switches");
                            }
                            break;
                        case OP_PDATA:
                        {
                            // alternately with and without control information on the edges
                            std::unique_ptr<ob::PlannerData> pd;
                            const bool withControls = rng.coin();
                            if (withControls) pd.reset(new oc::PlannerData(sc.si));
                            else pd.reset(new ob::PlannerData(sc.si));
                            s.planner->getPlannerData(*pd);
                            // every vertex is a state of this space, every edge control a control of the control space;
                            // touching them lets ASan see stale pointers
                            unsigned long nullControls = 0, edgeControls = 0;
                            for (unsigned i = 0; i < pd->numVertices(); ++i)
                            {
                                const ob::State *st = pd->getVertex(i).getState();
                                if (st) (void)sc.sys.space->satisfiesBounds(st);
                                if (!withControls) continue;
                                std::vector<unsigned int> out;
                                pd->getEdges(i, out);
                                for (unsigned j : out)
                                {
                                    const auto *ec = dynamic_cast<const oc::PlannerDataEdgeControl *>(&pd->getEdge(i, j));
                                    const oc::Control *u = ec ? ec->getControl() : nullptr;
                                    if (!u)
                                    {
                                        ++nullControls;
                                        continue;
                                    }
                                    ++edgeControls;
                                    double v[2];
                                    sc.sys.cvals(u, v);
                                    if (!(std::isfinite(v[0]) && std::isfinite(v[1]) && std::isfinite(ec->getDuration())))
                                        sink.count("c03c_plannerdata_nonfinite_edge_controls");
                                }
                            }
                            sink.count("c03c_plannerdata_edge_controls_read", (long long)edgeControls);
                            if (nullControls)
                            {
                                // control::PlannerData::decoupleFromPlanner() (and PlannerDataStorage) dereference every edge's
                                // control. Observed on the pinned tree for control::PDST (edges leaving a start motion carry its
                                // null control). Using the exported data is not one of the calls C03 quantifies over, so this is
                                // counted as an observation (DESIGN 5.2), not reported; the harness decouples the states only.
                                sink.count("c03c_stat_plannerdata_edges_without_control", (long long)nullControls);
                                sink.count("c03c_stat_plannerdata_exports_with_null_control:" + cx.P);
                                pd->ob::PlannerData::decoupleFromPlanner();  // states only
                            }
                            else
                                pd->decoupleFromPlanner();
                            sink.count("c03c_plannerdata_vertices", pd->numVertices());
                            sink.count("c03c_plannerdata_edges", pd->numEdges());
                            exported = true;
                            break;
                        }
                        case OP_SAMEPDEF_CLEAR:
                            // the same problem definition object gets new start states and a new goal, then clear()
                            if (!newQuery(s.q->pdef))
                            {
                                abandoned = true;
                                break;
                            }
                            s.planner->clear();
                            clean = true;
                            cx.dirty = false;
                            break;
                    }
                }
                catch (const std::exception &ex)
                {
                    sink.count("c03c_history_op_threw:" + P);
                    abandoned = true;
                }
                if (sink.violTotal() != violBefore) abandoned = true;  // consequences are not causes
            }
        }
        leakCheck(cx, *stTr, *ctTr, exported);
        sink.count("c03c_histories");
        sink.count("c03c_history_ops", nops);
        sink.noteCase(hmix(caseSeed(a, c, 2), hashStr(cx.hist + P)), nops >= 2);
        sink.sample(J().str("kind", "C03 control history").str("planner", cx.subj).str("system", SYSTEMS[sk]).str("ops", cx.hist)
                        .i("solve_calls", nsolves), 6);
    }

    int c03Blocks(const Args &a) { return a.thorough() ? 25 : 7; }   // k = 0..(nblocks-1)*16-1 exhaustively + one calibrated block
    int c03Combos(const Args &a) { return a.thorough() ? 3 : 2; }
    int c03Histories(const Args &a) { return a.thorough() ? 50 : 10; }

    // global numbering: 8 consecutive cases = the 8 planner variants at one index; the planner is rotated by index/2 so that
    // every shard (c mod nshards) sees every planner
    void c03(Sink &sink, const Args &a, long c)
    {
        const long g = c / 8;
        const int pl = (int)((c % 8 + g / 2) % 8);
        sink.subject(std::string("control::") + PLANNERS[pl]);
        const int blockSize = 16;
        const int nblocks = c03Blocks(a), ncombos = c03Combos(a);
        const long nInterrupt = (long)nblocks * ncombos;
        if (g < nInterrupt)
            c03Interrupt(sink, a, c, pl, g % nblocks, g / nblocks, nblocks, blockSize);
        else
            c03History(sink, a, c, pl, g - nInterrupt);
    }

    // ======================================================================================================================
    // C20 (control planners): fingerprints; every case runs in a fresh process (see main) and the driver compares the
    // fingerprints of replica processes by name
    // ======================================================================================================================
    void emitFp(const Args &a, const std::string &name, uint64_t h)
    {
        FILE *f = fopen(a.out.c_str(), "a");
        if (!f) return;
        fprintf(f, "{\"t\":\"fp\",\"name\":\"%s\",\"h\":\"%016llx\"}\n", jesc(name).c_str(), (unsigned long long)h);
        fclose(f);
    }

    uint64_t pathFingerprint(const Scen &sc, const ob::PathPtr &p)
    {
        auto *path = dynamic_cast<oc::PathControl *>(p.get());
        uint64_t h = 1469598103934665603ULL;
        if (!path) return h;
        std::vector<unsigned char> sbuf(sc.sys.space->getSerializationLength()), cbuf(sc.sys.cspace->getSerializationLength());
        for (size_t i = 0; i < path->getStateCount(); ++i)
        {
            std::fill(sbuf.begin(), sbuf.end(), 0);
            sc.sys.space->serialize(sbuf.data(), path->getState(i));
            h = hashBytes(sbuf.data(), sbuf.size(), h);
        }
        for (size_t i = 0; i < path->getControlCount(); ++i)
        {
            std::fill(cbuf.begin(), cbuf.end(), 0);
            sc.sys.cspace->serialize(cbuf.data(), path->getControl(i));
            h = hashBytes(cbuf.data(), cbuf.size(), h);
            const double d = path->getControlDuration(i);
            h = hashBytes(&d, sizeof d, h);
        }
        return hmix(hmix(h, path->getStateCount()), path->getControlCount());
    }

    // runs in a FRESH process: the seed is set before any generator exists
    void c20Case(Sink &sink, const Args &a, long c)
    {
        vf::perturbHeapHistory();   // replica-specific heap history (see common.h)
        const long widx = c / 8;
        const int pl = (int)((c % 8 + widx / 2) % 8);
        const int sk = pickSys(a, (int)(widx % 3));
        const std::string P = PLANNERS[pl], subj = "control::" + P;
        uint64_t seed = caseSeed(a, c, 1) % 1000000000ULL + 1;
        // seed 0 is special-cased by the library ("cannot be 0, using 1 instead"): still one fixed stream in every process
        if (c % 5 == 3) seed = 0;
        ompl::RNG::setSeed(seed);
        sink.subject(subj);
        const std::string name = "planner:" + subj + ":w" + std::to_string(widx);
        Rng rng(caseSeed(a, c));
        C3Scope s;
        const std::string why = buildScope(s, caseSeed(a, c), pl, sk, a, nullptr, nullptr, rng, true);
        if (!why.empty())
        {
            // no run: the name still has to exist in every replica
            emitFp(a, name, hashStr("no-run:" + why));
            sink.inconclusive("c20-" + why);
            sink.noteCase(0, false);
            return;
        }
        Scen &sc = *s.sc;
        const unsigned long budget = sc.drawBudget(rng);
        try
        {
            EvalCond e(budget, true, s.q->pdef.get(), &sc.sys.ps, sc.callCap());
            ob::PlannerStatus st = s.planner->solve(e.ptc);
            uint64_t h = hmix((uint64_t)(ob::PlannerStatus::StatusType)st, s.q->pdef->getSolutionCount());
            for (auto &sol : s.q->pdef->getSolutions())
            {
                h = hmix(h, pathFingerprint(sc, sol.path_));
                h = hmix(h, (uint64_t)sol.approximate_);
                h = hmixd(h, sol.difference_);
            }
            h = hmix(h, (uint64_t)e.evals);
            h = hmix(h, (uint64_t)sc.sys.ps.calls);
            emitFp(a, name, h);
            sink.count("c20c_planner_runs");
            sink.count("c20c_planner_runs:" + P);
            sink.count("c20c_ptc_evaluations", (long long)e.evals);
            if (s.q->pdef->getSolutionCount() > 0) sink.count("c20c_planner_runs_with_solution");
            if (s.q->pdef->hasExactSolution()) sink.count("c20c_planner_runs_with_exact_solution");
            sink.noteCase(hmix(sc.hash, hashStr(P)), s.q->pdef->getSolutionCount() > 0);
            sink.sample(J().str("kind", "C20 control planner run").str("planner", subj).str("system", SYSTEMS[sk]).str("status", statusName(st))
                            .u("solutions", s.q->pdef->getSolutionCount()).u("evaluations", e.evals).u("lib_seed", seed)
                            .str("fingerprint", std::to_string(h)));
        }
        catch (const std::exception &ex)
        {
            emitFp(a, name, hashStr(std::string("exception:") + ex.what()));
            sink.count("c20c_exception:" + P);
            sink.noteCase(0, false);
        }
    }
}  // namespace

int main(int argc, char **argv)
{
    Args a = parseArgs(argc, argv);
    ompl::msg::setLogLevel(ompl::msg::LOG_NONE);
    Sink sink(a);
    long total;
    void (*fn)(Sink &, const Args &, long) = nullptr;
    if (a.prop == "C02")
    {
        total = c02BaseCases(a) + c02DiscreteCases(a);
        fn = runCase;
    }
    else if (a.prop == "C03")
    {
        // the interruption part is a fixed enumeration; --scale multiplies the number of histories
        total = 8L * (c03Blocks(a) * c03Combos(a) + (long)(c03Histories(a) * a.scale));
        fn = c03;
    }
    else if (a.prop == "C20")
    {
        total = 8L * (long)((a.thorough() ? 30 : 6) * a.scale);
        fn = c20Case;
    }
    else
    {
        fprintf(stderr, "h_control does not serve %s\n", a.prop.c_str());
        return 2;
    }
    const bool freshProcessPerCase = a.prop == "C20" && a.onlyCase < 0;
    for (long c = 0; c < total; ++c)
    {
        if (!mine(a, c) || !sink.wanted(c))
            continue;
        if (freshProcessPerCase)
        {
            // C20: every case runs in its own process so that the global seed is set before any generator exists
            sink.begin(c);
            char exe[4096];
            ssize_t n = readlink("/proc/self/exe", exe, sizeof exe - 1);
            if (n <= 0) return 2;
            exe[n] = 0;
            char sc[64];
            snprintf(sc, sizeof sc, "%.17g", a.scale);
            std::string call = std::string(exe) + " --prop C20 --seed " + std::to_string(a.seed) + " --tier " + a.tier + " --scale " + sc +
                               " --only-case " + std::to_string(c) + " --out " + a.out + ".child";
            if (!a.get("force-sys", "").empty()) call += " --force-sys " + std::to_string(atoi(a.get("force-sys").c_str()));
            int rc = system(call.c_str());
            // merge the child's records (fingerprints, violations, counters)
            FILE *cf = fopen((a.out + ".child").c_str(), "r");
            bool childDone = false;
            if (cf)
            {
                char *line = nullptr;
                size_t cap = 0;
                while (getline(&line, &cap, cf) > 0)
                {
                    std::string l(line);
                    if (l.find("\"t\":\"done\"") != std::string::npos) childDone = true;
                    if (l.find("\"t\":\"begin\"") != std::string::npos) continue;
                    sink.rawLine(l);
                }
                free(line);
                fclose(cf);
                remove((a.out + ".child").c_str());
            }
            if (rc != 0 || !childDone)
            {
                fprintf(stderr, "C20 child for case %ld failed rc=%d\n", c, rc);
                return 3;  // the driver treats it as a crash of this case
            }
            sink.count("cases", -1);  // the child counted it
            continue;
        }
        sink.begin(c);
        fn(sink, a, c);
    }
    sink.done();
    return 0;
}
