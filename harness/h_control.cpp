// Engine h_control: property C02 -- control planners' solutions replay through the propagator to the goal.
//
// One case = one (planner variant, dynamical system, world, start/goal, planner parameters, seed) tuple, all drawn from
// vf::Rng(caseSeed).  The planner is run once on a fresh problem definition under an evaluation-counting termination
// condition; whatever it registers in the problem definition is then replayed with the harness's own copy of the
// propagator: every recorded (control, duration) is applied as n = duration/stepSize steps of stepSize from the
// *recorded* state i, every intermediate state must be valid, and the result must be the recorded state i+1.
#include "common.h"

#include <ompl/base/ProblemDefinition.h>
#include <ompl/base/ProjectionEvaluator.h>
#include <ompl/base/ScopedState.h>
#include <ompl/base/goals/GoalSampleableRegion.h>
#include <ompl/base/goals/GoalState.h>
#include <ompl/base/objectives/PathLengthOptimizationObjective.h>
#include <ompl/base/spaces/RealVectorStateSpace.h>
#include <ompl/base/spaces/SE2StateSpace.h>
#include <ompl/control/PathControl.h>
#include <ompl/control/SimpleDirectedControlSampler.h>
#include <ompl/control/SpaceInformation.h>
#include <ompl/control/StatePropagator.h>
#include <ompl/control/planners/est/EST.h>
#include <ompl/control/planners/kpiece/KPIECE1.h>
#include <ompl/control/planners/pdst/PDST.h>
#include <ompl/control/planners/rrt/RRT.h>
#include <ompl/control/planners/sst/SST.h>
#include <ompl/control/planners/syclop/GridDecomposition.h>
#include <ompl/control/planners/syclop/SyclopEST.h>
#include <ompl/control/planners/syclop/SyclopRRT.h>
#include <ompl/control/spaces/RealVectorControlSpace.h>
#include <ompl/util/Console.h>
#include <ompl/util/RandomNumbers.h>

#include <algorithm>
#include <chrono>
#include <memory>

namespace ob = ompl::base;
namespace oc = ompl::control;
using namespace vf;

namespace
{
    const char *PLANNERS[8] = {"RRT", "RRT-intermediate", "SST", "EST", "KPIECE1", "PDST", "SyclopRRT", "SyclopEST"};
    const char *SYSTEMS[3] = {"point", "car", "dint"};
    enum
    {
        P_RRT,
        P_RRTI,
        P_SST,
        P_EST,
        P_KPIECE,
        P_PDST,
        P_SYRRT,
        P_SYEST
    };
    enum
    {
        S_POINT,
        S_CAR,
        S_DINT
    };

    struct Obst
    {
        int type;  // 0 disc (a,b centre, c radius); 1 box [a,c] x [b,d]
        double a, b, c, d;
        bool contains(double x, double y, double inflate = 0.) const
        {
            if (type == 0)
            {
                double dx = x - a, dy = y - b, r = c + inflate;
                return dx * dx + dy * dy <= r * r;
            }
            return x >= a - inflate && x <= c + inflate && y >= b - inflate && y <= d + inflate;
        }
    };

    // statistics on how the library drives the propagator (reset per case)
    struct PropStats
    {
        long calls = 0, notStep = 0, aliased = 0;
    };

    // The dynamical system: a pure function of (state, control, dt).  The same (non-inlined) function is handed to the
    // library and used by the replay, so identical inputs give bit-identical outputs.
    struct Sys
    {
        int kind = 0;
        ob::StateSpacePtr space;
        std::shared_ptr<oc::RealVectorControlSpace> cspace;
        const ob::SO2StateSpace *so2 = nullptr;
        double L = 0.5;          // car wheel base
        double vmax = 1.0;       // dint velocity bound
        bool clampVel = false;   // dint: propagator saturates the velocity
        double clo[2], chi[2];   // control bounds (harness's record)
        double h = 0.1;          // propagation step size
        mutable PropStats ps;

        unsigned ncomp() const { return kind == S_POINT ? 2 : kind == S_CAR ? 3 : 4; }
        void comps(const ob::State *s, double *v) const
        {
            if (kind == S_CAR)
            {
                const auto *p = s->as<ob::SE2StateSpace::StateType>();
                v[0] = p->getX();
                v[1] = p->getY();
                v[2] = p->getYaw();
            }
            else
            {
                const double *q = s->as<ob::RealVectorStateSpace::StateType>()->values;
                for (unsigned i = 0; i < ncomp(); ++i)
                    v[i] = q[i];
            }
        }
        void setComps(ob::State *s, const double *v) const
        {
            if (kind == S_CAR)
            {
                auto *p = s->as<ob::SE2StateSpace::StateType>();
                p->setXY(v[0], v[1]);
                p->setYaw(v[2]);
            }
            else
            {
                double *q = s->as<ob::RealVectorStateSpace::StateType>()->values;
                for (unsigned i = 0; i < ncomp(); ++i)
                    q[i] = v[i];
            }
        }
        void xy(const ob::State *s, double &x, double &y) const
        {
            if (kind == S_CAR)
            {
                const auto *p = s->as<ob::SE2StateSpace::StateType>();
                x = p->getX();
                y = p->getY();
            }
            else
            {
                const double *q = s->as<ob::RealVectorStateSpace::StateType>()->values;
                x = q[0];
                y = q[1];
            }
        }
        void setXY(ob::State *s, double x, double y) const
        {
            if (kind == S_CAR)
                s->as<ob::SE2StateSpace::StateType>()->setXY(x, y);
            else
            {
                double *q = s->as<ob::RealVectorStateSpace::StateType>()->values;
                q[0] = x;
                q[1] = y;
            }
        }

        // all inputs are read before the result is written: the library calls this with result == state
        __attribute__((noinline)) void step(const ob::State *st, const oc::Control *c, double dt, ob::State *res) const
        {
            const double *u = c->as<oc::RealVectorControlSpace::ControlType>()->values;
            const double u0 = u[0], u1 = u[1];
            if (kind == S_POINT)
            {
                const double *q = st->as<ob::RealVectorStateSpace::StateType>()->values;
                const double x = q[0], y = q[1];
                double *r = res->as<ob::RealVectorStateSpace::StateType>()->values;
                r[0] = x + dt * u0;
                r[1] = y + dt * u1;
            }
            else if (kind == S_CAR)
            {
                const auto *s = st->as<ob::SE2StateSpace::StateType>();
                const double x = s->getX(), y = s->getY(), th = s->getYaw();
                auto *r = res->as<ob::SE2StateSpace::StateType>();
                r->setXY(x + dt * u0 * std::cos(th), y + dt * u0 * std::sin(th));
                r->setYaw(th + dt * u0 * std::tan(u1) / L);
                so2->enforceBounds(r->as<ob::SO2StateSpace::StateType>(1));
            }
            else
            {
                // explicit Euler: positions advance with the OLD velocity, so n short steps != one long step
                const double *q = st->as<ob::RealVectorStateSpace::StateType>()->values;
                const double x = q[0], y = q[1], vx = q[2], vy = q[3];
                double *r = res->as<ob::RealVectorStateSpace::StateType>()->values;
                double nvx = vx + dt * u0, nvy = vy + dt * u1;
                if (clampVel)
                {
                    nvx = std::max(-vmax, std::min(vmax, nvx));
                    nvy = std::max(-vmax, std::min(vmax, nvy));
                }
                r[0] = x + dt * vx;
                r[1] = y + dt * vy;
                r[2] = nvx;
                r[3] = nvy;
            }
        }
    };

    class Propagator : public oc::StatePropagator
    {
    public:
        Propagator(oc::SpaceInformation *si, const Sys *sys) : oc::StatePropagator(si), sys_(sys) {}
        void propagate(const ob::State *state, const oc::Control *control, double duration,
                       ob::State *result) const override
        {
            ++sys_->ps.calls;
            if (duration != sys_->h)
                ++sys_->ps.notStep;
            if (state == result)
                ++sys_->ps.aliased;
            sys_->step(state, control, duration, result);
        }

    private:
        const Sys *sys_;
    };

    struct World
    {
        double x0, y0, W, H;
        std::vector<Obst> obs;
        bool freeXY(double x, double y, double inflate) const
        {
            for (const auto &o : obs)
                if (o.contains(x, y, inflate))
                    return false;
            return true;
        }
    };

    // validity as in the library's demos: bounds test plus obstacle test on (x,y)
    struct Validity
    {
        const ob::SpaceInformation *si;
        const Sys *sys;
        const World *w;
        bool operator()(const ob::State *s) const
        {
            if (!si->satisfiesBounds(s))
                return false;
            double x, y;
            sys->xy(s, x, y);
            for (const auto &o : w->obs)
                if (o.contains(x, y))
                    return false;
            return true;
        }
    };

    class XYProjection : public ob::ProjectionEvaluator
    {
    public:
        XYProjection(const ob::StateSpacePtr &space, const Sys *sys, const World &w, int cells)
          : ob::ProjectionEvaluator(space), sys_(sys)
        {
            ob::RealVectorBounds b(2);
            b.setLow(0, w.x0);
            b.setHigh(0, w.x0 + w.W);
            b.setLow(1, w.y0);
            b.setHigh(1, w.y0 + w.H);
            setBounds(b);
            setCellSizes({w.W / cells, w.H / cells});
        }
        unsigned int getDimension() const override { return 2; }
        void project(const ob::State *state, Eigen::Ref<Eigen::VectorXd> projection) const override
        {
            double x, y;
            sys_->xy(state, x, y);
            projection(0) = x;
            projection(1) = y;
        }

    private:
        const Sys *sys_;
    };

    class XYDecomposition : public oc::GridDecomposition
    {
    public:
        XYDecomposition(int len, const ob::RealVectorBounds &b, const Sys *sys) : GridDecomposition(len, 2, b), sys_(sys)
        {
        }
        void project(const ob::State *s, std::vector<double> &coord) const override
        {
            coord.resize(2);
            sys_->xy(s, coord[0], coord[1]);
        }
        void sampleFullState(const ob::StateSamplerPtr &sampler, const std::vector<double> &coord,
                             ob::State *s) const override
        {
            sampler->sampleUniform(s);
            sys_->setXY(s, coord[0], coord[1]);
        }

    private:
        const Sys *sys_;
    };

    // goal = disc in (x,y); the other coordinates are free
    template <class Base>
    class XYGoalT : public Base
    {
    public:
        XYGoalT(const ob::SpaceInformationPtr &si, const Sys *sys, double cx, double cy, double thr)
          : Base(si), sys_(sys), cx_(cx), cy_(cy)
        {
            this->setThreshold(thr);
        }
        double distanceGoal(const ob::State *st) const override
        {
            double x, y;
            sys_->xy(st, x, y);
            return std::hypot(x - cx_, y - cy_);
        }

    protected:
        const Sys *sys_;
        double cx_, cy_;
    };
    using XYGoalRegion = XYGoalT<ob::GoalRegion>;
    class XYGoalSampleable : public XYGoalT<ob::GoalSampleableRegion>
    {
    public:
        XYGoalSampleable(const ob::SpaceInformationPtr &si, const Sys *sys, double cx, double cy, double thr)
          : XYGoalT<ob::GoalSampleableRegion>(si, sys, cx, cy, thr), sampler_(si->allocStateSampler())
        {
        }
        void sampleGoal(ob::State *st) const override
        {
            sampler_->sampleUniform(st);
            double r = threshold_ * std::sqrt(rng_.uniform01()), a = rng_.uniformReal(-M_PI, M_PI);
            sys_->setXY(st, cx_ + r * std::cos(a), cy_ + r * std::sin(a));
        }
        unsigned int maxSampleCount() const override { return 1000000000u; }

    private:
        mutable ompl::RNG rng_;
        ob::StateSamplerPtr sampler_;
    };

    // goal = disc in (x,y) AND a condition on the remaining coordinates (car: heading within a quarter turn of h0; double
    // integrator: speed below vGoal); the distance it reports is the (x,y) distance alone -- a heuristic, as Goal::isSatisfied
    // allows: a state can be closer than a satisfying one without satisfying the goal
    class XYCondGoal : public XYGoalT<ob::GoalSampleableRegion>
    {
    public:
        XYCondGoal(const ob::SpaceInformationPtr &si, const Sys *sys, double cx, double cy, double thr, double h0, double vGoal)
          : XYGoalT<ob::GoalSampleableRegion>(si, sys, cx, cy, thr), sampler_(si->allocStateSampler()), h0_(h0), vGoal_(vGoal)
        {
        }
        bool cond(const ob::State *st) const
        {
            double v[4] = {0, 0, 0, 0};
            sys_->comps(st, v);
            if (sys_->kind == S_CAR) return std::cos(v[2] - h0_) > 0.7;
            if (sys_->kind == S_DINT) return std::hypot(v[2], v[3]) < vGoal_;
            return true;
        }
        bool isSatisfied(const ob::State *st) const override { return distanceGoal(st) <= threshold_ && cond(st); }
        bool isSatisfied(const ob::State *st, double *distance) const override
        {
            double d = distanceGoal(st);
            if (distance) *distance = d;
            return d <= threshold_ && cond(st);
        }
        void sampleGoal(ob::State *st) const override
        {
            sampler_->sampleUniform(st);
            double r = threshold_ * std::sqrt(rng_.uniform01()), a = rng_.uniformReal(-M_PI, M_PI);
            double v[4] = {0, 0, 0, 0};
            sys_->comps(st, v);
            v[0] = cx_ + r * std::cos(a), v[1] = cy_ + r * std::sin(a);
            if (sys_->kind == S_CAR) v[2] = h0_;
            if (sys_->kind == S_DINT) v[2] = v[3] = 0;
            sys_->setComps(st, v);
        }
        unsigned int maxSampleCount() const override { return 1000000000u; }

    private:
        mutable ompl::RNG rng_;
        ob::StateSamplerPtr sampler_;
        double h0_, vGoal_;
    };

    double ulp(double v)
    {
        v = std::fabs(v);
        return std::nextafter(v, std::numeric_limits<double>::infinity()) - v;
    }

    std::vector<double> compVec(const Sys &sys, const ob::State *s)
    {
        double v[4];
        sys.comps(s, v);
        return std::vector<double>(v, v + sys.ncomp());
    }

    void runCaseImpl(Sink &sink, const Args &a, long c, std::string &label);

    void runCase(Sink &sink, const Args &a, long c)
    {
        // wall-clock is a statistic only (slowest case, for budgeting); it never influences a case or a verdict
        const auto t0 = std::chrono::steady_clock::now();
        std::string label;
        runCaseImpl(sink, a, c, label);
        const double dt = std::chrono::duration<double>(std::chrono::steady_clock::now() - t0).count();
        sink.maxstat("c02_slowest_case_seconds", dt);
        if (dt > 10)
        {
            sink.count("c02_cases_over_10s");
            fprintf(stderr, "slow case %ld (%s): %.1f s\n", c, label.c_str(), dt);
        }
    }

    void runCaseImpl(Sink &sink, const Args &a, long c, std::string &label)
    {
        Rng rng(caseSeed(a, c));
        const uint32_t libSeed = (uint32_t)(caseSeed(a, c, 1) % 1000000000ULL + 1);
        ompl::RNG::setSeed(libSeed);

        const int combo = (int)((c + c / 16) % 24);
        const int pl = combo % 8, sk = combo / 8;
        const std::string P = PLANNERS[pl], S = SYSTEMS[sk];
        label = P + "/" + S;
        uint64_t hash = hmix(hmix(hashStr(P), hashStr(S)), libSeed);
        auto H = [&](double v) { hash = hmixd(hash, v); return v; };

        // ---- world ------------------------------------------------------------------------------------------
        World w;
        w.W = H(rng.uni(6, 14));
        w.H = H(rng.uni(6, 14));
        {
            int k = rng.range(0, 2);
            w.x0 = H(k == 0 ? 0. : k == 1 ? -w.W / 2 : rng.uni(-20, 20));
            k = rng.range(0, 2);
            w.y0 = H(k == 0 ? 0. : k == 1 ? -w.H / 2 : rng.uni(-20, 20));
        }
        const double mn = std::min(w.W, w.H);
        double lay = rng.u01();
        int layout = lay < 0.1 ? 0 : lay < 0.65 ? 1 : 2;
        bool wallVertical = true;
        double wallPos = 0;
        auto scatter = [&](int k) {
            for (int i = 0; i < k; ++i)
            {
                Obst o;
                if (rng.coin())
                {
                    o.type = 0;
                    o.a = w.x0 + rng.uni(0, w.W);
                    o.b = w.y0 + rng.uni(0, w.H);
                    o.c = rng.uni(0.3, 0.3 + 0.12 * mn);
                    o.d = 0;
                }
                else
                {
                    o.type = 1;
                    double bw = rng.uni(0.4, 0.25 * w.W), bh = rng.uni(0.4, 0.25 * w.H);
                    o.a = w.x0 + rng.uni(0, w.W - bw);
                    o.b = w.y0 + rng.uni(0, w.H - bh);
                    o.c = o.a + bw;
                    o.d = o.b + bh;
                }
                w.obs.push_back(o);
            }
        };
        if (layout == 1)
            scatter(rng.range(1, 7));
        else if (layout == 2)
        {
            wallVertical = rng.coin();
            double ext = wallVertical ? w.W : w.H, oth = wallVertical ? w.H : w.W;
            double e0 = wallVertical ? w.x0 : w.y0, o0 = wallVertical ? w.y0 : w.x0;
            wallPos = e0 + ext * rng.uni(0.35, 0.65);
            double th = rng.uni(0.2, 1.0), gw = rng.uni(1.0, 3.0), gc = o0 + rng.uni(gw / 2, oth - gw / 2);
            Obst lo{1, 0, 0, 0, 0}, hi{1, 0, 0, 0, 0};
            if (wallVertical)
            {
                lo = Obst{1, wallPos - th / 2, o0 - 1, wallPos + th / 2, gc - gw / 2};
                hi = Obst{1, wallPos - th / 2, gc + gw / 2, wallPos + th / 2, o0 + oth + 1};
            }
            else
            {
                lo = Obst{1, o0 - 1, wallPos - th / 2, gc - gw / 2, wallPos + th / 2};
                hi = Obst{1, gc + gw / 2, wallPos - th / 2, o0 + oth + 1, wallPos + th / 2};
            }
            w.obs.push_back(lo);
            w.obs.push_back(hi);
            scatter(rng.range(0, 2));
        }
        // start / goal positions
        double sx = 0, sy = 0, gx = 0, gy = 0, s2x = 0, s2y = 0;
        auto drawFree = [&](double &x, double &y, double clearance) {
            for (int t = 0; t < 300; ++t)
            {
                x = w.x0 + rng.uni(0.4, w.W - 0.4);
                y = w.y0 + rng.uni(0.4, w.H - 0.4);
                if (w.freeXY(x, y, clearance))
                    return true;
            }
            return false;
        };
        bool placed = false;
        for (int attempt = 0; attempt < 2 && !placed; ++attempt)
        {
            for (int t = 0; t < 200 && !placed; ++t)
            {
                if (!drawFree(sx, sy, 0.25) || !drawFree(gx, gy, 0.25))
                    break;
                if (std::hypot(sx - gx, sy - gy) < 0.4 * mn)
                    continue;
                if (layout == 2)
                {
                    double ps = wallVertical ? sx : sy, pg = wallVertical ? gx : gy;
                    if ((ps - wallPos) * (pg - wallPos) > 0)
                        continue;
                }
                placed = true;
            }
            if (!placed)
            {
                w.obs.clear();
                layout = 0;
            }
        }
        if (!placed || !drawFree(s2x, s2y, 0.25))
        {
            sink.inconclusive("world-generation");
            sink.noteCase(hash, false);
            return;
        }
        for (const auto &o : w.obs)
        {
            H(o.type);
            H(o.a);
            H(o.b);
            H(o.c);
            H(o.d);
        }
        H(sx), H(sy), H(gx), H(gy);

        // ---- system -----------------------------------------------------------------------------------------
        Sys sys;
        sys.kind = sk;
        sys.h = H(rng.logUni(0.02, 0.25));
        const unsigned minD = (unsigned)rng.range(1, 4), maxD = minD + (unsigned)rng.range(0, 20);
        H(minD), H(maxD);
        ob::RealVectorBounds xyb(2);
        xyb.setLow(0, w.x0);
        xyb.setHigh(0, w.x0 + w.W);
        xyb.setLow(1, w.y0);
        xyb.setHigh(1, w.y0 + w.H);
        if (sk == S_POINT)
        {
            auto sp = std::make_shared<ob::RealVectorStateSpace>(2);
            sp->setBounds(xyb);
            sys.space = sp;
            sys.clo[0] = -rng.uni(0.2, 2), sys.chi[0] = rng.uni(0.2, 2);
            sys.clo[1] = -rng.uni(0.2, 2), sys.chi[1] = rng.uni(0.2, 2);
        }
        else if (sk == S_CAR)
        {
            auto sp = std::make_shared<ob::SE2StateSpace>();
            sp->setBounds(xyb);
            sys.space = sp;
            sys.so2 = sp->getSubspace(1)->as<ob::SO2StateSpace>();
            sys.L = H(rng.uni(0.3, 1.0));
            sys.clo[0] = -rng.uni(0, 0.6), sys.chi[0] = rng.uni(0.5, 2);
            if (rng.coin(0.15))
                sys.clo[0] = sys.chi[0];  // constant forward speed: a degenerate (low == high) control bound
            sys.clo[1] = -rng.uni(0.2, 0.9), sys.chi[1] = rng.uni(0.2, 0.9);
        }
        else
        {
            auto sp = std::make_shared<ob::RealVectorStateSpace>(4);
            sys.vmax = H(rng.uni(0.5, 2.5));
            sys.clampVel = rng.coin();
            H(sys.clampVel);
            ob::RealVectorBounds b4(4);
            b4.setLow(0, xyb.low[0]), b4.setHigh(0, xyb.high[0]);
            b4.setLow(1, xyb.low[1]), b4.setHigh(1, xyb.high[1]);
            b4.setLow(2, -sys.vmax), b4.setHigh(2, sys.vmax);
            b4.setLow(3, -sys.vmax), b4.setHigh(3, sys.vmax);
            sp->setBounds(b4);
            sys.space = sp;
            sys.clo[0] = -rng.uni(0.3, 2), sys.chi[0] = rng.uni(0.3, 2);
            sys.clo[1] = -rng.uni(0.3, 2), sys.chi[1] = rng.uni(0.3, 2);
        }
        // A small class of "creeping" systems: control magnitudes so small that successive propagation steps are
        // closer together than std::numeric_limits<float>::epsilon() in the state-space metric.  The goal is out of
        // reach, but planners still report approximate solutions, and those must replay like any other.
        const bool creeping = rng.u01() < atof(a.get("slowfrac", "0.03").c_str());
        const double cscale = creeping ? rng.logUni(2e-7, 5e-6) : 1.0;
        H(cscale);
        if (creeping)
        {
            for (int d = 0; d < 2; ++d)
                sys.clo[d] *= cscale, sys.chi[d] *= cscale;
            sink.count("c02_cases_creeping_system");
        }
        for (int d = 0; d < 2; ++d)
            H(sys.clo[d]), H(sys.chi[d]);
        sys.cspace = std::make_shared<oc::RealVectorControlSpace>(sys.space, 2);
        {
            ob::RealVectorBounds cb(2);
            for (int d = 0; d < 2; ++d)
                cb.setLow(d, sys.clo[d]), cb.setHigh(d, sys.chi[d]);
            sys.cspace->setBounds(cb);
        }
        auto si = std::make_shared<oc::SpaceInformation>(sys.space, sys.cspace);
        si->setStatePropagator(std::make_shared<Propagator>(si.get(), &sys));
        Validity valid{si.get(), &sys, &w};
        si->setStateValidityChecker([valid](const ob::State *s) { return valid(s); });
        si->setPropagationStepSize(sys.h);
        si->setMinMaxControlDuration(minD, maxD);
        const unsigned kdir = rng.coin(0.5) ? 1u : (unsigned)rng.range(2, 5);
        H(kdir);
        if (kdir > 1)
            si->setDirectedControlSamplerAllocator([kdir](const oc::SpaceInformation *s) {
                return std::make_shared<oc::SimpleDirectedControlSampler>(s, kdir);
            });
        si->setup();
        const double h = si->getPropagationStepSize();
        const double scale = si->getMaximumExtent() + std::max({std::fabs(w.x0), std::fabs(w.x0 + w.W),
                                                                 std::fabs(w.y0), std::fabs(w.y0 + w.H)});
        const double tol = 1e-9 * (1 + scale);

        // ---- start / goal -----------------------------------------------------------------------------------
        auto mkState = [&](ob::ScopedState<> &s, double x, double y) {
            double v[4] = {x, y, 0, 0};
            if (sk == S_CAR)
                v[2] = rng.uni(-M_PI, M_PI);
            else if (sk == S_DINT && rng.coin())
            {
                v[2] = rng.uni(-0.3, 0.3) * sys.vmax;
                v[3] = rng.uni(-0.3, 0.3) * sys.vmax;
            }
            sys.setComps(s.get(), v);
        };
        auto pdef = std::make_shared<ob::ProblemDefinition>(si);
        std::vector<ob::ScopedState<>> starts;
        {
            double r = rng.u01();
            if (r < 0.1)
            {
                // an invalid start state listed first: the planner has to skip it
                ob::ScopedState<> bad(sys.space);
                if (!w.obs.empty() && rng.coin())
                {
                    // just inside an obstacle's boundary (a single propagation step could leave it)
                    const Obst &o = w.obs[rng.ui(w.obs.size())];
                    const double delta = rng.uni(0.001, 0.05);
                    double bx, by;
                    if (o.type == 0)
                    {
                        const double ang = rng.uni(-M_PI, M_PI), rr = std::max(0., o.c - delta);
                        bx = o.a + rr * std::cos(ang);
                        by = o.b + rr * std::sin(ang);
                    }
                    else
                    {
                        bx = rng.uni(o.a, o.c);
                        by = rng.uni(o.b, o.d);
                        switch (rng.range(0, 3))
                        {
                            case 0: bx = o.a + delta; break;
                            case 1: bx = o.c - delta; break;
                            case 2: by = o.b + delta; break;
                            default: by = o.d - delta; break;
                        }
                    }
                    bx = std::max(w.x0, std::min(w.x0 + w.W, bx));
                    by = std::max(w.y0, std::min(w.y0 + w.H, by));
                    mkState(bad, bx, by);
                }
                else
                    mkState(bad, w.x0 - 1.0, w.y0 + 0.5 * w.H);
                if (!valid(bad.get()))
                {
                    starts.push_back(bad);
                    sink.count("c02_cases_with_invalid_extra_start");
                }
            }
            ob::ScopedState<> s1(sys.space);
            mkState(s1, sx, sy);
            if (r < 0.1 && !starts.empty() && rng.coin(0.3))
                sink.count("c02_cases_with_only_invalid_starts");  // expected outcome: INVALID_START and no path
            else
                starts.push_back(s1);
            if (r > 0.8 && std::hypot(s2x - gx, s2y - gy) > 0.25 * mn)
            {
                ob::ScopedState<> s2(sys.space);
                mkState(s2, s2x, s2y);
                starts.push_back(s2);
                sink.count("c02_cases_with_two_valid_starts");
            }
        }
        for (auto &s : starts)
            pdef->addStartState(s);
        int goalKind;
        {
            double r = rng.u01();
            goalKind = r < 0.5 ? 0 : r < 0.8 ? 1 : 2;
            // a third of the sampleable disc goals of the car / double integrator carry a condition on the other coordinates
            if (goalKind == 0 && sk != S_POINT && rng.coin(0.35)) goalKind = 3;
            // Syclop needs a sampleable goal to locate the goal region; without one it has to return INVALID_GOAL
            if (goalKind == 2 && (pl == P_SYRRT || pl == P_SYEST) && !rng.coin(0.25))
                goalKind = 0;
        }
        H(goalKind);
        double thr;
        if (goalKind == 1)
        {
            thr = H(rng.uni(0.5, 1.5));
            ob::ScopedState<> g(sys.space);
            mkState(g, gx, gy);
            if (sk == S_DINT)
            {
                double v[4];
                sys.comps(g.get(), v);
                v[2] = v[3] = 0;
                sys.setComps(g.get(), v);
            }
            auto gs = std::make_shared<ob::GoalState>(si);
            gs->setState(g);
            gs->setThreshold(thr);
            pdef->setGoal(gs);
        }
        else
        {
            thr = H(rng.uni(0.3, 1.0));
            if (goalKind == 3)
            {
                pdef->setGoal(std::make_shared<XYCondGoal>(si, &sys, gx, gy, thr, rng.uni(-M_PI, M_PI), sk == S_DINT ? rng.uni(0.25, 0.7) * sys.vmax : 0.0));
                sink.count("c02_cases_goal_with_condition");
            }
            else if (goalKind == 0)
                pdef->setGoal(std::make_shared<XYGoalSampleable>(si, &sys, gx, gy, thr));
            else
                pdef->setGoal(std::make_shared<XYGoalRegion>(si, &sys, gx, gy, thr));
        }

        // ---- planner ----------------------------------------------------------------------------------------
        const double goalBias = H(rng.coin(0.15) ? 0.0 : rng.uni(0.02, 0.3));
        const int cells = rng.range(8, 30);
        const bool explicitProj = sk == S_DINT ? !rng.coin(0.2) : rng.coin(0.6);
        H(cells), H(explicitProj);
        auto proj = [&]() { return std::make_shared<XYProjection>(sys.space, &sys, w, cells); };
        ob::PlannerPtr planner;
        bool sstStopAtFirst = false, regionalNN = false;
        try
        {
            switch (pl)
            {
                case P_RRT:
                case P_RRTI:
                {
                    auto p = std::make_shared<oc::RRT>(si);
                    p->setGoalBias(goalBias);
                    p->setIntermediateStates(pl == P_RRTI);
                    planner = p;
                    break;
                }
                case P_SST:
                {
                    auto p = std::make_shared<oc::SST>(si);
                    p->setGoalBias(goalBias);
                    double sel = H(rng.logUni(0.1, 1.0));
                    p->setSelectionRadius(sel);
                    p->setPruningRadius(H(sel * rng.uni(0.2, 0.8)));
                    sstStopAtFirst = rng.coin();
                    H(sstStopAtFirst);
                    if (sstStopAtFirst)
                    {
                        // any solution satisfies the objective -> SST returns at its first exact solution
                        auto opt = std::make_shared<ob::PathLengthOptimizationObjective>(si);
                        opt->setCostThreshold(opt->infiniteCost());
                        pdef->setOptimizationObjective(opt);
                    }
                    planner = p;
                    break;
                }
                case P_EST:
                {
                    auto p = std::make_shared<oc::EST>(si);
                    p->setGoalBias(goalBias);
                    if (rng.coin())
                        p->setRange(H(rng.uni(0.5, 4.0)));
                    if (explicitProj)
                        p->setProjectionEvaluator(proj());
                    planner = p;
                    break;
                }
                case P_KPIECE:
                {
                    auto p = std::make_shared<oc::KPIECE1>(si);
                    p->setGoalBias(goalBias);
                    if (rng.coin())
                        p->setBorderFraction(H(rng.uni(0.3, 0.95)));
                    if (explicitProj)
                        p->setProjectionEvaluator(proj());
                    planner = p;
                    break;
                }
                case P_PDST:
                {
                    auto p = std::make_shared<oc::PDST>(si);
                    p->setGoalBias(goalBias);
                    if (explicitProj)
                        p->setProjectionEvaluator(proj());
                    planner = p;
                    break;
                }
                case P_SYRRT:
                case P_SYEST:
                {
                    auto dec = std::make_shared<XYDecomposition>(rng.range(3, 10), xyb, &sys);
                    H(dec->getNumRegions());
                    if (pl == P_SYRRT)
                    {
                        auto p = std::make_shared<oc::SyclopRRT>(si, dec);
                        regionalNN = rng.coin(0.3);
                        p->setRegionalNearestNeighbors(regionalNN);
                        p->setNumFreeVolumeSamples(rng.range(2000, 20000));
                        if (rng.coin())
                        {
                            p->setNumRegionExpansions(rng.range(5, 100));
                            p->setNumTreeExpansions(rng.range(1, 5));
                        }
                        planner = p;
                    }
                    else
                    {
                        auto p = std::make_shared<oc::SyclopEST>(si, dec);
                        p->setNumFreeVolumeSamples(rng.range(2000, 20000));
                        if (rng.coin())
                        {
                            p->setNumRegionExpansions(rng.range(5, 100));
                            p->setNumTreeExpansions(rng.range(1, 5));
                        }
                        planner = p;
                    }
                    break;
                }
            }
            planner->setProblemDefinition(pdef);
            planner->setup();
        }
        catch (std::exception &e)
        {
            sink.inconclusive("setup-exception:" + P);
            sink.noteCase(hash, false);
            return;
        }

        // ---- run --------------------------------------------------------------------------------------------
        // Termination by evaluation count only.  In 1 of 3 cases the same planner instance (no clear()) is driven through
        // 2-3 consecutive solve() calls whatever the earlier calls returned, with drawn budgets (half of the later ones
        // tiny: 10-100 evaluations) and, per gap with probability 1/2, pdef->clearSolutionPaths() in between.  Every path
        // registered by any call is examined together with the status of the call that registered it.
        unsigned long budget = (unsigned long)(a.thorough() ? rng.logUni(2000, 60000) : rng.logUni(1500, 25000));
        if (pl == P_SST && !sstStopAtFirst)
            budget = budget / 2 + 500;  // always runs the whole budget
        if (creeping)
            budget = 300 + budget % 1700;  // nothing can be reached; a short run gives the approximate paths wanted
        if (regionalNN)
            budget = std::min(budget, 6000ul);  // linear scans over the region's motions: quadratic in the tree size
        // second, equally deterministic bound on the tree size: calls of the harness's propagator by the library, summed
        // over the calls of the case; a continued call is always granted at least 20000 of them
        const long callCap = a.thorough() ? 600000 : 300000;
        const int phases = rng.coin(1.0 / 3) ? rng.range(2, 3) : 1;
        std::vector<unsigned long> limits(phases, budget);
        std::vector<bool> clearBefore(phases, false);
        if (phases > 1)
        {
            const double r = rng.u01();
            if (r < 0.2)
                limits[0] = (unsigned long)rng.logUni(10, 300);  // a first call that hardly gets anywhere
            else if (r < 0.4)
                limits[0] = budget / 3 + 1;
            for (int ph = 1; ph < phases; ++ph)
            {
                limits[ph] = (unsigned long)(rng.coin() ? rng.logUni(10, 100) : rng.logUni(100, budget / 2. + 101));
                clearBefore[ph] = rng.coin();
            }
        }
        H(phases);
        for (int ph = 0; ph < phases; ++ph)
            H((double)limits[ph]), H(clearBefore[ph]);
        unsigned long evals = 0, evalsTotal = 0;
        ob::ProblemDefinition *pd = pdef.get();
        sys.ps = PropStats();
        ob::PlannerStatus st = ob::PlannerStatus::UNKNOWN;
        struct Found
        {
            ob::PlannerSolution sol;  // holds the path alive, so path addresses identify registrations uniquely
            ob::PlannerStatus status;
            int phase;
            unsigned long limit, evals;
            bool clearedBefore, exactExistedBefore;
        };
        std::vector<Found> found;
        std::set<const ob::Path *> seen;
        int curCall = 0;
        bool curCleared = false, curExactBefore = false;
        unsigned long curLimit = budget;
        auto base = [&]() {
            J j;
            j.str("planner", P).str("system", S).str("status", st.asString()).u("lib_seed", libSeed);
            j.num("step", h).u("min_steps", minD).u("max_steps", maxD).u("budget", curLimit).u("evals", evals);
            j.i("goal_kind", goalKind).num("threshold", thr).u("n_obstacles", w.obs.size()).i("solve_calls", phases);
            if (phases > 1)
            {
                std::vector<double> lim(limits.begin(), limits.end()), clr(clearBefore.begin(), clearBefore.end());
                j.i("call", curCall).arr("call_budgets", lim).arr("cleared_paths_before_call", clr);
                j.b("exact_solution_existed_before_call", curExactBefore);
            }
            if (creeping)
                j.num("control_scale", cscale);
            return j;
        };
        bool abandoned = false, everCleared = false, everExact = false;
        long maxCalls = 0;
        for (int ph = 0; ph < phases && !abandoned; ++ph)
        {
            if (clearBefore[ph])
            {
                pdef->clearSolutionPaths();
                everCleared = true;
                sink.count("c02_clearSolutionPaths_between_calls");
            }
            // "or an exact solution was registered" ends a call early only if none was there when the call began;
            // otherwise a continued call would return at once
            const bool stopOnExact = !pdef->hasExactSolution();
            const unsigned long limit = limits[ph];
            const PropStats *pstats = &sys.ps;
            const long callsAtStart = sys.ps.calls;
            evals = 0;
            curCall = ph, curCleared = clearBefore[ph], curExactBefore = everExact, curLimit = limit;
            const long callAllowance = std::max(callCap - callsAtStart, 20000l);
            ob::PlannerTerminationCondition ptc([&evals, limit, pd, pstats, callAllowance, callsAtStart, stopOnExact] {
                return ++evals > limit || pstats->calls - callsAtStart > callAllowance ||
                       (stopOnExact && pd->hasExactSolution());
            });
            try
            {
                st = planner->solve(ptc);
            }
            catch (std::exception &e)
            {
                sink.inconclusive("solve-exception:" + P);
                sink.noteCase(hash, false);
                return;
            }
            evalsTotal += evals;
            if (sys.ps.calls - callsAtStart > callAllowance)
                maxCalls = callCap + 1;  // marks "some call was ended by the propagation cap"
            sink.count("c02_solve_calls");
            if (ph > 0)
            {
                sink.count("c02_continued_solve_calls");
                if (everExact)
                    sink.count("c02_continued_solve_calls_after_exact_solution");
                if (limit <= 100)
                    sink.count("c02_continued_solve_calls_tiny_budget");
            }
            sink.count("c02_status:" + st.asString());
            const bool solStatus =
                st == ob::PlannerStatus::EXACT_SOLUTION || st == ob::PlannerStatus::APPROXIMATE_SOLUTION;
            size_t added = 0;
            for (const auto &sol : pdef->getSolutions())
                if (seen.insert(sol.path_.get()).second)
                {
                    found.push_back(Found{sol, st, ph, limit, evals, curCleared, curExactBefore});
                    ++added;
                    if (ph > 0)
                    {
                        sink.count("c02_paths_registered_by_continued_calls");
                        if (everExact)
                        {
                            sink.count(std::string("c02_paths_registered_after_exact_solution_") +
                                       (sol.approximate_ ? "approx" : "exact"));
                            sink.count("c02_paths_registered_after_exact_solution:" + P);
                        }
                    }
                }
            if (!solStatus && added > 0)
            {
                // a non-solution status must not register a path
                sink.viol("C02:nonsolution-added-path:" + P, base().u("paths_added_by_call", added));
                abandoned = true;
            }
            if (solStatus && pdef->getSolutionCount() == 0)
            {
                if (!everCleared)
                {
                    sink.viol("C02:empty-path:" + P,
                              base().str("what", "solution status but the problem definition has no path"));
                    abandoned = true;
                }
                else  // the harness emptied the list itself; the statement has no path to speak about (observation only)
                    sink.count("c02_solution_status_without_path_after_clearSolutionPaths:" + P);
            }
            if (solStatus && added == 0 && pdef->getSolutionCount() > 0)
                sink.count("c02_solution_status_without_new_path:" + P);
            if (pdef->hasExactSolution())
                everExact = true;
            for (const auto &f : found)
                if (!f.sol.approximate_)
                    everExact = true;
        }
        evals = evalsTotal;
        const PropStats libStats = sys.ps;
        sink.count("c02_lib_propagator_calls", libStats.calls);
        sink.count("c02_lib_propagator_calls_dt_not_step", libStats.notStep);
        sink.count("c02_lib_propagator_calls_in_place", libStats.aliased);
        sink.count("c02_ptc_evaluations", (long long)evals);
        if (maxCalls > callCap)
            sink.count("c02_cases_stopped_by_propagation_cap");
        if (abandoned)
        {
            sink.noteCase(hash, false);
            return;
        }
        if (found.empty())
        {
            sink.count("c02_nosolution:" + P);
            sink.inconclusive("no-solution");
            sink.noteCase(hash, false);
            return;
        }
        sink.count("c02_solutions_registered", (long long)found.size());
        if (found.size() > 1)
            sink.count("c02_cases_with_several_registered_paths");

        ob::State *cur = si->allocState(), *nxt = si->allocState();
        bool nontrivial = false;
        for (size_t k = 0; k < found.size(); ++k)
        {
            const ob::PlannerSolution &sol = found[k].sol;
            const bool approx = sol.approximate_;
            // base() reports the call that registered this path: its status, budget and history
            st = found[k].status;
            curCall = found[k].phase, curLimit = found[k].limit, evals = found[k].evals;
            curCleared = found[k].clearedBefore, curExactBefore = found[k].exactExistedBefore;
            auto *path = dynamic_cast<oc::PathControl *>(sol.path_.get());
            if (!path || path->getStateCount() == 0)
            {
                sink.viol("C02:empty-path:" + P, base().str("what", path ? "path without states" : "not a PathControl"));
                continue;
            }
            const std::vector<ob::State *> &states = path->getStates();
            const std::vector<oc::Control *> &controls = path->getControls();
            const std::vector<double> &durs = path->getControlDurations();
            if (states.size() != controls.size() + 1 || durs.size() != controls.size())
            {
                sink.viol("C02:empty-path:" + P, base()
                                                      .str("what", "states/controls/durations counts inconsistent")
                                                      .u("states", states.size())
                                                      .u("controls", controls.size())
                                                      .u("durations", durs.size()));
                continue;
            }
            sink.count(std::string(approx ? "c02_solutions_approx:" : "c02_solutions_exact:") + P);

            // flag <-> status of the call that registered the path
            {
                const bool statusApprox = st == ob::PlannerStatus::APPROXIMATE_SOLUTION;
                if (approx != statusApprox)
                    sink.viol("C02:approx-flag-status:" + P,
                              base().b("flagged_approximate", approx).num("difference", sol.difference_)
                                  .num("distanceGoal_last", [&] {
                                      auto *gr = dynamic_cast<ob::GoalRegion *>(pdef->getGoal().get());
                                      return gr ? gr->distanceGoal(states.back()) : -1.;
                                  }())
                                  .b("last_satisfies_goal", pdef->getGoal()->isSatisfied(states.back())));
            }

            // first state = a valid start state
            {
                bool isStart = false;
                for (auto &s : starts)
                    if (sys.space->equalStates(s.get(), states[0]))
                        isStart = true;
                if (!isStart || !valid(states[0]))
                    sink.viol("C02:start-state:" + P, base().arr("first", compVec(sys, states[0])).b("is_start", isStart)
                                                          .b("valid", valid(states[0])));
                sink.count("c02_start_checks");
            }

            // every control: duration, bounds, replay
            long stepsHere = 0;
            bool durViol[2] = {false, false}, misViol[2] = {false, false}, oobViol = false, invViol = false;
            for (size_t i = 0; i < controls.size(); ++i)
            {
                // input class of this control (part of the key): does one propagation step from the recorded state move
                // the state by less than float epsilon in the state-space metric?
                sys.step(states[i], controls[i], h, nxt);
                const bool subEps = si->distance(states[i], nxt) < std::numeric_limits<float>::epsilon();
                const std::string cls = subEps ? ":steps-below-float-eps" : "";
                if (subEps)
                    sink.count("c02_controls_with_steps_below_float_eps");
                const double q = durs[i] / h;
                const double rq = std::floor(q + 0.5);
                if (!(std::fabs(q - rq) <= 1e-9) || !(rq >= 1) || !(rq < 1e9))
                {
                    if (!durViol[subEps])
                        sink.viol("C02:duration-not-multiple:" + P + cls,
                                  base().u("control_index", i).num("duration", durs[i]).num("ratio", q));
                    durViol[subEps] = true;
                    continue;  // nothing sensible to replay for this control
                }
                const long n = (long)rq;
                if ((unsigned long)n < minD)
                    sink.count("c02_controls_below_min_duration");
                if ((unsigned long)n > maxD)
                    sink.count("c02_controls_above_max_duration");
                const double *u = controls[i]->as<oc::RealVectorControlSpace::ControlType>()->values;
                for (int d = 0; d < 2; ++d)
                {
                    const double mlo = std::numeric_limits<double>::epsilon() + 4 * ulp(sys.clo[d]);
                    const double mhi = std::numeric_limits<double>::epsilon() + 4 * ulp(sys.chi[d]);
                    if (!(u[d] >= sys.clo[d] - mlo && u[d] <= sys.chi[d] + mhi))
                    {
                        if (!oobViol)
                            sink.viol("C02:control-oob:" + P, base().u("control_index", i).i("dim", d).num("value", u[d])
                                                                  .num("low", sys.clo[d]).num("high", sys.chi[d]));
                        oobViol = true;
                    }
                }
                // replay from the RECORDED state i, so one mismatch does not cascade
                si->copyState(cur, states[i]);
                long firstInvalid = -1;
                for (long j = 0; j < n; ++j)
                {
                    sys.step(cur, controls[i], h, nxt);
                    if (firstInvalid < 0 && !valid(nxt))
                        firstInvalid = j;
                    std::swap(cur, nxt);
                }
                stepsHere += n;
                if (firstInvalid >= 0)
                {
                    if (!invViol)
                        sink.viol("C02:replay-invalid-step:" + P, base().u("control_index", i).i("steps", n)
                                                                      .i("first_invalid_step", firstInvalid + 1)
                                                                      .arr("from", compVec(sys, states[i]))
                                                                      .arr("control", {u[0], u[1]}));
                    invViol = true;
                }
                double va[4], vb[4];
                sys.comps(cur, va);
                sys.comps(states[i + 1], vb);
                double worst = 0;
                bool bitEq = true;
                for (unsigned d = 0; d < sys.ncomp(); ++d)
                {
                    if (memcmp(&va[d], &vb[d], sizeof(double)) != 0)
                        bitEq = false;
                    double e = std::fabs(va[d] - vb[d]);
                    if (sk == S_CAR && d == 2 && e > M_PI)
                        e = 2 * M_PI - e;
                    if (!(e <= worst))
                        worst = e;
                }
                sink.maxstat("c02_worst_replay_error", worst);
                if (!(worst <= tol))
                {
                    if (!misViol[subEps])
                    {
                        // diagnosis aid: which step count would have reproduced the recorded state best
                        long bestN = -1;
                        double bestE = std::numeric_limits<double>::infinity();
                        si->copyState(cur, states[i]);
                        for (long j = 1; j <= std::max<long>(n, (long)maxD) + 5; ++j)
                        {
                            sys.step(cur, controls[i], h, nxt);
                            std::swap(cur, nxt);
                            double w2[4], e = 0;
                            sys.comps(cur, w2);
                            for (unsigned d = 0; d < sys.ncomp(); ++d)
                            {
                                double ee = std::fabs(w2[d] - vb[d]);
                                if (sk == S_CAR && d == 2 && ee > M_PI)
                                    ee = 2 * M_PI - ee;
                                e = std::max(e, ee);
                            }
                            if (e < bestE)
                                bestE = e, bestN = j;
                        }
                        // and one long step of n*h
                        si->copyState(cur, states[i]);
                        sys.step(cur, controls[i], durs[i], nxt);
                        double w3[4], eLong = 0;
                        sys.comps(nxt, w3);
                        for (unsigned d = 0; d < sys.ncomp(); ++d)
                            eLong = std::max(eLong, std::fabs(w3[d] - vb[d]));
                        sink.viol("C02:replay-mismatch:" + P + cls,
                                  base().u("control_index", i).u("controls", controls.size()).i("steps", n)
                                      .num("error", worst).num("tolerance", tol)
                                      .arr("from", compVec(sys, states[i])).arr("control", {u[0], u[1]})
                                      .arr("recorded_next", compVec(sys, states[i + 1]))
                                      .arr("replayed_next", std::vector<double>(va, va + sys.ncomp()))
                                      .i("best_matching_step_count", bestN).num("error_at_best", bestE)
                                      .num("error_of_single_long_step", eLong));
                    }
                    misViol[subEps] = true;
                }
                else
                {
                    sink.count(bitEq ? "c02_replay_bitwise_equal" : "c02_replay_tolerance_equal_only");
                    if (!bitEq)
                        sink.count("c02_replay_tolerance_equal_only:" + P + cls);
                }
                sink.count("c02_controls_replayed");
                if (n >= 2)
                {
                    sink.count("c02_multistep_controls");
                    if (sk == S_DINT)
                    {
                        // sensitivity of the oracle: would one long Euler step have been told apart?
                        si->copyState(cur, states[i]);
                        sys.step(cur, controls[i], durs[i], nxt);
                        double w3[4], eLong = 0;
                        sys.comps(nxt, w3);
                        for (unsigned d = 0; d < 4; ++d)
                            eLong = std::max(eLong, std::fabs(w3[d] - vb[d]));
                        if (eLong > tol)
                            sink.count("c02_dint_controls_where_long_step_differs");
                    }
                }
            }
            sink.count("c02_steps_replayed", stepsHere);
            sink.maxstat("c02_max_controls_in_path", (double)controls.size());

            // last state vs goal
            const ob::State *last = states.back();
            auto *gr = dynamic_cast<ob::GoalRegion *>(pdef->getGoal().get());
            if (!approx)
            {
                sink.count("c02_goal_checks_exact");
                if (!pdef->getGoal()->isSatisfied(last))
                    sink.viol("C02:goal-not-satisfied:" + P,
                              base().arr("last", compVec(sys, last)).num("distanceGoal", gr ? gr->distanceGoal(last) : -1.)
                                  .arr("goal_xy", {gx, gy}));
            }
            else
            {
                sink.count("c02_goal_checks_approx");
                const double dg = gr->distanceGoal(last);
                if (!(std::fabs(sol.difference_ - dg) <= tol))
                    sink.viol("C02:approx-difference:" + P, base().num("reported_difference", sol.difference_)
                                                                .num("distanceGoal_last", dg)
                                                                .arr("last", compVec(sys, last)));
                if (pdef->getGoal()->isSatisfied(last))
                    sink.count("c02_approx_flag_but_goal_satisfied");
            }
            // the interpolated form (PathControl::interpolate(): one control per propagation step) is the library's own way of
            // applying the recorded controls for their recorded durations: one state per step, every duration one step, same end
            if (!durViol[0] && !durViol[1] && !misViol[0] && !misViol[1] && !controls.empty())
            {
                oc::PathControl ip(*path);
                ip.interpolate();
                sink.count("c02_interpolated_forms_checked");
                std::string bad;
                if ((long)ip.getStateCount() != 1 + stepsHere || (long)ip.getControlCount() != stepsHere)
                    bad = "state/control count differs from the number of recorded steps";
                else
                {
                    for (double d : ip.getControlDurations())
                        if (!(std::fabs(d - h) <= 1e-9 * h)) bad = "a duration of the interpolated form is not one step";
                    double va[4], vb[4];
                    sys.comps(ip.getState(ip.getStateCount() - 1), va);
                    sys.comps(last, vb);
                    for (unsigned d = 0; d < sys.ncomp() && bad.empty(); ++d)
                    {
                        double e = std::fabs(va[d] - vb[d]);
                        if (sk == S_CAR && d == 2 && e > M_PI) e = 2 * M_PI - e;
                        if (!(e <= tol)) bad = "the interpolated form ends at a different state";
                    }
                }
                if (!bad.empty())
                    sink.viol("C02:interpolated-form:PathControl", base().str("what", bad).i("recorded_steps", stepsHere).u("interpolated_states", ip.getStateCount())
                                                                       .u("controls", controls.size()).num("step_size", h).str("planner", P));
            }
            if (controls.size() >= 2)
            {
                nontrivial = true;
                sink.count("c02_replayed:" + P);
                sink.count("c02_replayed_sys:" + S);
                sink.count("c02_replayed:" + P + ":" + S);
            }
            else
                sink.count("c02_short_paths_lt2_controls");
            if (nontrivial && k == 0)
                sink.sample(base().u("controls", controls.size()).i("steps", stepsHere).b("approximate", approx)
                                .num("difference", sol.difference_).arr("world", {w.x0, w.y0, w.W, w.H})
                                .arr("start_xy", {sx, sy}).arr("goal_xy", {gx, gy})
                                .arr("control_low", {sys.clo[0], sys.clo[1]}).arr("control_high", {sys.chi[0], sys.chi[1]})
                                .arr("first_control", {controls[0]->as<oc::RealVectorControlSpace::ControlType>()->values[0],
                                                       controls[0]->as<oc::RealVectorControlSpace::ControlType>()->values[1]})
                                .num("first_duration", durs[0]).arr("last", compVec(sys, last)));
        }
        si->freeState(cur);
        si->freeState(nxt);
        sink.noteCase(hash, nontrivial);
    }
}  // namespace

int main(int argc, char **argv)
{
    Args a = parseArgs(argc, argv);
    ompl::msg::setLogLevel(ompl::msg::LOG_NONE);
    Sink sink(a);
    long total;
    if (a.prop == "C02")
        total = a.thorough() ? 22000 : 6000;
    else
    {
        fprintf(stderr, "h_control does not serve %s\n", a.prop.c_str());
        return 2;
    }
    total = (long)(total * a.scale);
    for (long c = 0; c < total; ++c)
    {
        if (!mine(a, c) || !sink.wanted(c))
            continue;
        sink.begin(c);
        runCase(sink, a, c);
    }
    sink.done();
    return 0;
}
