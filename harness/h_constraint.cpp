// Engine h_constraint: C16 — constrained spaces keep sampled, interpolated and path states on the manifold.
//   one case = (manifold with analytic Jacobian, Projected | Atlas | TangentBundle, delta, lambda, tolerance, atlas parameters,
//               ambient-ball obstacles, planner) and runs
//     * a sampling block      : sampleUniform / sampleUniformNear / sampleGaussian                      -> ||F(x)|| <= tolerance
//     * a pair block          : near / far / across-obstacle on-manifold pairs: interpolate on a t grid  -> ||F(x)|| <= tolerance
//                               discreteGeodesic (interpolate = true / false); for Projected and Atlas a geodesic that reports
//                               success has every state on the manifold, steps <= lambda*delta, end within delta of the target
//     * a planning block      : RRT / RRTConnect / PRM / KPIECE1 / BIT* under an evaluation-counting termination condition;
//                               every vertex of every solution path satisfies the constraint
//   F is evaluated by the harness's own constraint code; tolerances: the constraint's tolerance (1e-9 relative slack), the space's
//   own distance with 1e-9 relative slack for the (tight) step / end bounds (DESIGN 4/C16).
#include "common.h"
#include <ompl/base/Constraint.h>
#include <ompl/base/ConstrainedSpaceInformation.h>
#include <ompl/base/spaces/RealVectorStateSpace.h>
#include <ompl/base/spaces/constraint/ProjectedStateSpace.h>
#include <ompl/base/spaces/constraint/AtlasStateSpace.h>
#include <ompl/base/spaces/constraint/TangentBundleStateSpace.h>
#include <ompl/base/ProblemDefinition.h>
#include <ompl/base/ProjectionEvaluator.h>
#include <ompl/base/ScopedState.h>
#include <ompl/geometric/PathGeometric.h>
#include <ompl/geometric/planners/rrt/RRT.h>
#include <ompl/geometric/planners/rrt/RRTConnect.h>
#include <ompl/geometric/planners/prm/PRM.h>
#include <ompl/geometric/planners/kpiece/KPIECE1.h>
#include <ompl/geometric/planners/informedtrees/BITstar.h>
#include <ompl/util/Console.h>
#include <ompl/util/Exception.h>
#include <ompl/util/RandomNumbers.h>
#include <Eigen/Dense>
#include <atomic>
#include <memory>

using namespace vf;
namespace ob = ompl::base;
namespace og = ompl::geometric;
using EV = Eigen::VectorXd;
using CRef = Eigen::Ref<const Eigen::VectorXd>;
static const double PI = 3.14159265358979323846;

// ---------------------------------------------------------------------------------------------------------
// manifold zoo (all with analytic Jacobians)
// ---------------------------------------------------------------------------------------------------------
struct Manifold : ob::Constraint
{
    std::string name, params;  // params: everything needed to rebuild the constraint from a witness
    EV lo, hi;                 // ambient bounds
    bool compact = true;
    bool cutByBox = false;     // one face of the ambient box cuts a cap off the (compact) manifold
    Manifold(unsigned n, unsigned co, std::string nm) : ob::Constraint(n, co), name(std::move(nm)) {}
    using ob::Constraint::function;
    using ob::Constraint::jacobian;
    double F(const ob::State *s) const
    {
        EV out(getCoDimension());
        function(*s->as<ob::ConstrainedStateSpace::StateType>(), out);
        double v = out.norm();
        return std::isfinite(v) ? v : std::numeric_limits<double>::infinity();
    }
};

struct SphereM : Manifold
{
    EV c0;
    double R;
    SphereM(const EV &c, double r) : Manifold(3, 1, "sphere"), c0(c), R(r) {}
    void function(const CRef &x, Eigen::Ref<EV> out) const override { out[0] = (x - c0).norm() - R; }
    void jacobian(const CRef &x, Eigen::Ref<Eigen::MatrixXd> out) const override { out = (x - c0).transpose().normalized(); }
};
struct EllipsoidM : Manifold
{
    EV c0, ax;
    EllipsoidM(const EV &c, const EV &a) : Manifold(3, 1, "ellipsoid"), c0(c), ax(a) {}
    void function(const CRef &x, Eigen::Ref<EV> out) const override { out[0] = ((x - c0).array() / ax.array()).matrix().norm() - 1; }
    void jacobian(const CRef &x, Eigen::Ref<Eigen::MatrixXd> out) const override
    {
        EV y = (x - c0).array() / ax.array();
        double q = y.norm();
        out = (y.array() / ax.array()).matrix().transpose() / q;
    }
};
struct TorusM : Manifold
{
    EV c0;
    double R, r;
    TorusM(const EV &c, double Rr, double rr) : Manifold(3, 1, "torus"), c0(c), R(Rr), r(rr) {}
    void function(const CRef &x, Eigen::Ref<EV> out) const override
    {
        EV y = x - c0;
        double h = std::hypot(y[0], y[1]) - R;
        out[0] = std::sqrt(h * h + y[2] * y[2]) - r;
    }
    void jacobian(const CRef &x, Eigen::Ref<Eigen::MatrixXd> out) const override
    {
        EV y = x - c0;
        double hh = std::hypot(y[0], y[1]), h = hh - R, q = std::sqrt(h * h + y[2] * y[2]);
        out(0, 0) = h / q * y[0] / hh;
        out(0, 1) = h / q * y[1] / hh;
        out(0, 2) = y[2] / q;
    }
};
// one or two hyperplanes A x = b (rows of A orthonormal)
struct PlanesM : Manifold
{
    Eigen::MatrixXd A;
    EV b;
    PlanesM(const Eigen::MatrixXd &a, const EV &bb, const std::string &nm) : Manifold(a.cols(), a.rows(), nm), A(a), b(bb) { compact = false; }
    void function(const CRef &x, Eigen::Ref<EV> out) const override { out = A * x - b; }
    void jacobian(const CRef &, Eigen::Ref<Eigen::MatrixXd> out) const override { out = A; }
};
// sphere ∩ hyperplane (codimension 2) in R^3 / R^4
struct SpherePlaneM : Manifold
{
    EV c0, a;
    double R, off;
    SpherePlaneM(const EV &c, double r, const EV &aa, double o) : Manifold(c.size(), 2, "sphere-cap-plane"), c0(c), a(aa), R(r), off(o) {}
    void function(const CRef &x, Eigen::Ref<EV> out) const override
    {
        out[0] = (x - c0).norm() - R;
        out[1] = a.dot(x - c0) - off;
    }
    void jacobian(const CRef &x, Eigen::Ref<Eigen::MatrixXd> out) const override
    {
        out.row(0) = (x - c0).transpose().normalized();
        out.row(1) = a.transpose();
    }
};
// S^2 x S^1 in R^5
struct ProductM : Manifold
{
    EV c0;
    double R1, R2;
    ProductM(const EV &c, double r1, double r2) : Manifold(5, 2, "S2xS1"), c0(c), R1(r1), R2(r2) {}
    void function(const CRef &x, Eigen::Ref<EV> out) const override
    {
        EV y = x - c0;
        out[0] = y.head(3).norm() - R1;
        out[1] = y.tail(2).norm() - R2;
    }
    void jacobian(const CRef &x, Eigen::Ref<Eigen::MatrixXd> out) const override
    {
        EV y = x - c0;
        out.setZero();
        out.block(0, 0, 1, 3) = y.head(3).transpose().normalized();
        out.block(1, 3, 1, 2) = y.tail(2).transpose().normalized();
    }
};

static EV randVec(Rng &rng, int n, double lo, double hi)
{
    EV v(n);
    for (int i = 0; i < n; ++i) v[i] = rng.uni(lo, hi);
    return v;
}
static EV randUnit(Rng &rng, int n)
{
    EV v(n);
    for (int i = 0; i < n; ++i) v[i] = rng.gauss();
    return v.normalized();
}

static std::string fmtV(const EV &v)
{
    std::string s = "[";
    for (int i = 0; i < v.size(); ++i) s += (i ? "," : "") + jnum(v[i]);
    return s + "]";
}

static std::shared_ptr<Manifold> makeManifoldRaw(Rng &rng, int kind);
static std::shared_ptr<Manifold> makeManifold(Rng &rng, int kind)
{
    auto m = makeManifoldRaw(rng, kind);
    std::string p;
    if (auto *q = dynamic_cast<SphereM *>(m.get())) p = "F=|x-c|-R c=" + fmtV(q->c0) + " R=" + jnum(q->R);
    else if (auto *q = dynamic_cast<EllipsoidM *>(m.get())) p = "F=|(x-c)/a|-1 c=" + fmtV(q->c0) + " a=" + fmtV(q->ax);
    else if (auto *q = dynamic_cast<TorusM *>(m.get())) p = "F=sqrt((hypot(y0,y1)-R)^2+y2^2)-r y=x-c c=" + fmtV(q->c0) + " R=" + jnum(q->R) + " r=" + jnum(q->r);
    else if (auto *q = dynamic_cast<PlanesM *>(m.get()))
    {
        p = "F=Ax-b";
        for (int i = 0; i < q->A.rows(); ++i) p += " A" + std::to_string(i) + "=" + fmtV(q->A.row(i).transpose());
        p += " b=" + fmtV(q->b);
    }
    else if (auto *q = dynamic_cast<SpherePlaneM *>(m.get())) p = "F=(|x-c|-R, a.(x-c)-off) c=" + fmtV(q->c0) + " R=" + jnum(q->R) + " a=" + fmtV(q->a) + " off=" + jnum(q->off);
    else if (auto *q = dynamic_cast<ProductM *>(m.get())) p = "F=(|y[0:3]|-R1, |y[3:5]|-R2) y=x-c c=" + fmtV(q->c0) + " R1=" + jnum(q->R1) + " R2=" + jnum(q->R2);
    m->params = p + " bounds lo=" + fmtV(m->lo) + " hi=" + fmtV(m->hi);
    return m;
}

static std::shared_ptr<Manifold> makeManifoldRaw(Rng &rng, int kind)
{
    std::shared_ptr<Manifold> m;
    auto box = [&](Manifold &M, const EV &c0, const EV &half) {
        double margin = rng.uni(0.2, 1.0);
        M.lo = c0 - half - EV::Constant(half.size(), margin);
        M.hi = c0 + half + EV::Constant(half.size(), margin);
        // a fifth of the compact manifolds are cut by one face of the ambient box (a cap lies outside the bounds)
        if (rng.coin(0.2))
        {
            int j = (int)rng.ui((uint64_t)half.size());
            double f = rng.uni(0.6, 0.97);
            if (rng.coin()) M.hi[j] = c0[j] + f * half[j];
            else M.lo[j] = c0[j] - f * half[j];
            M.cutByBox = true;
        }
    };
    switch (kind)
    {
        case 0:
        {
            EV c = randVec(rng, 3, -1, 1);
            double R = rng.uni(0.5, 1.5);
            m = std::make_shared<SphereM>(c, R);
            box(*m, c, EV::Constant(3, R));
            break;
        }
        case 1:
        {
            EV c = randVec(rng, 3, -1, 1), ax = randVec(rng, 3, 0.5, 1.5);
            m = std::make_shared<EllipsoidM>(c, ax);
            box(*m, c, ax);
            break;
        }
        case 2:
        {
            EV c = randVec(rng, 3, -1, 1);
            double R = rng.uni(0.8, 1.5), r = rng.uni(0.2, 0.5);
            m = std::make_shared<TorusM>(c, R, r);
            EV half(3);
            half << R + r, R + r, r;
            box(*m, c, half);
            break;
        }
        case 3:  // plane in R^4..R^6, axis-aligned (projection never leaves the box) or tilted
        case 4:  // two planes
        {
            int n = rng.range(4, 6), co = kind == 3 ? 1 : 2;
            bool axis = rng.coin(0.5);
            Eigen::MatrixXd A = Eigen::MatrixXd::Zero(co, n);
            if (axis)
            {
                int i0 = (int)rng.ui(n), i1 = (int)rng.ui(n - 1);
                if (i1 >= i0) ++i1;
                A(0, i0) = 1;
                if (co == 2) A(1, i1) = 1;
            }
            else
            {
                A.row(0) = randUnit(rng, n).transpose();
                if (co == 2)
                {
                    EV v = randUnit(rng, n);
                    v -= v.dot(A.row(0).transpose()) * A.row(0).transpose();
                    A.row(1) = v.normalized().transpose();
                }
            }
            EV b = randVec(rng, co, -0.4, 0.4);
            m = std::make_shared<PlanesM>(A, b, std::string(co == 1 ? "plane" : "two-planes") + (axis ? "-axis-aligned" : "-tilted"));
            double B = rng.uni(1, 3);
            m->lo = EV::Constant(n, -B);
            m->hi = EV::Constant(n, B);
            break;
        }
        case 5:
        {
            int n = rng.range(3, 4);
            EV c = randVec(rng, n, -1, 1), a = randUnit(rng, n);
            double R = rng.uni(0.6, 1.5), off = rng.uni(-0.6, 0.6) * R;
            m = std::make_shared<SpherePlaneM>(c, R, a, off);
            box(*m, c, EV::Constant(n, R));
            break;
        }
        default:
        {
            EV c = randVec(rng, 5, -1, 1);
            double R1 = rng.uni(0.6, 1.3), R2 = rng.uni(0.5, 1.2);
            m = std::make_shared<ProductM>(c, R1, R2);
            EV half(5);
            half << R1, R1, R1, R2, R2;
            box(*m, c, half);
            break;
        }
    }
    return m;
}

// first two ambient coordinates, for KPIECE1
struct AmbientProjection : ob::ProjectionEvaluator
{
    double cell;
    AmbientProjection(const ob::StateSpacePtr &s, double c) : ob::ProjectionEvaluator(s), cell(c) {}
    unsigned int getDimension() const override { return 2; }
    void defaultCellSizes() override { cellSizes_.assign(2, cell); }
    void project(const ob::State *state, Eigen::Ref<Eigen::VectorXd> projection) const override
    {
        auto &&x = *state->as<ob::ConstrainedStateSpace::StateType>();
        projection(0) = x[0];
        projection(1) = x[1];
    }
};

struct Obstacle
{
    EV c;
    double r;
};

static const char *SPACE_NAME[] = {"ProjectedStateSpace", "AtlasStateSpace", "TangentBundleStateSpace"};
static const char *PLANNER_NAME[] = {"RRT", "RRTConnect", "PRM", "KPIECE1", "BITstar"};

struct Ctx
{
    Sink &sink;
    std::shared_ptr<Manifold> man;
    ob::ConstrainedStateSpacePtr css;
    ob::ConstrainedSpaceInformationPtr csi;
    int spaceKind;
    double delta, lambda, tol, tolF;
    std::set<std::string> fired;  // one witness per clause and case: consequences are not reported as causes
    J base() const
    {
        J j;
        j.str("manifold", man->name).str("manifold_params", man->params).str("space", SPACE_NAME[spaceKind]).num("delta", delta).num("lambda", lambda).num("tolerance", tol);
        return j;
    }
    std::vector<double> vec(const ob::State *s) const
    {
        const EV &x = *s->as<ob::ConstrainedStateSpace::StateType>();
        return std::vector<double>(x.data(), x.data() + x.size());
    }
    bool clamped(const ob::State *s) const
    {
        const EV &x = *s->as<ob::ConstrainedStateSpace::StateType>();
        for (int i = 0; i < x.size(); ++i)
            if (x[i] == man->lo[i] || x[i] == man->hi[i]) return true;
        return false;
    }
    bool on(const ob::State *s) const { return man->F(s) <= tolF; }
    // returns true if on the manifold; otherwise reports (first witness per clause and case)
    bool expectOn(const ob::State *s, const char *clause, J extra)
    {
        double f = man->F(s);
        if (f <= tolF || !clamped(s)) sink.maxstat("c16_max_F_over_tolerance_unclamped", std::min(f / tol, 1e300));
        if (f <= tolF) return true;
        std::string key = std::string("C16:") + clause + ":" + SPACE_NAME[spaceKind];
        // a sampler state that enforceBounds() clamped into the ambient box after the projection is one root cause whichever of
        // the three sampler calls produced it (and a different one than a projection that did not converge): one key per sampler
        // class, the call is in the witness
        if (clamped(s))
        {
            std::string c = clause;
            if (c == "sample-off-manifold" || c == "near-off-manifold" || c == "gaussian-off-manifold")
                key = std::string("C16:sample-off-manifold:") + SPACE_NAME[spaceKind] + ":clamped-to-bounds";
            else
                key += ":clamped-to-bounds";
        }
        if (fired.insert(key).second) sink.viol(key, extra.raw("ctx", base().done()).arr("state", vec(s)).num("F_norm", f));
        return false;
    }
};

static void runCase(Sink &sink, const Args &a, long cs)
{
    Rng rng(caseSeed(a, cs));
    ompl::RNG::setSeed(caseSeed(a, cs, 1) % 1000000000 + 1);
    const int manKind = (int)rng.ui(7);
    const int spaceKind = (int)rng.ui(3);
    int plannerKind = (int)rng.ui(5);
    auto man = makeManifold(rng, manKind);
    const int n = (int)man->getAmbientDimension();
    const double delta = rng.logUni(0.01, 0.5), lambda = rng.uni(1.5, 5), tol = rng.logUni(1e-6, 1e-3);

    uint64_t hsh = hmix(hmix(hashStr(man->name), spaceKind), plannerKind);
    hsh = hmixd(hmixd(hmixd(hsh, std::floor(std::log10(delta) * 8)), std::floor(lambda * 2)), std::floor(std::log10(tol) * 4));

    auto amb = std::make_shared<ob::RealVectorStateSpace>(n);
    {
        ob::RealVectorBounds b(n);
        for (int i = 0; i < n; ++i) b.setLow(i, man->lo[i]), b.setHigh(i, man->hi[i]);
        amb->setBounds(b);
    }
    Ctx X{sink, man, nullptr, nullptr, spaceKind, delta, lambda, tol, tol * (1 + 1e-9), {}};
    std::vector<Obstacle> obst;
    long geodesicStatesSeen = 0, pathVerticesSeen = 0;
    try
    {
        // --- setup exactly as the library's demos do (demos/constraint/ConstrainedPlanningCommon.h)
        ob::ConstrainedStateSpacePtr css;
        ob::ConstrainedSpaceInformationPtr csi;
        if (spaceKind == 0)
        {
            css = std::make_shared<ob::ProjectedStateSpace>(amb, man);
            csi = std::make_shared<ob::ConstrainedSpaceInformation>(css);
        }
        else if (spaceKind == 1)
        {
            css = std::make_shared<ob::AtlasStateSpace>(amb, man);
            csi = std::make_shared<ob::ConstrainedSpaceInformation>(css);
        }
        else
        {
            css = std::make_shared<ob::TangentBundleStateSpace>(amb, man);
            csi = std::make_shared<ob::TangentBundleSpaceInformation>(css);
        }
        css->setup();
        man->setTolerance(tol);
        if (rng.coin(0.3)) man->setMaxIterations(rng.range(20, 200));
        css->setDelta(delta);
        css->setLambda(lambda);
        if (spaceKind > 0)
        {
            auto *atlas = css->as<ob::AtlasStateSpace>();
            if (rng.coin(0.5)) atlas->setExploration(rng.uni(0.5, 0.9));
            if (rng.coin(0.5)) atlas->setEpsilon(rng.uni(0.02, 0.2));
            if (rng.coin(0.5)) atlas->setRho(std::min(0.6, std::max(0.05, 5 * delta)));  // demos: delta * RHO_MULTIPLIER
            if (rng.coin(0.5)) atlas->setAlpha(rng.uni(PI / 16, PI / 4));
            if (rng.coin(0.3)) atlas->setMaxChartsPerExtension(rng.range(20, 400));
            if (spaceKind == 1 && rng.coin(0.3)) atlas->setSeparated(false);
            atlas->setup();
        }
        csi->setStateValidityChecker([&obst](const ob::State *s) {
            const EV &x = *s->as<ob::ConstrainedStateSpace::StateType>();
            for (auto &o : obst)
                if ((x - o.c).squaredNorm() < o.r * o.r) return false;
            return true;
        });
        csi->setup();
        X.css = css;
        X.csi = csi;

        // --- two on-manifold anchor states (harness PRNG + the constraint's Newton projection, verified by F)
        auto seedState = [&](ob::State *st) {
            for (int tries = 0; tries < 200; ++tries)
            {
                EV x(n);
                for (int i = 0; i < n; ++i) x[i] = rng.uni(man->lo[i], man->hi[i]);
                if (!man->project(x)) continue;
                bool in = true;
                for (int i = 0; i < n && in; ++i) in = x[i] > man->lo[i] && x[i] < man->hi[i];
                if (!in) continue;
                st->as<ob::ConstrainedStateSpace::StateType>()->copy(x);
                if (X.on(st)) return true;
            }
            return false;
        };
        ob::ScopedState<> start(css), goal(css);
        bool seeded = seedState(start.get());
        for (int t = 0; seeded && t < 50; ++t)
        {
            seeded = seedState(goal.get());
            if (seeded && css->distance(start.get(), goal.get()) > 4 * delta) break;
        }
        if (!seeded)
        {
            sink.inconclusive("no-on-manifold-seed");
            sink.noteCase(hsh, false);
            return;
        }
        if (spaceKind > 0)
        {
            css->as<ob::AtlasStateSpace>()->anchorChart(start.get());
            css->as<ob::AtlasStateSpace>()->anchorChart(goal.get());
        }
        sink.count(std::string("c16_cases_") + SPACE_NAME[spaceKind]);
        sink.count("c16_cases_manifold_" + man->name);
        if (man->cutByBox) sink.count("c16_cases_manifold_cut_by_ambient_box");

        auto smp = css->allocStateSampler();
        ob::ScopedState<> p(css), q(css), o(css);

        // ---------------- sampling block
        const int nSamp = 60;
        for (int i = 0; i < nSamp; ++i)
        {
            smp->sampleUniform(p.get());
            sink.count("c16_uniform_samples");
            if (!X.expectOn(p.get(), "sample-off-manifold", J().str("call", "sampleUniform"))) continue;  // `near` must be on the manifold
            double dn = rng.coin() ? rng.uni(1, 10) * delta : rng.uni(0.05, 1.0);
            smp->sampleUniformNear(q.get(), p.get(), dn);
            sink.count("c16_near_samples");
            X.expectOn(q.get(), "near-off-manifold", J().str("call", "sampleUniformNear").num("distance", dn).arr("near", X.vec(p.get())));
            double sd = rng.coin() ? rng.uni(0.5, 4) * delta : rng.uni(0.02, 0.5);
            smp->sampleGaussian(q.get(), p.get(), sd);
            sink.count("c16_gaussian_samples");
            X.expectOn(q.get(), "gaussian-off-manifold", J().str("call", "sampleGaussian").num("stdDev", sd).arr("mean", X.vec(p.get())));
        }

        // ---------------- obstacles: ambient balls centred on the manifold between two on-manifold points
        struct Pair
        {
            EV a, b;
            int kind;  // 0 near 1 far 2 across
        };
        std::vector<Pair> pairs;
        auto asVec = [&](const ob::State *s) { return EV(*s->as<ob::ConstrainedStateSpace::StateType>()); };
        const int nObst = (int)rng.ui(4);
        for (int k = 0; k < nObst; ++k)
        {
            smp->sampleUniform(p.get());
            smp->sampleUniform(q.get());
            if (!X.on(p.get()) || !X.on(q.get())) continue;
            EV pa = asVec(p.get()), qa = asVec(q.get()), mid = 0.5 * (pa + qa);
            double dpq = (pa - qa).norm();
            if (dpq < 6 * delta || !man->project(mid)) continue;
            Obstacle ob_{mid, rng.uni(0.15, 0.35) * dpq};
            // keep start, goal and the pair's end points free
            if ((asVec(start.get()) - mid).norm() < ob_.r * 1.2 || (asVec(goal.get()) - mid).norm() < ob_.r * 1.2) continue;
            if ((pa - mid).norm() < ob_.r * 1.2 || (qa - mid).norm() < ob_.r * 1.2) continue;
            bool hitsOld = false;
            for (auto &pr : pairs) hitsOld = hitsOld || (pr.a - mid).norm() < ob_.r * 1.2 || (pr.b - mid).norm() < ob_.r * 1.2;
            if (hitsOld) continue;
            obst.push_back(ob_);
            pairs.push_back({pa, qa, 2});
        }
        sink.count("c16_obstacles", (long)obst.size());
        // an obstacle between start and goal
        if (rng.coin(0.6))
        {
            EV sa = asVec(start.get()), ga = asVec(goal.get()), mid = 0.5 * (sa + ga);
            double dsg = (sa - ga).norm();
            if (man->project(mid) && dsg > 8 * delta)
            {
                Obstacle ob_{mid, rng.uni(0.1, 0.3) * dsg};
                bool bad = (sa - mid).norm() < 1.3 * ob_.r || (ga - mid).norm() < 1.3 * ob_.r;
                for (auto &pr : pairs) bad = bad || (pr.a - mid).norm() < ob_.r * 1.2 || (pr.b - mid).norm() < ob_.r * 1.2;
                if (!bad)
                {
                    obst.push_back(ob_);
                    pairs.push_back({sa, ga, 2});
                    sink.count("c16_start_goal_across_obstacle");
                }
            }
        }
        // near and far pairs
        const int nNear = 10, nFar = 4;
        for (int k = 0; k < nNear + nFar; ++k)
        {
            smp->sampleUniform(p.get());
            if (k < nNear) smp->sampleUniformNear(q.get(), p.get(), rng.uni(1, 12) * delta);
            else smp->sampleUniform(q.get());
            if (!X.on(p.get()) || !X.on(q.get())) continue;  // already reported by the sampling clause if it happens there
            pairs.push_back({asVec(p.get()), asVec(q.get()), k < nNear ? 0 : 1});
        }

        // ---------------- pair block
        static const double TG[] = {0.0, 0.1, 0.25, 0.5, 0.75, 0.9, 1.0};
        bool geoAlive = true;
        for (auto &pr : pairs)
        {
            p->as<ob::ConstrainedStateSpace::StateType>()->copy(pr.a);
            q->as<ob::ConstrainedStateSpace::StateType>()->copy(pr.b);
            sink.count(pr.kind == 0 ? "c16_pairs_near" : pr.kind == 1 ? "c16_pairs_far" : "c16_pairs_across_obstacle");
            const int nT = pr.kind == 1 ? 3 : 7;  // far pairs are expensive (a full geodesic per call)
            for (int ti = 0; ti <= nT; ++ti)
            {
                double t = ti == nT ? rng.u01() : (pr.kind == 1 ? TG[1 + 2 * ti] : TG[ti]);
                css->interpolate(p.get(), q.get(), t, o.get());
                sink.count("c16_interpolated_states");
                if (!X.expectOn(o.get(), "interpolate-off-manifold", J().num("t", t).arr("from", X.vec(p.get())).arr("to", X.vec(q.get())))) break;
            }
            for (int mode = 0; mode < 2 && geoAlive; ++mode)
            {
                const bool interp = mode == 0;
                std::vector<ob::State *> geo;
                bool ok = css->discreteGeodesic(p.get(), q.get(), interp, &geo);
                sink.count(ok ? "c16_geodesics_ok" : "c16_geodesics_failed");
                if (ok && spaceKind == 2) sink.count("c16_geodesics_tangent_bundle_exempt");
                if (ok && spaceKind != 2)
                {
                    geodesicStatesSeen += (long)geo.size();
                    sink.count("c16_geodesic_states", (long)geo.size());
                    J w = J().b("interpolate", interp).arr("from", X.vec(p.get())).arr("to", X.vec(q.get())).i("states", (long)geo.size());
                    for (size_t k = 0; k < geo.size() && geoAlive; ++k)
                    {
                        J wk = w;
                        if (!X.expectOn(geo[k], "geodesic-off-manifold", wk.i("index", (long)k))) geoAlive = false;
                        if (k)
                        {
                            double d = css->distance(geo[k - 1], geo[k]);
                            sink.maxstat("c16_max_step_over_lambda_delta", d / (lambda * delta));
                            if (!(d <= lambda * delta * (1 + 1e-9)))
                            {
                                std::string key = std::string("C16:geodesic-step:") + SPACE_NAME[spaceKind];
                                J wj = w;
                                if (X.fired.insert(key).second)
                                    sink.viol(key, wj.raw("ctx", X.base().done()).i("index", (long)k).num("step", d).num("lambda_delta", lambda * delta));
                                geoAlive = false;
                            }
                        }
                    }
                    if (!geo.empty())
                    {
                        double e = css->distance(geo.back(), q.get());
                        sink.maxstat("c16_max_end_over_delta", e / delta);
                        if (!(e <= delta * (1 + 1e-9)))
                        {
                            std::string key = std::string("C16:geodesic-end:") + SPACE_NAME[spaceKind];
                            J wj = w;
                            if (X.fired.insert(key).second) sink.viol(key, wj.raw("ctx", X.base().done()).num("end_distance", e).arr("last", X.vec(geo.back())));
                        }
                    }
                    else
                    {
                        std::string key = std::string("C16:geodesic-end:") + SPACE_NAME[spaceKind];
                        J wj = w;
                        if (X.fired.insert(key).second) sink.viol(key, wj.raw("ctx", X.base().done()).str("what", "success reported with an empty state list"));
                    }
                }
                for (auto *s : geo) css->freeState(s);
            }
        }

        // ---------------- planning block
        {
            auto pdef = std::make_shared<ob::ProblemDefinition>(csi);
            double thr = rng.coin() ? delta : rng.uni(0.01, 0.1);
            // a third of the plans aim at a goal right next to where the ambient box cuts the manifold (if it does): the states
            // the samplers clamp into the box there are off the manifold (known finding) and must not become path vertices
            if (rng.coin(0.33))
            {
                for (int t = 0; t < 150; ++t)
                {
                    smp->sampleUniform(p.get());
                    if (X.on(p.get()) || !X.clamped(p.get())) continue;
                    sink.count("c16_stat_clamped_off_manifold_samples_seen");
                    EV cl = asVec(p.get()), g = cl;
                    // step a little towards the middle of the box, then back onto the manifold
                    for (int i = 0; i < n; ++i) g[i] += 0.03 * ((man->lo[i] + man->hi[i]) / 2 - g[i]) / std::max(1e-9, (man->hi[i] - man->lo[i]) / 2);
                    if (!man->project(g)) continue;
                    bool in = true;
                    for (int i = 0; i < n && in; ++i) in = g[i] > man->lo[i] && g[i] < man->hi[i];
                    double dg = (g - cl).norm();
                    if (!in || dg > 0.08) continue;
                    q->as<ob::ConstrainedStateSpace::StateType>()->copy(g);
                    if (!X.on(q.get()) || !csi->isValid(q.get()) || css->distance(start.get(), q.get()) < 4 * delta) continue;
                    goal->as<ob::ConstrainedStateSpace::StateType>()->copy(g);
                    if (spaceKind > 0) css->as<ob::AtlasStateSpace>()->anchorChart(goal.get());
                    thr = std::max(thr, std::min(0.15, 1.5 * dg));
                    sink.count("c16_plans_goal_next_to_bounds_cut");
                    // the planners that take sampler output as vertices (roadmap / batch planners) are the ones for which an
                    // off-manifold sample can end up on a path: two thirds of these plans use one of them
                    if (rng.coin(0.66))
                    {
                        plannerKind = rng.coin(0.6) ? 2 : 4;
                        sink.count("c16_plans_goal_next_to_bounds_cut_sample_vertex_planner");
                    }
                    break;
                }
            }
            pdef->setStartAndGoalStates(start, goal, thr);
            ob::PlannerPtr pl;
            double range = 0;
            int rsel = (int)rng.ui(3);
            if (rsel == 1) range = spaceKind > 0 ? css->as<ob::AtlasStateSpace>()->getRho_s() : rng.uni(0.2, 1.0);
            else if (rsel == 2) range = rng.uni(0.2, 1.0);
            long budget = 1500;
            switch (plannerKind)
            {
                case 0:
                {
                    auto r = std::make_shared<og::RRT>(csi, rng.coin(0.3));
                    if (range > 0) r->setRange(range);
                    pl = r;
                    break;
                }
                case 1:
                {
                    // RRTConnect's connect loop (`while (gsc == ADVANCED)`, RRTConnect.cpp:294) does not consult the
                    // termination condition; with addIntermediateStates and TangentBundleSpaceInformation::getMotionStates
                    // (which returns only [from] when the target is within delta) it never ends once delta < range: the
                    // harness cannot bound such a run by evaluations, so this combination is not generated (liveness, not C16)
                    bool inter = rng.coin(0.3);
                    if (spaceKind == 2) inter = false;
                    auto r = std::make_shared<og::RRTConnect>(csi, inter);
                    if (range > 0) r->setRange(range);
                    pl = r;
                    break;
                }
                case 2:
                    pl = std::make_shared<og::PRM>(csi);
                    budget = 500;
                    break;
                case 3:
                {
                    auto r = std::make_shared<og::KPIECE1>(csi);
                    if (range > 0) r->setRange(range);
                    r->setProjectionEvaluator(std::make_shared<AmbientProjection>(css, rng.uni(0.05, 0.3)));
                    pl = r;
                    break;
                }
                default:
                {
                    auto r = std::make_shared<og::BITstar>(csi);
                    r->setSamplesPerBatch(rng.range(20, 100));
                    pl = r;
                    budget = 1000;
                    break;
                }
            }
            if (getenv("VERIF_DEBUG"))
                fprintf(stderr, "case %ld plan: %s %s %s delta=%g lambda=%g tol=%g range=%g thr=%g obst=%zu dist(start,goal)=%g\n", cs, man->name.c_str(), SPACE_NAME[spaceKind], PLANNER_NAME[plannerKind], delta, lambda, tol, range, thr, obst.size(), css->distance(start.get(), goal.get()));
            // cost control (counts only): RRTConnect's connect step runs many geodesics per evaluation on the atlas spaces, and
            // one-dimensional manifolds (circle = sphere-cap-plane in R^3) are usually cut by the ball obstacles, so that the
            // planner spends its whole budget while the atlas degenerates
            if (spaceKind > 0 && plannerKind == 1) budget = std::min<long>(budget, 600);
            if (spaceKind > 0 && man->getManifoldDimension() == 1) budget = std::min<long>(budget, 300);
            pl->setProblemDefinition(pdef);
            pl->setup();
            std::atomic<long> evals{0};
            const bool stopOnExact = plannerKind != 4 || rng.coin(0.5);
            const bool dbg = getenv("VERIF_DEBUG") != nullptr;
            const size_t chartCap = man->getManifoldDimension() == 1 ? 600 : 1500;
            std::atomic<bool> chartCapped{false};
            ob::PlannerStatus st = pl->solve(ob::PlannerTerminationCondition([&] {
                long e = ++evals;
                if (dbg && e % 50 == 0)
                    fprintf(stderr, "  evals=%ld charts=%zu\n", e, spaceKind > 0 ? css->as<ob::AtlasStateSpace>()->getChartCount() : (size_t)0);
                // the atlas degenerates on some unsolvable instances (thousands of mutually clipping charts, every new chart
                // compared with all of them): bound the run by the chart count as well (a count, not a clock)
                if (spaceKind > 0 && css->as<ob::AtlasStateSpace>()->getChartCount() > chartCap)
                {
                    chartCapped = true;
                    return true;
                }
                return e > budget || (stopOnExact && pdef->hasExactSolution());
            }));
            if (chartCapped) sink.count("c16_plans_stopped_by_chart_cap");
            sink.count(std::string("c16_plans_") + PLANNER_NAME[plannerKind]);
            bool pathAlive = true;
            for (auto &sol : pdef->getSolutions())
            {
                auto path = std::dynamic_pointer_cast<og::PathGeometric>(sol.path_);
                if (!path) continue;
                sink.count("c16_paths_checked");
                sink.count(std::string("c16_paths_") + PLANNER_NAME[plannerKind]);
                if (!sol.approximate_) sink.count("c16_paths_exact");
                sink.count("c16_path_vertices", (long)path->getStateCount());
                pathVerticesSeen = std::max(pathVerticesSeen, (long)path->getStateCount());
                for (size_t k = 0; k < path->getStateCount() && pathAlive; ++k)
                    pathAlive = X.expectOn(path->getState(k), "path-off-manifold",
                                           J().str("planner", PLANNER_NAME[plannerKind]).i("index", (long)k).i("states", (long)path->getStateCount()).b("approximate", sol.approximate_).str("status", st.asString()));
                // statistic only (not part of the statement): the densified path
                if (pathAlive && path->getStateCount() >= 2 && path->getStateCount() < 400)
                {
                    og::PathGeometric dense(*path);
                    dense.interpolate();
                    long off = 0;
                    for (size_t k = 0; k < dense.getStateCount(); ++k) off += !X.on(dense.getState(k));
                    sink.count("c16_stat_densified_states", (long)dense.getStateCount());
                    sink.count("c16_stat_densified_off_manifold", off);
                }
            }
            pl->clear();
        }

        // ---------------- tolerance tightened while the space is in use (charts, anchors and the sampler exist already):
        // "within its tolerance" is the tolerance the constraint has now. Inputs are fresh samples (projected at the new tolerance).
        if (rng.coin(0.4))
        {
            const double tol2 = std::max(1e-9, tol * rng.logUni(1e-3, 0.3));
            man->setTolerance(tol2);
            X.tol = tol2;
            X.tolF = tol2 * (1 + 1e-9);
            sink.count("c16_tolerance_tightened_cases");
            const J how = J().str("history", "Constraint::setTolerance() tightened after charts were built").num("tolerance_before", tol).num("tolerance_now", tol2);
            std::vector<std::pair<EV, EV>> fresh;
            auto asVec2 = [&](const ob::State *s) { return EV(*s->as<ob::ConstrainedStateSpace::StateType>()); };
            for (int i = 0; i < 25; ++i)
            {
                smp->sampleUniform(p.get());
                sink.count("c16_uniform_samples");
                J h1 = how;
                // (the atlas samplers fall back on the centre of a chart when rejection sampling takes too long, and the centres
                // of charts built earlier were projected at the earlier tolerance: only a statistic for these spaces)
                if (spaceKind > 0)
                {
                    if (!X.on(p.get()))
                    {
                        sink.count("c16_stat_atlas_uniform_sample_off_after_tolerance_change");
                        continue;
                    }
                }
                else if (!X.expectOn(p.get(), "sample-off-manifold", h1.str("call", "sampleUniform"))) continue;
                double dn = rng.uni(1, 10) * delta;
                smp->sampleUniformNear(q.get(), p.get(), dn);
                sink.count("c16_near_samples");
                J h2 = how;
                bool qOn = X.expectOn(q.get(), "near-off-manifold", h2.str("call", "sampleUniformNear").num("distance", dn).arr("near", X.vec(p.get())));
                if (qOn && fresh.size() < 5) fresh.push_back({asVec2(p.get()), asVec2(q.get())});
                double sd = rng.uni(0.5, 4) * delta;
                smp->sampleGaussian(q.get(), p.get(), sd);
                sink.count("c16_gaussian_samples");
                J h3 = how;
                X.expectOn(q.get(), "gaussian-off-manifold", h3.str("call", "sampleGaussian").num("stdDev", sd).arr("mean", X.vec(p.get())));
            }
            static const double TG2[] = {0.1, 0.5, 0.9};
            for (auto &pr : fresh)
            {
                p->as<ob::ConstrainedStateSpace::StateType>()->copy(pr.first);
                q->as<ob::ConstrainedStateSpace::StateType>()->copy(pr.second);
                for (double t : TG2)
                {
                    css->interpolate(p.get(), q.get(), t, o.get());
                    sink.count("c16_interpolated_states");
                    J h4 = how;
                    if (!X.expectOn(o.get(), "interpolate-off-manifold", h4.num("t", t).arr("from", X.vec(p.get())).arr("to", X.vec(q.get())))) break;
                }
                if (spaceKind != 2)
                {
                    std::vector<ob::State *> geo;
                    bool ok = css->discreteGeodesic(p.get(), q.get(), false, &geo);
                    sink.count(ok ? "c16_geodesics_ok" : "c16_geodesics_failed");
                    if (ok)
                        for (size_t k = 0; k < geo.size(); ++k)
                        {
                            J h5 = how;
                            if (!X.expectOn(geo[k], "geodesic-off-manifold", h5.i("index", (long)k).arr("from", X.vec(p.get())).arr("to", X.vec(q.get())))) break;
                        }
                    for (auto *g : geo) css->freeState(g);
                }
            }
        }
    }
    catch (std::exception &e)
    {
        sink.inconclusive(std::string("exception:") + SPACE_NAME[spaceKind]);
        if (getenv("VERIF_DEBUG")) fprintf(stderr, "case %ld %s %s: exception %s\n", cs, man->name.c_str(), SPACE_NAME[spaceKind], e.what());
    }
    sink.noteCase(hsh, geodesicStatesSeen >= 3 || pathVerticesSeen >= 3);
    sink.sample(J().str("kind", "C16 case").str("manifold", man->name).str("space", SPACE_NAME[spaceKind]).str("planner", PLANNER_NAME[plannerKind]).num("delta", delta).num("lambda", lambda).num("tolerance", tol).i("obstacles", (long)obst.size()).i("geodesic_states", geodesicStatesSeen).i("longest_path_vertices", pathVerticesSeen), 6);
}

int main(int argc, char **argv)
{
    Args a = parseArgs(argc, argv);
    ompl::msg::setLogLevel(ompl::msg::LOG_NONE);
    if (a.prop != "C16")
    {
        fprintf(stderr, "h_constraint does not serve %s\n", a.prop.c_str());
        return 2;
    }
    Sink sink(a);
    long total = a.thorough() ? 45000 : 6000;  // same per-case sizes in both tiers
    total = (long)(total * a.scale);
    for (long c = 0; c < total; ++c)
    {
        if (!mine(a, c) || !sink.wanted(c)) continue;
        sink.begin(c);
        runCase(sink, a, c);
    }
    sink.done();
    return 0;
}
