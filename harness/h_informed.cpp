// Engine h_informed: C15 — informed sampling returns only, and all of, the states that can still help.
//   kind M (mechanism)  : one ompl::ProlateHyperspheroid, deterministic checks of transform (affine, surface -> focal sum = c,
//                         Jacobian determinant = product of semi-axes) and getPhsMeasure
//   kind S (sampler)    : PathLengthDirectInfSampler / RejectionInfSampler on R^n, SE(2), SE(3) with 1-3 starts x 1-3 goals,
//                         driven with a NON-INCREASING sequence of bounds (the samplers are stateful, DESIGN 4/C15), plain and
//                         lower-bounded calls; per-sample oracle + getInformedMeasure
//   kind U (uniformity) : N library samples at a fixed bound against M samples of an independent harness-side generator
//                         (own Householder rotation, own PRNG); axis-aligned grid, coverage classes (in k PHSs), PHS-frame
//                         cells, rotation part; two-sample z per cell at 8 sigma with >= 1000 expected library samples per cell;
//                         every PHS of such a case also passes through the deterministic mechanism checks
#include "common.h"
#include <ompl/util/ProlateHyperspheroid.h>
#include <ompl/util/RandomNumbers.h>
#include <ompl/util/GeometricEquations.h>
#include <ompl/util/Exception.h>
#include <ompl/util/Console.h>
#include <ompl/base/spaces/RealVectorStateSpace.h>
#include <ompl/base/spaces/SE2StateSpace.h>
#include <ompl/base/spaces/SE3StateSpace.h>
#include <ompl/base/SpaceInformation.h>
#include <ompl/base/ProblemDefinition.h>
#include <ompl/base/ScopedState.h>
#include <ompl/base/goals/GoalStates.h>
#include <ompl/base/objectives/PathLengthOptimizationObjective.h>
#include <ompl/base/samplers/informed/PathLengthDirectInfSampler.h>
#include <ompl/base/samplers/informed/RejectionInfSampler.h>
#include <Eigen/Dense>
#include <algorithm>
#include <memory>

using namespace vf;
namespace ob = ompl::base;
using Vec = std::vector<double>;

static const double EPS = std::numeric_limits<double>::epsilon();
static const double PI = 3.14159265358979323846;

// ---------------------------------------------------------------------------------------------------------
// harness-side geometry (independent of the library)
// ---------------------------------------------------------------------------------------------------------
static double dist(const Vec &a, const Vec &b)
{
    double s = 0;
    for (size_t i = 0; i < a.size(); ++i) s += (a[i] - b[i]) * (a[i] - b[i]);
    return std::sqrt(s);
}
static double maxAbs(const Vec &a)
{
    double m = 0;
    for (double v : a) m = std::max(m, std::fabs(v));
    return m;
}
// volume of the unit n-ball by the two-step recursion (independent of ompl::unitNBallMeasure's tgamma form)
static double unitBall(int n)
{
    double v = (n % 2) ? 2.0 : 1.0;
    for (int k = (n % 2) ? 3 : 2; k <= n; k += 2) v *= 2.0 * PI / k;
    return v;
}
// relative tolerance for quantities proportional to sqrt(c^2-d^2)^(n-1): 1e-9 (DESIGN 2.4) plus the conditioning of the
// difference c^2-d^2 under a few ulp of rounding in c^2, d^2 (the library evaluates c*c-d*d, the harness (c-d)(c+d))
static double relTolConj(int n, double c, double d)
{
    return 1e-9 + (n - 1) * 16.0 * EPS * (c * c) / ((c - d) * (c + d));
}

struct HPhs
{
    int n = 0;
    Vec f1, f2, ctr, u, v;  // foci, centre, unit focal axis, Householder vector
    double d = 0, c = 0, a = 0, b = 0, vol = 0, vv = 0, sgn = 1;
    void init(const Vec &F1, const Vec &F2)
    {
        n = (int)F1.size();
        f1 = F1;
        f2 = F2;
        d = dist(f1, f2);
        ctr.resize(n);
        u.resize(n);
        v.resize(n);
        for (int i = 0; i < n; ++i)
        {
            ctr[i] = 0.5 * (f1[i] + f2[i]);
            u[i] = (f2[i] - f1[i]) / d;
        }
        // reflection mapping e1 to -sgn*u with v = e1 + sgn*u (|v| >= sqrt 2, no cancellation); the spheroid is symmetric
        // under u -> -u so the sign is irrelevant for the distribution
        sgn = u[0] >= 0 ? 1.0 : -1.0;
        vv = 0;
        for (int i = 0; i < n; ++i)
        {
            v[i] = sgn * u[i] + (i == 0 ? 1.0 : 0.0);
            vv += v[i] * v[i];
        }
    }
    void setC(double C)
    {
        c = C;
        a = c / 2;
        b = std::sqrt((c - d) * (c + d)) / 2;
        vol = unitBall(n) * a * std::pow(b, n - 1);
    }
    double fsum(const Vec &x) const { return dist(x, f1) + dist(x, f2); }
    bool contains(const Vec &x) const { return fsum(x) < c; }
    void sample(Rng &r, Vec &x, int radiusDim = 0) const
    {
        Vec y(n);
        double nn = 0;
        for (int i = 0; i < n; ++i)
        {
            y[i] = r.gauss();
            nn += y[i] * y[i];
        }
        double rad = std::pow(r.u01(), 1.0 / (radiusDim ? radiusDim : n)) / std::sqrt(nn);
        for (int i = 0; i < n; ++i) y[i] *= rad * (i == 0 ? a : b);
        double vy = 0;
        for (int i = 0; i < n; ++i) vy += v[i] * y[i];
        double k = 2.0 * vy / vv;
        x.resize(n);
        for (int i = 0; i < n; ++i) x[i] = ctr[i] + y[i] - k * v[i];
    }
    double halfExtent(int axis) const
    {
        double e = u[axis];
        return std::sqrt(a * a * e * e + b * b * std::max(0.0, 1 - e * e));
    }
    // axial coordinate in [-1,1] and Mahalanobis radius (1 on the surface)
    void frame(const Vec &x, double &ax, double &rho) const
    {
        double t = 0, q = 0;
        for (int i = 0; i < n; ++i)
        {
            double y = x[i] - ctr[i];
            t += y * u[i];
            q += y * y;
        }
        double perp2 = std::max(0.0, q - t * t);
        ax = t / a;
        rho = std::sqrt(t * t / (a * a) + perp2 / (b * b));
    }
};

// ---------------------------------------------------------------------------------------------------------
// deterministic PHS mechanism checks (one hyperspheroid)
// ---------------------------------------------------------------------------------------------------------
static bool mechanism(Sink &sink, Rng &rng, const Vec &f1, const Vec &f2, double c, const char *origin)
{
    const int n = (int)f1.size();
    const std::string subj = "ProlateHyperspheroid";
    HPhs h;
    h.init(f1, f2);
    h.setC(c);
    bool ok = true;
    auto base = [&]() { return J().str("origin", origin).i("n", n).arr("f1", f1).arr("f2", f2).num("c", c).num("d", h.d); };
    std::shared_ptr<ompl::ProlateHyperspheroid> phs;
    try
    {
        phs = std::make_shared<ompl::ProlateHyperspheroid>(n, f1.data(), f2.data());
        phs->setTransverseDiameter(c);
    }
    catch (std::exception &e)
    {
        sink.viol("C15:phs-measure:" + subj, base().str("what", std::string("exception: ") + e.what()));
        return false;
    }
    auto T = [&](const Eigen::VectorXd &x) {
        Eigen::VectorXd y(n);
        phs->transform(x.data(), y.data());
        return y;
    };
    const double M = std::max(maxAbs(f1), maxAbs(f2));
    const Eigen::VectorXd T0 = T(Eigen::VectorXd::Zero(n));

    // --- affine: T(al x + be y) - T0 = al (T x - T0) + be (T y - T0)
    double worstAff = 0;
    for (int k = 0; k < 10; ++k)
    {
        Eigen::VectorXd x(n), y(n);
        for (int i = 0; i < n; ++i) x[i] = rng.uni(-1, 1), y[i] = rng.uni(-1, 1);
        double al = rng.uni(-2, 2), be = rng.uni(-2, 2);
        Eigen::VectorXd lhs = T(al * x + be * y) - T0, rhs = al * (T(x) - T0) + be * (T(y) - T0);
        double w = 1 + std::fabs(al) + std::fabs(be);
        double tol = 1e-9 * c * std::sqrt((double)n) * w + 64 * EPS * (M + c) * w;
        double err = (lhs - rhs).norm();
        sink.count("c15_affine_checks");
        worstAff = std::max(worstAff, err / tol);
        if (!(err <= tol))
        {
            sink.viol("C15:phs-affine:" + subj, base().num("err", err).num("tol", tol).num("alpha", al).num("beta", be));
            ok = false;
            break;
        }
    }
    sink.maxstat("c15_affine_err_over_tol", worstAff);

    // --- surface: unit vectors map to focal sum = c
    {
        const double tol = 1e-9 * c + 16 * EPS * std::sqrt((double)n) * (M + c);
        auto checkSurf = [&](const Vec &p, const char *src) {
            double s = h.fsum(p);
            sink.count("c15_surface_checks");
            sink.maxstat("c15_surface_err_over_tol", std::fabs(s - c) / tol);
            if (!(std::fabs(s - c) <= tol))
            {
                sink.viol("C15:phs-surface:" + subj, base().str("source", src).arr("point", p).num("focal_sum", s).num("tol", tol));
                ok = false;
                return false;
            }
            return true;
        };
        bool go = true;
        for (int i = 0; i < n && go; ++i)
            for (int sg = -1; sg <= 1 && go; sg += 2)
            {
                Eigen::VectorXd e = Eigen::VectorXd::Zero(n);
                e[i] = sg;
                Eigen::VectorXd y = T(e);
                go = checkSurf(Vec(y.data(), y.data() + n), "axis");
            }
        for (int k = 0; k < 20 && go; ++k)
        {
            Eigen::VectorXd e(n);
            for (int i = 0; i < n; ++i) e[i] = rng.gauss();
            e.normalize();
            Eigen::VectorXd y = T(e);
            go = checkSurf(Vec(y.data(), y.data() + n), "harness-unit-vector");
        }
        ompl::RNG lib;
        for (int k = 0; k < 30 && go; ++k)
        {
            Vec p(n);
            lib.uniformProlateHyperspheroidSurface(phs, p.data());
            go = checkSurf(p, "RNG::uniformProlateHyperspheroidSurface");
        }
    }

    // --- Jacobian determinant = product of semi-axes; symmetric differences with a power-of-two step large enough that
    //     the subtraction of the centre does not cost precision (legitimate because the map is affine, checked above)
    {
        int ex = 0;
        std::frexp((1.0 + M) / std::max(h.b, 1e-300), &ex);
        const double hstep = std::ldexp(1.0, std::min(ex + 30, 900));
        Eigen::MatrixXd Jm(n, n);
        for (int i = 0; i < n; ++i)
        {
            Eigen::VectorXd e = Eigen::VectorXd::Zero(n);
            e[i] = hstep;
            Jm.col(i) = (T(e) - T(-e)) / (2 * hstep);
        }
        double det = std::fabs(Jm.determinant()), ref = h.a * std::pow(h.b, n - 1), tol = relTolConj(n, c, h.d);
        sink.count("c15_determinant_checks");
        sink.maxstat("c15_determinant_err_over_tol", std::fabs(det / ref - 1) / tol);
        if (!(std::fabs(det - ref) <= tol * ref))
        {
            sink.viol("C15:phs-determinant:" + subj, base().num("det", det).num("expected", ref).num("reltol", tol));
            ok = false;
        }
    }

    // --- measure
    {
        double tol = relTolConj(n, c, h.d);
        double m1 = phs->getPhsMeasure(c), m2 = phs->getPhsMeasure();
        sink.count("c15_measure_checks");
        sink.maxstat("c15_measure_err_over_tol", std::max(std::fabs(m1 / h.vol - 1), std::fabs(m2 / h.vol - 1)) / tol);
        if (!(std::fabs(m1 - h.vol) <= tol * h.vol) || !(std::fabs(m2 - h.vol) <= tol * h.vol))
        {
            sink.viol("C15:phs-measure:" + subj,
                      base().num("getPhsMeasure(c)", m1).num("getPhsMeasure()", m2).num("expected", h.vol).num("reltol", tol));
            ok = false;
        }
        double dl = phs->getMinTransverseDiameter();
        if (!(std::fabs(dl - h.d) <= 8 * EPS * h.d))
        {
            sink.viol("C15:phs-measure:" + subj, base().str("what", "getMinTransverseDiameter differs from the focal distance").num("lib", dl));
            ok = false;
        }
    }
    return ok;
}

static void runMechanismCase(Sink &sink, const Args &a, long cs)
{
    Rng rng(caseSeed(a, cs));
    const int n = rng.range(2, 8);
    const int offReg = (int)rng.ui(4);  // centre magnitude regime
    const double off = offReg == 0 ? 0.0 : offReg == 1 ? 5.0 : offReg == 2 ? 50.0 : 1000.0;
    const int dReg = (int)rng.ui(5);
    double d;  // requested focal separation
    if (dReg == 0) d = rng.logUni(2e-9, 1e-3);
    else if (dReg == 1) d = rng.logUni(1e-3, 1.0);
    else d = rng.uni(0.5, 30.0);
    Vec f1(n), f2(n), dir(n);
    for (int i = 0; i < n; ++i) f1[i] = off == 0 ? rng.uni(-1, 1) : rng.uni(-off, off);
    const bool axisAligned = rng.coin(0.25);
    if (axisAligned)
    {
        std::fill(dir.begin(), dir.end(), 0.0);
        dir[rng.ui(n)] = rng.coin() ? 1.0 : -1.0;
    }
    else
    {
        double nn = 0;
        for (int i = 0; i < n; ++i) dir[i] = rng.gauss(), nn += dir[i] * dir[i];
        for (int i = 0; i < n; ++i) dir[i] /= std::sqrt(nn);
    }
    for (int i = 0; i < n; ++i) f2[i] = f1[i] + d * dir[i];
    const double dd = dist(f1, f2);
    if (!(dd > 1.5e-9))
    {
        sink.inconclusive("foci-collapsed-by-rounding");
        sink.noteCase(caseSeed(a, cs, 7), false);
        return;
    }
    const int cReg = (int)rng.ui(6);
    double c;
    if (cReg == 0) c = dd * (1 + 1e-9);
    else if (cReg == 1) c = dd * (1 + 1e-6);
    else if (cReg == 2) c = dd * rng.uni(1.001, 5);
    else if (cReg == 3) c = dd + rng.logUni(1e-9 * dd, 300.0);
    else if (cReg == 4) c = dd * rng.logUni(1 + 1e-9, 2.0);
    else c = 10 * rng.uni(1, 100);
    c = std::max(c, dd * (1 + 1e-9));
    ompl::RNG::setSeed(caseSeed(a, cs, 1) % 1000000000 + 1);
    sink.count("c15_mechanism_cases");
    if (cReg <= 1 || c < dd * (1 + 1e-5)) sink.count("c15_mechanism_thin");
    if (axisAligned) sink.count("c15_mechanism_axis_aligned");
    if (dReg == 0) sink.count("c15_mechanism_tiny_separation");
    mechanism(sink, rng, f1, f2, c, "mechanism-case");
    uint64_t hsh = hmix(hmix(hashStr("M"), n), hmix(dReg * 16 + cReg * 2 + axisAligned, offReg));
    hsh = hmixd(hmixd(hsh, dd), c);
    sink.noteCase(hsh, true);
    sink.sample(J().str("kind", "C15 PHS mechanism").i("n", n).num("focal_distance", dd).num("c", c).b("axis_aligned", axisAligned).num("centre_scale", off), 2);
}

// ---------------------------------------------------------------------------------------------------------
// worlds for the sampler cases
// ---------------------------------------------------------------------------------------------------------
struct World
{
    int kind = 0;  // 0 R^n, 1 SE(2), 2 SE(3)
    int n = 2;     // dimension of the informed (position) part
    ob::StateSpacePtr sp;
    ob::SpaceInformationPtr si;
    Vec lo, hi;
    double diag = 0, boxvol = 1;
    const char *name() const { return kind == 0 ? "Rn" : kind == 1 ? "SE2" : "SE3"; }
    double rotMeasure() const { return kind == 1 ? 2 * PI : kind == 2 ? PI * PI : 1.0; }
    void build(Rng &rng, int kindIn, int nIn, bool moderate)
    {
        kind = kindIn;
        n = kind == 1 ? 2 : kind == 2 ? 3 : nIn;
        lo.resize(n);
        hi.resize(n);
        const double off = moderate ? 3.0 : (rng.coin(0.2) ? 1000.0 : 10.0);
        diag = 0;
        boxvol = 1;
        ob::RealVectorBounds b(n);
        for (int i = 0; i < n; ++i)
        {
            double w = moderate ? rng.uni(2, 8) : rng.logUni(0.5, 20), ctr = rng.uni(-off, off);
            lo[i] = ctr - w / 2;
            hi[i] = ctr + w / 2;
            b.setLow(i, lo[i]);
            b.setHigh(i, hi[i]);
            diag += (hi[i] - lo[i]) * (hi[i] - lo[i]);
            boxvol *= hi[i] - lo[i];
        }
        diag = std::sqrt(diag);
        if (kind == 0)
        {
            auto s = std::make_shared<ob::RealVectorStateSpace>(n);
            s->setBounds(b);
            sp = s;
        }
        else if (kind == 1)
        {
            auto s = std::make_shared<ob::SE2StateSpace>();
            s->setBounds(b);
            sp = s;
        }
        else
        {
            auto s = std::make_shared<ob::SE3StateSpace>();
            s->setBounds(b);
            sp = s;
        }
        si = std::make_shared<ob::SpaceInformation>(sp);
        si->setStateValidityChecker([](const ob::State *) { return true; });
        si->setup();
    }
    void setState(ob::State *st, const Vec &p, const Vec &rot) const
    {
        if (kind == 0)
            for (int i = 0; i < n; ++i) st->as<ob::RealVectorStateSpace::StateType>()->values[i] = p[i];
        else if (kind == 1)
        {
            auto *s = st->as<ob::SE2StateSpace::StateType>();
            s->setXY(p[0], p[1]);
            s->setYaw(rot[0]);
        }
        else
        {
            auto *s = st->as<ob::SE3StateSpace::StateType>();
            s->setXYZ(p[0], p[1], p[2]);
            s->rotation().x = rot[0];
            s->rotation().y = rot[1];
            s->rotation().z = rot[2];
            s->rotation().w = rot[3];
        }
    }
    void getState(const ob::State *st, Vec &p, Vec &rot) const
    {
        p.resize(n);
        if (kind == 0)
        {
            for (int i = 0; i < n; ++i) p[i] = st->as<ob::RealVectorStateSpace::StateType>()->values[i];
            rot.clear();
        }
        else if (kind == 1)
        {
            auto *s = st->as<ob::SE2StateSpace::StateType>();
            p[0] = s->getX();
            p[1] = s->getY();
            rot.assign(1, s->getYaw());
        }
        else
        {
            auto *s = st->as<ob::SE3StateSpace::StateType>();
            p[0] = s->getX();
            p[1] = s->getY();
            p[2] = s->getZ();
            rot = {s->rotation().x, s->rotation().y, s->rotation().z, s->rotation().w};
        }
    }
    Vec randRot(Rng &rng) const
    {
        if (kind == 1) return {rng.uni(-PI, PI)};
        if (kind == 2)
        {
            Vec q(4);
            double nn = 0;
            for (auto &v : q) v = rng.gauss(), nn += v * v;
            for (auto &v : q) v /= std::sqrt(nn);
            return q;
        }
        return {};
    }
    // harness-side replica of the space distance (R^n: Euclid; SE2: + 0.5*|yaw difference|; SE3: + arc between quaternions)
    double distance(const Vec &p, const Vec &r, const Vec &q, const Vec &s) const
    {
        double dd = dist(p, q);
        if (kind == 1)
        {
            double t = std::fabs(r[0] - s[0]);
            if (t > PI) t = 2 * PI - t;
            dd += 0.5 * t;
        }
        else if (kind == 2)
        {
            double dq = std::fabs(r[0] * s[0] + r[1] * s[1] + r[2] * s[2] + r[3] * s[3]);
            dd += dq > 1 - 1e-9 ? 0.0 : std::acos(dq);
        }
        return dd;
    }
    // in-bounds by the harness's own reading (DESIGN 2.4: machine-epsilon margin + 4 ulp of the bound's magnitude)
    bool posInBounds(const Vec &p) const
    {
        for (int i = 0; i < n; ++i)
        {
            if (!(p[i] >= lo[i] - EPS - 4 * EPS * std::fabs(lo[i]))) return false;
            if (!(p[i] <= hi[i] + EPS + 4 * EPS * std::fabs(hi[i]))) return false;
        }
        return true;
    }
};

struct Problem
{
    World w;
    int ns = 1, ng = 1;
    std::vector<Vec> S, G, Srot, Grot;
    ob::ProblemDefinitionPtr pdef;
    ob::OptimizationObjectivePtr opt;
    double dminPos = 0, dminFull = 0;

    void finish()
    {
        pdef = std::make_shared<ob::ProblemDefinition>(w.si);
        auto goals = std::make_shared<ob::GoalStates>(w.si);
        for (int i = 0; i < ns; ++i)
        {
            ob::ScopedState<> s(w.si);
            w.setState(s.get(), S[i], Srot[i]);
            pdef->addStartState(s);
        }
        for (int i = 0; i < ng; ++i)
        {
            ob::ScopedState<> s(w.si);
            w.setState(s.get(), G[i], Grot[i]);
            goals->addState(s);
        }
        pdef->setGoal(goals);
        auto o = std::make_shared<ob::PathLengthOptimizationObjective>(w.si);
        o->setCostToGoHeuristic(&ob::goalRegionCostToGo);  // what planners install (DESIGN 4/C15 usage protocol)
        pdef->setOptimizationObjective(o);
        opt = o;
        dminPos = dminFull = 1e300;
        for (int i = 0; i < ns; ++i)
            for (int j = 0; j < ng; ++j)
            {
                dminPos = std::min(dminPos, dist(S[i], G[j]));
                dminFull = std::min(dminFull, w.distance(S[i], Srot[i], G[j], Grot[j]));
            }
    }
    double focal(const Vec &x) const
    {
        double best = 1e300;
        for (auto &s : S)
            for (auto &g : G) best = std::min(best, dist(x, s) + dist(x, g));
        return best;
    }
    double fullHeuristic(const Vec &x, const Vec &r) const
    {
        double bs = 1e300, bg = 1e300;
        for (int i = 0; i < ns; ++i) bs = std::min(bs, w.distance(S[i], Srot[i], x, r));
        for (int j = 0; j < ng; ++j) bg = std::min(bg, w.distance(x, r, G[j], Grot[j]));
        return bs + bg;
    }
};

// place starts and goals; the first pair follows `regime` (0 random, 1 near, 2 far, 3 axis-aligned), the others are random
static bool placeFoci(Rng &rng, Problem &P, int regime)
{
    World &w = P.w;
    const int n = w.n;
    auto randIn = [&](double margin) {
        Vec p(n);
        for (int i = 0; i < n; ++i) p[i] = rng.uni(w.lo[i] + margin * (w.hi[i] - w.lo[i]), w.hi[i] - margin * (w.hi[i] - w.lo[i]));
        return p;
    };
    P.S.clear();
    P.G.clear();
    P.Srot.clear();
    P.Grot.clear();
    for (int i = 0; i < P.ns; ++i) P.S.push_back(randIn(0.02)), P.Srot.push_back(w.randRot(rng));
    for (int j = 0; j < P.ng; ++j) P.G.push_back(randIn(0.02)), P.Grot.push_back(w.randRot(rng));
    if (regime == 1)
    {
        // goal 0 at a tiny, exactly controlled distance from start 0 (> the library's 1e-9 circle tolerance)
        double sep = rng.logUni(2e-9, 1e-3) * std::max(1.0, w.diag * 0.1);
        Vec dir(n);
        double nn = 0;
        for (int i = 0; i < n; ++i) dir[i] = rng.gauss(), nn += dir[i] * dir[i];
        for (int i = 0; i < n; ++i) P.G[0][i] = P.S[0][i] + sep * dir[i] / std::sqrt(nn);
    }
    else if (regime == 2)
    {
        for (int i = 0; i < n; ++i)
        {
            bool up = rng.coin();
            double m = rng.uni(0, 0.05) * (w.hi[i] - w.lo[i]);
            P.S[0][i] = up ? w.lo[i] + m : w.hi[i] - m;
            P.G[0][i] = up ? w.hi[i] - m : w.lo[i] + m;
        }
    }
    else if (regime == 3)
    {
        int k = (int)rng.ui(n);
        for (int i = 0; i < n; ++i)
            if (i != k) P.G[0][i] = P.S[0][i];
    }
    for (int i = 0; i < P.ns; ++i)
        for (int j = 0; j < P.ng; ++j)
            if (!(dist(P.S[i], P.G[j]) > 1.5e-9)) return false;  // outside the quantifier
    for (auto &g : P.G)
        if (!w.posInBounds(g)) return false;
    return true;
}

// per-sample oracle; returns false after the first violation of a case (history abandoned)
struct SampleOracle
{
    Sink &sink;
    const Problem &P;
    bool direct;
    std::string subj;
    ob::InformedSampler *smp;
    Vec pos, rot;
    bool strictBound = false;  // `--strict-bound 1`: no representational floor on "heuristic cost < c" (see check())
    J ctx() const
    {
        J j;
        j.str("space", P.w.name()).i("n", P.w.n).i("starts", P.ns).i("goals", P.ng);
        return j;
    }
    bool check(const ob::State *st, double c, bool useMin, double cmin)
    {
        const World &w = P.w;
        w.getState(st, pos, rot);
        bool ok = true;
        if (!w.sp->satisfiesBounds(st) || !w.posInBounds(pos))
        {
            sink.viol("C15:sample-oob:" + subj, ctx().arr("position", pos).arr("lo", w.lo).arr("hi", w.hi).num("c", c));
            ok = false;
        }
        const double hl = smp->heuristicSolnCost(st).value();
        if (std::isfinite(c))
        {
            // strictly below c in the library's own arithmetic, up to the representational floor of the sample's coordinates
            // (the focal sum of a point stored in doubles of magnitude m is only defined to a few ulp of m)
            double m = std::max(maxAbs(pos), c);
            double floorTol = 16 * EPS * std::sqrt((double)w.n) * m;
            if (!(hl < c))
            {
                if (hl < c + floorTol && !strictBound)
                {
                    sink.count("c15_cost_at_bound_within_ulp_stat");
                    sink.maxstat("c15_cost_at_bound_excess_over_floor", (hl - c) / floorTol);
                    if (getenv("VERIF_DEBUG"))
                        fprintf(stderr, "case %ld %s %s n=%d c=%.17g hl=%.17g excess=%.3g floor=%.3g dminPos=%.17g maxabs=%.3g\n", sink.cur(), subj.c_str(), w.name(), w.n, c, hl, hl - c, floorTol, P.dminPos, maxAbs(pos));
                }
                else
                {
                    sink.viol("C15:cost-not-below-bound:" + subj, ctx().arr("position", pos).arr("rotation", rot).num("heuristicSolnCost", hl).num("c", c).num("excess", hl - c));
                    ok = false;
                }
            }
        }
        if (useMin && !(hl >= cmin))
        {
            sink.viol("C15:cost-below-min:" + subj, ctx().arr("position", pos).num("heuristicSolnCost", hl).num("minCost", cmin).num("c", c));
            ok = false;
        }
        // heuristic: direct sampler = focal sum over all start/goal pairs; rejection sampler = objective's heuristics
        double href = direct ? P.focal(pos) : P.fullHeuristic(pos, rot);
        double tol = 1e-9 * (1 + href) + ((!direct && w.kind == 2) ? 2e-4 : 0.0);
        if (!(std::fabs(href - hl) <= tol))
        {
            sink.viol("C15:heuristic-mismatch:" + subj, ctx().arr("position", pos).arr("rotation", rot).num("heuristicSolnCost", hl).num("harness", href));
            ok = false;
        }
        sink.count("c15_heuristic_checks");
        return ok;
    }
};

static double informedMeasureRef(const Problem &P, double c, double &reltol, bool &ambiguous)
{
    const World &w = P.w;
    double sum = 0;
    reltol = 1e-9;
    ambiguous = false;
    for (auto &s : P.S)
        for (auto &g : P.G)
        {
            double d = dist(s, g);
            if (std::fabs(c - d) <= 16 * EPS * d) ambiguous = true;
            if (c > d)
            {
                sum += unitBall(w.n) * (c / 2) * std::pow(std::sqrt((c - d) * (c + d)) / 2, w.n - 1);
                reltol = std::max(reltol, relTolConj(w.n, c, d));
            }
        }
    return sum * w.rotMeasure();
}

static void runSamplerCase(Sink &sink, const Args &a, long cs)
{
    Rng rng(caseSeed(a, cs));
    ompl::RNG::setSeed(caseSeed(a, cs, 1) % 1000000000 + 1);
    Problem P;
    int kind = rng.coin(0.6) ? 0 : (rng.coin() ? 1 : 2);
    P.w.build(rng, kind, rng.range(2, 8), false);
    P.ns = rng.coin(0.4) ? 1 : rng.range(1, 3);
    P.ng = rng.coin(0.4) ? 1 : rng.range(1, 3);
    const int regime = (int)rng.ui(4);
    if (!placeFoci(rng, P, regime))
    {
        sink.inconclusive("foci-outside-quantifier");
        sink.noteCase(caseSeed(a, cs, 7), false);
        return;
    }
    P.finish();
    const bool direct = rng.coin(0.65);
    static const unsigned CALLS[] = {1, 3, 10, 100, 1000};
    const unsigned maxCalls = CALLS[rng.ui(direct ? 5 : 4)];
    std::shared_ptr<ob::InformedSampler> smp;
    if (direct) smp = std::make_shared<ob::PathLengthDirectInfSampler>(P.pdef, maxCalls);
    else smp = std::make_shared<ob::RejectionInfSampler>(P.pdef, maxCalls);
    const std::string subj = direct ? "PathLengthDirectInfSampler" : "RejectionInfSampler";
    const double dmin = direct ? P.dminPos : P.dminFull;
    const double cFloor = dmin * (1 + 1e-9);
    // bound sequence: excess over dmin from eHi down to eLo (log scale), plateaus, optionally preceded by "no solution yet"
    const double eMax = std::max(10 * P.w.diag - dmin, 2e-9 * dmin);
    double e1 = rng.logUni(1e-9 * dmin, eMax), e2 = rng.logUni(1e-9 * dmin, eMax);
    if (rng.coin(0.25)) e2 = 1e-9 * dmin;  // end exactly at the edge of the quantifier
    if (rng.coin(0.15)) e1 = eMax;
    if (!direct && P.w.n > 4) e2 = std::max(e2, 0.5 * dmin);  // the rejection sampler virtually never succeeds in a thin set
    double eHi = std::max(e1, e2), eLo = std::min(e1, e2);
    const int K = a.thorough() ? 1500 : 500;
    const int nInf = rng.coin(0.15) ? 10 : 0;
    const int plateau = rng.range(1, 20);
    SampleOracle orc{sink, P, direct, subj, smp.get(), {}, {}, a.get("strict-bound") == "1"};
    ob::ScopedState<> st(P.w.si);
    long okc = 0, fails = 0, lowOk = 0;
    double cPrev = std::numeric_limits<double>::infinity();
    bool alive = true;
    const double spaceMeasure = P.w.sp->getMeasure();
    try
    {
        for (int k = 0; k < K + nInf && alive; ++k)
        {
            double c;
            if (k < nInf) c = std::numeric_limits<double>::infinity();
            else
            {
                int kk = ((k - nInf) / plateau) * plateau;
                double t = K > 1 ? (double)kk / (K - 1) : 0;
                c = dmin + std::exp(std::log(eHi) + t * (std::log(eLo) - std::log(eHi)));
                c = std::max(c, cFloor);
                c = std::min(c, cPrev);  // non-increasing, always
            }
            cPrev = c;
            // informed measure
            if (std::isfinite(c) && (k - nInf) % 50 == 0)
            {
                double m = smp->getInformedMeasure(ob::Cost(c));
                if (direct)
                {
                    double rt;
                    bool amb;
                    double ref = std::min(spaceMeasure, informedMeasureRef(P, c, rt, amb));
                    if (amb) sink.inconclusive("bound-within-ulp-of-a-focal-distance");
                    else
                    {
                        sink.count("c15_informed_measure_checks");
                        if (ref < spaceMeasure) sink.count("c15_informed_measure_uncapped");
                        if (!smp->hasInformedMeasure() || !(std::fabs(m - ref) <= rt * ref + 1e-300))
                        {
                            sink.viol("C15:informed-measure:" + subj, orc.ctx().num("c", c).num("getInformedMeasure", m).num("expected", ref).num("space_measure", spaceMeasure));
                            alive = false;
                            break;
                        }
                    }
                }
                else
                {
                    sink.count("c15_informed_measure_checks");
                    if (smp->hasInformedMeasure() || m != spaceMeasure)
                    {
                        sink.viol("C15:informed-measure:" + subj, orc.ctx().num("c", c).num("getInformedMeasure", m).num("space_measure", spaceMeasure));
                        alive = false;
                        break;
                    }
                }
            }
            bool useMin = std::isfinite(c) && rng.coin(1.0 / 3);
            double cmin = 0;
            if (useMin)
            {
                int r = (int)rng.ui(8);
                cmin = r == 0 ? 0.5 * dmin : r == 1 ? c : dmin + (c - dmin) * rng.uni(0, 1);
            }
            bool r = useMin ? smp->sampleUniform(st.get(), ob::Cost(cmin), ob::Cost(c)) : smp->sampleUniform(st.get(), ob::Cost(c));
            if (!r)
            {
                ++fails;
                continue;
            }
            ++okc;
            if (useMin) ++lowOk;
            if (std::isfinite(c) && c < dmin * (1 + 1e-6)) sink.count("c15_samples_thin_bound");
            alive = orc.check(st.get(), c, useMin, cmin);
        }
    }
    catch (std::exception &e)
    {
        sink.inconclusive(std::string("exception:") + e.what());
    }
    sink.count(direct ? "c15_samples_direct" : "c15_samples_rejection", okc);
    sink.count("c15_sample_calls_failed", fails);
    sink.count("c15_samples_lower_bounded", lowOk);
    if (P.w.kind) sink.count("c15_samples_se", okc);
    if (P.ns * P.ng > 1) sink.count("c15_multi_focus_cases");
    sink.count("c15_sampler_cases");
    uint64_t hsh = hmix(hmix(hashStr("S"), P.w.kind * 100 + P.w.n), hmix(P.ns * 10 + P.ng, direct * 8 + regime));
    hsh = hmixd(hmixd(hmix(hsh, maxCalls), eHi), eLo);
    sink.noteCase(hsh, okc > 0);
    sink.sample(J().str("kind", "C15 sampler").str("sampler", subj).str("space", P.w.name()).i("n", P.w.n).i("starts", P.ns).i("goals", P.ng).num("focal_distance_min", dmin).num("c_first", dmin + eHi).num("c_last", std::max(dmin + eLo, cFloor)).i("successful_samples", okc).i("failed_calls", fails), 4);
}

// ---------------------------------------------------------------------------------------------------------
// uniformity
// ---------------------------------------------------------------------------------------------------------
struct TwoSample
{
    std::vector<long> a, b;  // library / reference counts per cell
    explicit TwoSample(size_t cells) : a(cells, 0), b(cells, 0) {}
};
static const double ZMAX = 8.0;         // >= 6 sigma (DESIGN 2.4); 8 keeps the per-run false-alarm rate < 1e-8 over all cells
static const double MIN_EXPECT = 1000;  // expected library samples per tested cell (skewness correction then < 10x)

// returns false on violation
static bool compareHist(Sink &sink, const std::string &key, const char *hname, const TwoSample &h, long N, long M, const J &ctx)
{
    std::vector<long> A, B;
    long ra = 0, rb = 0;
    for (size_t i = 0; i < h.a.size(); ++i)
    {
        double p = double(h.a[i] + h.b[i]) / double(N + M);
        if (p * N >= MIN_EXPECT) A.push_back(h.a[i]), B.push_back(h.b[i]);
        else ra += h.a[i], rb += h.b[i];
    }
    if (double(ra + rb) / double(N + M) * N >= MIN_EXPECT) A.push_back(ra), B.push_back(rb);
    for (size_t i = 0; i < A.size(); ++i)
    {
        double p = double(A[i] + B[i]) / double(N + M);
        if (p >= 1) continue;
        double z = (double(A[i]) / N - double(B[i]) / M) / std::sqrt(p * (1 - p) * (1.0 / N + 1.0 / M));
        sink.count("c15_uniformity_cells_tested");
        sink.maxstat("c15_uniformity_max_abs_z", std::fabs(z));
        if (std::fabs(z) > ZMAX)
        {
            J j = ctx;
            sink.viol(key, j.str("histogram", hname).i("cell", (long)i).i("library_count", A[i]).i("library_total", N).i("reference_count", B[i]).i("reference_total", M).num("z", z));
            return false;
        }
    }
    return true;
}
// counts against exactly known probabilities
static bool compareExact(Sink &sink, const std::string &key, const char *hname, const std::vector<long> &cnt, const std::vector<double> &p, long N, const J &ctx)
{
    for (size_t i = 0; i < cnt.size(); ++i)
    {
        if (p[i] * N < MIN_EXPECT) continue;
        double z = (cnt[i] - p[i] * N) / std::sqrt(N * p[i] * (1 - p[i]));
        sink.count("c15_uniformity_cells_tested");
        sink.maxstat("c15_uniformity_max_abs_z", std::fabs(z));
        if (std::fabs(z) > ZMAX)
        {
            J j = ctx;
            sink.viol(key, j.str("histogram", hname).i("cell", (long)i).i("library_count", cnt[i]).i("library_total", N).num("expected_probability", p[i]).num("z", z));
            return false;
        }
    }
    return true;
}

static double so3AngleCdf(double th) { return (th - std::sin(th)) / PI; }

static void runUniformityCase(Sink &sink, const Args &a, long cs)
{
    Rng rng(caseSeed(a, cs));
    ompl::RNG::setSeed(caseSeed(a, cs, 1) % 1000000000 + 1);
    Problem P;
    const bool direct = rng.coin(0.9);
    int kind = rng.coin(0.7) ? 0 : (rng.coin() ? 1 : 2);
    if (!direct) kind = 0;
    P.w.build(rng, kind, direct ? rng.range(2, 8) : rng.range(2, 3), true);
    const World &w = P.w;
    const int n = w.n;
    const bool multi = rng.coin(0.6);
    P.ns = multi ? rng.range(1, 3) : 1;
    P.ng = multi ? rng.range(1, 3) : 1;
    if (multi && P.ns * P.ng == 1) P.ng = 2;
    if (!placeFoci(rng, P, 0))
    {
        sink.inconclusive("foci-outside-quantifier");
        sink.noteCase(caseSeed(a, cs, 7), false);
        return;
    }
    if (!direct)  // rejection sampler: use equal rotations so that R^n is the whole story (kind is 0 anyway)
        ;
    P.finish();
    const double dmin = P.dminPos;
    // bound: thin / moderate / wide / beyond the box
    const int cReg = (int)rng.ui(10);
    double c;
    if (!direct) c = dmin * rng.uni(1.3, 2.5);
    else if (cReg == 0 && !multi) c = dmin * (1 + rng.logUni(1e-6, 1e-2));
    else if (cReg <= 5) c = dmin * rng.uni(1.02, 1.6);
    else if (cReg <= 8) c = dmin * rng.uni(1.6, 4);
    else c = dmin + rng.uni(1, 10) * w.diag;
    const bool useMin = rng.coin(0.25) && !(direct && cReg > 8);  // beyond the box a lower-bounded shell may miss the box entirely
    const double cmin = useMin ? dmin + (c - dmin) * rng.uni(0.3, 0.9) : 0.0;

    // harness-side hyperspheroids that can still help (focal distance < c), each through the mechanism checks
    std::vector<HPhs> phs;
    bool mechOk = true;
    for (auto &s : P.S)
        for (auto &g : P.G)
        {
            double d = dist(s, g);
            if (std::fabs(c - d) <= 1e-9 * d)
            {
                sink.inconclusive("bound-at-a-focal-distance");
                sink.noteCase(caseSeed(a, cs, 7), false);
                return;
            }
            if (d < c)
            {
                HPhs h;
                h.init(s, g);
                h.setC(c);
                phs.push_back(h);
                mechOk = mechanism(sink, rng, s, g, c, "uniformity-case") && mechOk;
            }
        }
    if (!mechOk || phs.empty())  // mechanism violation already reported; the statistical check would only echo it
    {
        sink.noteCase(caseSeed(a, cs, 7), false);
        return;
    }
    const std::string subj = direct ? "PathLengthDirectInfSampler" : "RejectionInfSampler";
    const std::string key = "C15:uniformity:" + subj;
    std::shared_ptr<ob::InformedSampler> smp;
    if (direct) smp = std::make_shared<ob::PathLengthDirectInfSampler>(P.pdef, 200);
    else smp = std::make_shared<ob::RejectionInfSampler>(P.pdef, 2000);

    const long N = a.thorough() ? 100000 : 60000;
    const long M = 4 * N;

    // grid: two axes over the bounding box of the union, clipped to the space bounds
    int ax0 = (int)rng.ui(n), ax1 = (int)rng.ui(n - 1);
    if (ax1 >= ax0) ++ax1;
    double L[2], U[2];
    for (int q = 0; q < 2; ++q)
    {
        int ax = q ? ax1 : ax0;
        double l = 1e300, u = -1e300;
        for (auto &h : phs)
        {
            l = std::min(l, h.ctr[ax] - h.halfExtent(ax));
            u = std::max(u, h.ctr[ax] + h.halfExtent(ax));
        }
        L[q] = std::max(l, w.lo[ax]);
        U[q] = std::min(u, w.hi[ax]);
    }
    const int Gd = 4;
    auto gridCell = [&](const Vec &x) {
        int i0 = (int)std::floor((x[ax0] - L[0]) / (U[0] - L[0]) * Gd), i1 = (int)std::floor((x[ax1] - L[1]) / (U[1] - L[1]) * Gd);
        i0 = std::min(Gd - 1, std::max(0, i0));
        i1 = std::min(Gd - 1, std::max(0, i1));
        return i0 * Gd + i1;
    };
    auto coverage = [&](const Vec &x) {
        int k = 0;
        for (auto &h : phs) k += h.contains(x);
        return k;
    };
    auto frameCell = [&](const Vec &x) {
        double axl, rho;
        phs[0].frame(x, axl, rho);
        if (!(rho < 1)) return 12;
        int ia = std::min(3, std::max(0, (int)std::floor((axl + 1) * 2)));
        double v = std::pow(rho, n);
        int ir = v < 1.0 / 3 ? 0 : v < 2.0 / 3 ? 1 : 2;
        return ia * 3 + ir;
    };
    TwoSample hGrid(Gd * Gd), hCov(5), hFrame(13);
    std::vector<long> rotCnt(4, 0);
    const double th1 = [&] { double lo = 0, hi = PI; for (int i = 0; i < 80; ++i) { double m = (lo + hi) / 2; (so3AngleCdf(m) < 1.0 / 3 ? lo : hi) = m; } return lo; }();
    const double th2 = [&] { double lo = 0, hi = PI; for (int i = 0; i < 80; ++i) { double m = (lo + hi) / 2; (so3AngleCdf(m) < 2.0 / 3 ? lo : hi) = m; } return lo; }();

    // ---- library samples
    SampleOracle orc{sink, P, direct, subj, smp.get(), {}, {}, a.get("strict-bound") == "1"};
    ob::ScopedState<> st(w.si);
    long got = 0, calls = 0;
    bool alive = true;
    Vec pos, rot;
    try
    {
        while (got < N && calls < 3 * N && alive)
        {
            ++calls;
            bool r = useMin ? smp->sampleUniform(st.get(), ob::Cost(cmin), ob::Cost(c)) : smp->sampleUniform(st.get(), ob::Cost(c));
            if (!r) continue;
            ++got;
            if (got % 16 == 0) alive = orc.check(st.get(), c, useMin, cmin);
            w.getState(st.get(), pos, rot);
            ++hGrid.a[gridCell(pos)];
            ++hCov.a[std::min(4, coverage(pos))];
            ++hFrame.a[frameCell(pos)];
            if (kind == 1) ++rotCnt[std::min(3, std::max(0, (int)std::floor((rot[0] + PI) / (PI / 2))))];
            else if (kind == 2)
            {
                double th = 2 * std::acos(std::min(1.0, std::fabs(rot[3])));
                ++rotCnt[th < th1 ? 0 : th < th2 ? 1 : 2];
            }
        }
    }
    catch (std::exception &e)
    {
        sink.inconclusive(std::string("exception:") + e.what());
        return;
    }
    sink.count("c15_uniformity_library_samples", got);
    if (!alive) return;
    if (got < N)
    {
        sink.inconclusive("uniformity-library-starved");
        if (getenv("VERIF_DEBUG"))
            fprintf(stderr, "case %ld starved: %s %s n=%d phs=%zu c=%g dmin=%g useMin=%d cmin=%g got=%ld calls=%ld boxvol=%g sumvol=%g\n", cs, subj.c_str(), w.name(), n, phs.size(), c, dmin, (int)useMin, cmin, got, calls, w.boxvol, [&]{double v=0; for (auto &h : phs) v += h.vol; return v;}());
        sink.noteCase(caseSeed(a, cs, 7), false);
        return;
    }
    // ---- reference samples: independent generator; pick a PHS by volume, draw inside, keep with probability 1/k, reject
    //      out-of-bounds / below the lower bound; when the PHSs dwarf the box draw in the box and keep what lies in any PHS
    double sumVol = 0;
    for (auto &h : phs) sumVol += h.vol;
    const bool boxMode = sumVol / phs.size() > w.boxvol;
    Rng ref(caseSeed(a, cs, 2));
    // monitor self-test (DESIGN 6): `--selftest no-k-rejection|radius-exponent` makes the REFERENCE wrong in the way a broken
    // library would be (density doubled where two PHSs overlap / wrong radial law); the check must then fire
    const std::string selftest = a.get("selftest");
    long gotR = 0, tries = 0;
    Vec x(n);
    while (gotR < M && tries < 400 * M)
    {
        ++tries;
        int k;
        if (boxMode)
        {
            for (int i = 0; i < n; ++i) x[i] = ref.uni(w.lo[i], w.hi[i]);
            k = coverage(x);
            if (k == 0) continue;
        }
        else
        {
            double r = ref.u01() * sumVol;
            size_t j = 0;
            for (; j + 1 < phs.size(); ++j)
            {
                if (r < phs[j].vol) break;
                r -= phs[j].vol;
            }
            phs[j].sample(ref, x, selftest == "radius-exponent" ? n + 1 : 0);
            k = coverage(x);
            if (k == 0) continue;  // rounding at the surface
            if (k > 1 && selftest != "no-k-rejection" && ref.u01() * k >= 1.0) continue;
            bool in = true;
            for (int i = 0; i < n && in; ++i) in = x[i] >= w.lo[i] && x[i] <= w.hi[i];
            if (!in) continue;
        }
        if (useMin && P.focal(x) < cmin) continue;
        ++gotR;
        ++hGrid.b[gridCell(x)];
        ++hCov.b[std::min(4, k)];
        ++hFrame.b[frameCell(x)];
    }
    if (gotR < M)
    {
        sink.inconclusive("uniformity-reference-starved");
        sink.noteCase(caseSeed(a, cs, 7), false);
        return;
    }
    sink.count("c15_uniformity_reference_samples", gotR);
    sink.count("c15_uniformity_cases");
    if (phs.size() > 1) sink.count("c15_uniformity_multi_phs_cases");
    if (hCov.a[2] + hCov.a[3] + hCov.a[4] > 0) sink.count("c15_uniformity_overlap_cases");
    sink.count("c15_uniformity_overlap_samples", hCov.a[2] + hCov.a[3] + hCov.a[4]);
    if (boxMode) sink.count("c15_uniformity_box_mode_cases");
    if (useMin) sink.count("c15_uniformity_lower_bounded_cases");
    if (kind) sink.count("c15_uniformity_se_cases");
    J ctx;
    ctx.str("space", w.name()).i("n", n).i("starts", P.ns).i("goals", P.ng).i("phs", (long)phs.size()).num("c", c).num("dmin", dmin).b("lower_bounded", useMin).num("minCost", cmin).b("box_mode", boxMode);
    bool ok = compareHist(sink, key, "axis-aligned grid", hGrid, N, M, ctx);
    ok = ok && compareHist(sink, key, "covered by k PHSs", hCov, N, M, ctx);
    ok = ok && compareHist(sink, key, "PHS-frame (axial x shell)", hFrame, N, M, ctx);
    if (ok && kind == 1) ok = compareExact(sink, key, "yaw quadrant", rotCnt, {0.25, 0.25, 0.25, 0.25}, N, ctx);
    if (ok && kind == 2) ok = compareExact(sink, key, "rotation angle tercile", rotCnt, {1.0 / 3, 1.0 / 3, 1.0 / 3, 0.0}, N, ctx);
    uint64_t hsh = hmix(hmix(hashStr("U"), kind * 100 + n), hmix(P.ns * 10 + P.ng, direct * 2 + useMin));
    hsh = hmixd(hmixd(hsh, c), dmin);
    sink.noteCase(hsh, true);
    sink.sample(J().str("kind", "C15 uniformity").str("sampler", subj).str("space", w.name()).i("n", n).i("phs", (long)phs.size()).num("c_over_dmin", c / dmin).b("lower_bounded", useMin).i("library_samples", got).i("reference_samples", gotR).i("overlap_samples", hCov.a[2] + hCov.a[3] + hCov.a[4]), 6);
}

static void runCase(Sink &sink, const Args &a, long c)
{
    // 20 cases per block: 8 mechanism, 9 sampler, 3 uniformity
    int r = (int)(splitmix((uint64_t)c * 2654435761ULL + 17) % 20);  // independent of the shard layout
    if (r < 8) runMechanismCase(sink, a, c);
    else if (r < 17) runSamplerCase(sink, a, c);
    else runUniformityCase(sink, a, c);
}

int main(int argc, char **argv)
{
    Args a = parseArgs(argc, argv);
    ompl::msg::setLogLevel(ompl::msg::LOG_NONE);
    if (a.prop != "C15")
    {
        fprintf(stderr, "h_informed does not serve %s\n", a.prop.c_str());
        return 2;
    }
    Sink sink(a);
    long total = a.thorough() ? 50000 : 8000;
    total = (long)(total * a.scale);
    for (long c = 0; c < total; ++c)
    {
        if (!mine(a, c) || !sink.wanted(c)) continue;
        sink.begin(c);
        runCase(sink, a, c);
    }
    sink.done();
    return 0;
}
