// h_ptc — C18: termination conditions mean exactly what they say.
//
// Every case drives one kind of PlannerTerminationCondition over a generated history and compares each evaluation with a
// reference model (DESIGN.md §4/C18). Case kinds are a fixed function of the case index (kindOf), so that the TSan build of
// this very file runs the thread scenarios only.
#include "common.h"
#include <ompl/base/PlannerTerminationCondition.h>
#include <ompl/base/ProblemDefinition.h>
#include <ompl/base/SpaceInformation.h>
#include <ompl/base/spaces/RealVectorStateSpace.h>
#include <ompl/base/objectives/PathLengthOptimizationObjective.h>
#include <ompl/base/terminationconditions/IterationTerminationCondition.h>
#include <ompl/base/terminationconditions/CostConvergenceTerminationCondition.h>
#include <ompl/geometric/PathGeometric.h>
#include <ompl/util/Console.h>
#include <ompl/util/Time.h>
#include <atomic>
#include <chrono>
#include <memory>
#include <thread>

#if defined(__SANITIZE_THREAD__)
#define VERIF_TSAN 1
#else
#define VERIF_TSAN 0
#endif

namespace ob = ompl::base;
namespace og = ompl::geometric;
using namespace vf;
using Clock = std::chrono::steady_clock;
using PTC = ob::PlannerTerminationCondition;

namespace
{
    enum Kind
    {
        K_PRED,       // predicate leaf, terminate() from the evaluating thread
        K_NEST,       // nestings of or/and over leaves, always/never, copies; terminate() from the evaluating thread
        K_NEST_MT,    // the same with terminate() from a second thread            (thread scenario)
        K_ITER,       // IterationTerminationCondition directly and through its cast
        K_TIMED,      // timedPlannerTerminationCondition(duration)
        K_TIMED_POLL, // timedPlannerTerminationCondition(duration, interval)       (thread scenario)
        K_EXACT,      // exactSolnPlannerTerminationCondition
        K_COSTCONV,   // CostConvergenceTerminationCondition
        K_PERIODIC,   // PlannerTerminationCondition(fn, period)                    (thread scenario)
        K_COUNT
    };
    const char *kindName[] = {"predicate", "nesting", "nesting-mt", "iteration", "timed", "timed-polled", "exact-soln",
                              "cost-convergence", "periodic"};
    Kind kindOf(long c)
    {
        static const Kind table[20] = {K_PRED,     K_NEST,     K_NEST,       K_NEST,       K_NEST_MT, K_NEST_MT, K_ITER,
                                       K_ITER,     K_TIMED,    K_TIMED_POLL, K_TIMED_POLL, K_EXACT,   K_EXACT,   K_COSTCONV,
                                       K_COSTCONV, K_COSTCONV, K_PERIODIC,   K_PERIODIC,   K_PERIODIC, K_PRED};
        return table[splitmix((uint64_t)c * 2654435761ULL + 17) % 20];  // fixed function of the case index only
    }
    bool threadKind(Kind k) { return k == K_NEST_MT || k == K_TIMED_POLL || k == K_PERIODIC; }

    double secs(Clock::duration d) { return std::chrono::duration<double>(d).count(); }
    Clock::duration dsec(double s) { return std::chrono::duration_cast<Clock::duration>(std::chrono::duration<double>(s)); }

    // A thread that does what the polling thread of a periodic condition does between two polls (sleep about a
    // millisecond, again and again). How far it gets tells whether this machine let such a thread run at all: a stalled
    // machine makes a timing clause inconclusive, never violated.
    class Heartbeat
    {
    public:
        Heartbeat()
          : th_([this] {
              while (!stop_.load(std::memory_order_acquire))
              {
                  std::this_thread::sleep_for(std::chrono::milliseconds(1));
                  ticks_.fetch_add(1, std::memory_order_release);
              }
          })
        {
        }
        ~Heartbeat()
        {
            stop_.store(true, std::memory_order_release);
            th_.join();
        }
        long ticks() const { return ticks_.load(std::memory_order_acquire); }

    private:
        std::atomic<bool> stop_{false};
        std::atomic<long> ticks_{0};
        std::thread th_;
    };

    bool evalForm(const PTC &p, int form)
    {
        switch (form % 3)
        {
            case 0:
                return p.eval();
            case 1:
                return p();
            default:
                return (bool)p;
        }
    }

    // ---------------------------------------------------------------------------------------------------------------
    // predicate leaf + terminate(), single thread
    void casePredicate(Sink &sink, Rng &rng)
    {
        const char *subj = "PlannerTerminationCondition(fn)";
        int len = rng.range(1, 500);
        std::vector<char> trace(len);
        double p = rng.coin(0.3) ? rng.uni(0, 1) : rng.logUni(0.005, 0.5);
        for (auto &t : trace) t = rng.coin(p);
        long step = 0, calls = 0;
        PTC c([&] {
            ++calls;
            return (bool)trace[step];
        });
        std::unique_ptr<PTC> copy;
        if (rng.coin(0.5)) copy.reset(new PTC(c));
        int termAt = rng.coin(0.6) ? rng.range(0, len) : -1;  // len = never reached
        bool viaCopy = copy && rng.coin(), termed = false;
        uint64_t h = hashBytes(trace.data(), trace.size());
        for (step = 0; step < len; ++step)
        {
            if (step == termAt)
            {
                (viaCopy ? *copy : c).terminate();
                termed = true;
                sink.count("c18_terminate_same_thread");
            }
            bool expect = termed || trace[step];
            long before = calls;
            bool got = evalForm(copy && rng.coin(0.3) ? *copy : c, (int)rng.ui(3));
            sink.count("c18_pred_evals");
            sink.count("c18_pred_invocations", calls - before);
            if (termed) sink.count("c18_evals_after_terminate");
            if (got != expect)
            {
                sink.viol(std::string("C18:") + (termed && !got ? "terminate-not-sticky:" : "predicate-mismatch:") + subj,
                          J().i("step", step).b("expected", expect).b("got", got).i("terminate_at", termAt).i("trace_length", len));
                break;
            }
        }
        sink.noteCase(hmix(h, (uint64_t)termAt + 7), len >= 2);
        sink.sample(J().str("kind", "predicate").i("trace_length", len).i("terminate_at", termAt));
    }

    // ---------------------------------------------------------------------------------------------------------------
    // nestings
    enum NodeKind
    {
        N_PRED,
        N_ALWAYS,
        N_NEVER,
        N_OR,
        N_AND,
        N_COPY
    };
    const char *nodeSubject[] = {"PlannerTerminationCondition(fn)", "plannerAlwaysTerminatingCondition",
                                 "plannerNonTerminatingCondition", "plannerOrTerminationCondition",
                                 "plannerAndTerminationCondition", "copy"};
    const char *nodeClause[] = {"predicate-mismatch", "always-not-true", "never-not-false", "or-mismatch", "and-mismatch", ""};
    struct Node
    {
        NodeKind kind;
        int a = -1, b = -1;  // children (N_OR/N_AND), source (N_COPY)
        int rep = -1;        // node whose implementation object this one shares (itself unless a copy)
        int depth = 0;
        std::shared_ptr<std::vector<char>> trace;
        std::unique_ptr<PTC> ptc;
    };

    void caseNesting(Sink &sink, Rng &rng, bool secondThread)
    {
        int len = rng.range(1, secondThread ? 200 : 500);
        long step = 0;
        std::vector<Node> nodes;
        nodes.reserve(64);
        auto addLeaf = [&] {
            Node n;
            double u = rng.u01();
            n.kind = u < 0.7 ? N_PRED : u < 0.85 ? N_ALWAYS : N_NEVER;
            if (n.kind == N_PRED)
            {
                n.trace = std::make_shared<std::vector<char>>(len);
                double p = rng.coin(0.3) ? rng.uni(0, 1) : rng.logUni(0.01, 0.5);
                for (auto &t : *n.trace) t = rng.coin(p);
                auto tr = n.trace;
                long *st = &step;
                n.ptc.reset(new PTC([tr, st] { return (bool)(*tr)[*st]; }));
            }
            else if (n.kind == N_ALWAYS)
                n.ptc.reset(new PTC(ob::plannerAlwaysTerminatingCondition()));
            else
                n.ptc.reset(new PTC(ob::plannerNonTerminatingCondition()));
            n.rep = (int)nodes.size();
            nodes.push_back(std::move(n));
        };
        int leaves = rng.range(1, 6);
        for (int i = 0; i < leaves; ++i) addLeaf();
        int inner = rng.range(1, 14);
        for (int i = 0; i < inner; ++i)
        {
            double u = rng.u01();
            if (u < 0.15)
            {
                Node n;
                n.kind = N_COPY;
                n.a = (int)rng.ui(nodes.size());
                n.rep = nodes[n.a].rep;
                n.depth = nodes[n.a].depth;
                n.ptc.reset(new PTC(*nodes[n.a].ptc));
                nodes.push_back(std::move(n));
                continue;
            }
            Node n;
            n.kind = u < 0.58 ? N_OR : N_AND;
            // prefer deep operands so that nestings up to depth 5 are common
            auto pick = [&] {
                int x = (int)rng.ui(nodes.size()), y = (int)rng.ui(nodes.size());
                return nodes[x].depth >= nodes[y].depth ? x : y;
            };
            n.a = pick();
            n.b = rng.coin(0.5) ? pick() : (int)rng.ui(nodes.size());
            n.depth = 1 + std::max(nodes[n.a].depth, nodes[n.b].depth);
            if (n.depth > 5) continue;
            n.ptc.reset(new PTC(n.kind == N_OR ? ob::plannerOrTerminationCondition(*nodes[n.a].ptc, *nodes[n.b].ptc) :
                                                 ob::plannerAndTerminationCondition(*nodes[n.a].ptc, *nodes[n.b].ptc)));
            n.rep = (int)nodes.size();
            nodes.push_back(std::move(n));
        }
        const int N = (int)nodes.size();
        int maxDepth = 0;
        for (auto &n : nodes) maxDepth = std::max(maxDepth, n.depth);
        sink.maxstat("c18_nesting_depth_max", maxDepth);
        sink.count(std::string("c18_nesting_depth_") + std::to_string(maxDepth));
        std::vector<char> term(N, 0);
        int termAt = rng.coin(0.75) ? rng.range(0, len - 1) : -1, termNode = (int)rng.ui(N);
        int termAt2 = !secondThread && rng.coin(0.3) ? rng.range(0, len - 1) : -1, termNode2 = (int)rng.ui(N);
        // model: value of every node given the set of terminated implementation objects
        auto model = [&](const std::vector<char> &tm, std::vector<char> &val) {
            val.assign(N, 0);
            for (int i = 0; i < N; ++i)
            {
                const Node &n = nodes[i];
                const Node &s = nodes[n.rep];  // a copy evaluates the function of its source
                bool base = false;
                switch (s.kind)
                {
                    case N_PRED:
                        base = (*s.trace)[step];
                        break;
                    case N_ALWAYS:
                        base = true;
                        break;
                    case N_NEVER:
                        base = false;
                        break;
                    case N_OR:
                        base = val[s.a] || val[s.b];
                        break;
                    case N_AND:
                        base = val[s.a] && val[s.b];
                        break;
                    default:
                        break;
                }
                val[i] = tm[n.rep] || base;
            }
        };
        // second thread: terminate() when told to, then publish "returned" through a release store
        std::atomic<int> go{0};
        std::atomic<bool> returned{false};
        std::thread other;
        if (secondThread && termAt >= 0)
            other = std::thread([&] {
                while (go.load(std::memory_order_acquire) == 0) std::this_thread::yield();
                nodes[termNode].ptc->terminate();
                returned.store(true, std::memory_order_release);
            });
        bool pending = false, violated = false;
        std::vector<char> vA, vB, tmB;
        for (step = 0; step < len && !violated; ++step)
        {
            if (step == termAt)
            {
                if (secondThread)
                {
                    go.store(1, std::memory_order_release);
                    pending = true;
                    sink.count("c18_terminate_second_thread");
                    if (rng.coin(0.5)) std::this_thread::yield();
                }
                else
                {
                    nodes[termNode].ptc->terminate();
                    term[nodes[termNode].rep] = 1;
                    sink.count("c18_terminate_same_thread");
                }
            }
            if (step == termAt2)
            {
                nodes[termNode2].ptc->terminate();
                term[nodes[termNode2].rep] = 1;
                sink.count("c18_terminate_same_thread");
            }
            // evaluations issued after terminate() is known to have returned must see it
            if (pending && returned.load(std::memory_order_acquire))
            {
                pending = false;
                term[nodes[termNode].rep] = 1;
            }
            model(term, vA);
            if (pending)
            {
                tmB = term;
                tmB[nodes[termNode].rep] = 1;
                model(tmB, vB);
                sink.count("c18_steps_concurrent_with_terminate");
            }
            for (int i = 0; i < N && !violated; ++i)
            {
                bool got = evalForm(*nodes[i].ptc, (int)rng.ui(3));
                sink.count("c18_nest_evals");
                bool ok = got == (bool)vA[i] || (pending && got == (bool)vB[i]);
                if (term[nodes[i].rep]) sink.count("c18_evals_after_terminate");
                if (!ok)
                {
                    const Node &s = nodes[nodes[i].rep];
                    std::string clause = term[nodes[i].rep] && !got ? "terminate-not-sticky" : nodeClause[s.kind];
                    sink.viol("C18:" + clause + ":" + nodeSubject[s.kind],
                              J().i("step", step).i("node", i).b("is_copy", nodes[i].kind == N_COPY).b("expected", vA[i]).b("got", got)
                                  .b("terminated", term[nodes[i].rep]).b("second_thread", secondThread).i("nodes", N).i("depth", nodes[i].depth));
                    violated = true;
                }
            }
        }
        if (other.joinable())
        {
            go.store(1, std::memory_order_release);  // history abandoned before the injection point
            other.join();
            // after the join terminate() has certainly returned: every evaluation from now on is true for that node
            if (!violated)
            {
                step = len - 1;
                term[nodes[termNode].rep] = 1;
                model(term, vA);
                for (int i = 0; i < N; ++i)
                {
                    bool got = nodes[i].ptc->eval();
                    sink.count("c18_evals_after_terminate");
                    if (got != (bool)vA[i])
                    {
                        const Node &s = nodes[nodes[i].rep];
                        std::string clause = term[nodes[i].rep] && !got ? "terminate-not-sticky" : nodeClause[s.kind];
                        sink.viol("C18:" + clause + ":" + nodeSubject[s.kind],
                                  J().i("step", step).i("node", i).b("expected", vA[i]).b("got", got).b("after_join", true));
                        break;
                    }
                }
            }
        }
        uint64_t h = 1469598103934665603ULL;
        for (auto &n : nodes)
        {
            h = hmix(h, (uint64_t)n.kind * 64 + (uint64_t)(n.a + 1) * 8 + (uint64_t)(n.b + 1));
            if (n.trace) h = hashBytes(n.trace->data(), n.trace->size(), h);
        }
        sink.noteCase(hmix(h, (uint64_t)(termAt + 1) * 977 + termNode), N >= 3 && maxDepth >= 1);
        sink.sample(J().str("kind", secondThread ? "nesting-mt" : "nesting").i("nodes", N).i("depth", maxDepth).i("trace_length", len)
                        .i("terminate_at", termAt));
    }

    // ---------------------------------------------------------------------------------------------------------------
    void caseIterationN(Sink &sink, Rng &rng, unsigned n);
    void caseIteration(Sink &sink, Rng &rng)
    {
        // the 1001 values 0..1000 are cut into 41 blocks of 25; a case takes one block (a function of the case index), so that
        // every n is visited many times per run; each n is used directly (with reset()) and through the cast
        unsigned block = (unsigned)rng.ui(41);
        for (unsigned n = block * 25; n < block * 25 + 25 && n <= 1000; ++n) caseIterationN(sink, rng, n);
        // the largest representable limits ("no limit" in practice): the first evaluations must all be false
        static const unsigned HUGE_N[] = {UINT_MAX, UINT_MAX - 1u, 0x80000000u, 0x7fffffffu, 0x80000001u, UINT_MAX - 1000u};
        for (unsigned n : HUGE_N)
        {
            ob::IterationTerminationCondition itc(n);
            PTC cast = itc;
            PTC viaOr = ob::plannerOrTerminationCondition(cast, ob::plannerNonTerminatingCondition());
            int evals = rng.range(1, 40);
            unsigned direct = 0;  // the cast works on a copy of the object: only direct evaluations count in itc itself
            for (int i = 1; i <= evals; ++i)
            {
                int via = (int)rng.ui(3);
                bool got = via == 0 ? itc.eval() : via == 1 ? evalForm(cast, (int)rng.ui(3)) : viaOr();
                if (via == 0) ++direct;
                sink.count("c18_iter_huge_n_evals");
                if (got || itc.getTimesCalled() != direct)
                {
                    sink.viol("C18:iteration-count:IterationTerminationCondition",
                              J().i("n", (long long)n).i("evaluation", i).b("got", got).i("timesCalled", itc.getTimesCalled()).i("direct", direct).i("via", via));
                    break;
                }
            }
        }
        sink.noteCase(hmix(0x17e7, block), true);
        sink.sample(J().str("kind", "iteration").i("n_from", block * 25).i("n_to", std::min(1000u, block * 25 + 24)));
    }

    void caseIterationN(Sink &sink, Rng &rng, unsigned n)
    {
        bool viol = false;
        // (a) directly, with reset()
        {
            ob::IterationTerminationCondition itc(n);
            unsigned long k = 0;
            int rounds = rng.range(1, 3);
            for (int r = 0; r < rounds && !viol; ++r)
            {
                unsigned long evals = rng.coin(0.5) ? n + rng.range(1, 6) : (unsigned long)rng.range(0, (int)n + 5);
                for (unsigned long i = 0; i < evals; ++i)
                {
                    bool got = itc.eval();
                    ++k;
                    sink.count("c18_iter_evals");
                    if (got != (k > n) || itc.getTimesCalled() != k)
                    {
                        sink.viol("C18:iteration-count:IterationTerminationCondition",
                                  J().i("n", n).i("evaluation", (long long)k).b("got", got).i("timesCalled", itc.getTimesCalled()).i("round", r));
                        viol = true;
                        break;
                    }
                }
                itc.reset();
                k = 0;
                sink.count("c18_iter_resets");
            }
        }
        // (b) through the cast (made from a fresh or freshly reset object), evaluated through the cast, copies of it and
        //     combinators that captured it: all share one implementation object, the evaluations count together
        if (!viol)
        {
            ob::IterationTerminationCondition itc(n);
            if (rng.coin(0.5))
            {
                int pre = rng.range(1, 5);
                for (int i = 0; i < pre; ++i) itc.eval();
                itc.reset();
                sink.count("c18_iter_resets");
            }
            PTC cast = itc;
            PTC copy(cast);
            PTC viaOr = ob::plannerOrTerminationCondition(cast, ob::plannerNonTerminatingCondition());
            PTC viaAnd = ob::plannerAndTerminationCondition(ob::plannerAlwaysTerminatingCondition(), cast);
            unsigned long k = 0, evals = n + rng.range(1, 8);
            int termAt = rng.coin(0.2) ? rng.range(0, (int)evals - 1) : -1;
            bool termed = false;
            for (unsigned long i = 0; i < evals; ++i)
            {
                if ((long)i == termAt)
                {
                    cast.terminate();
                    termed = true;
                    sink.count("c18_terminate_same_thread");
                }
                int via = (int)rng.ui(4);
                bool got = via == 0 ? evalForm(cast, (int)rng.ui(3)) : via == 1 ? copy() : via == 2 ? viaOr() : viaAnd();
                if (!termed) ++k;  // once terminated the function is not consulted any more
                bool expect = termed || k > n;
                sink.count("c18_iter_cast_evals");
                if (got != expect)
                {
                    sink.viol(std::string("C18:") + (termed && !got ? "terminate-not-sticky" : "iteration-count") +
                                  ":IterationTerminationCondition::cast",
                              J().i("n", n).i("evaluation", (long long)k).b("got", got).i("via", via).b("terminated", termed));
                    viol = true;
                    break;
                }
            }
        }
        sink.count("c18_iter_n_values_run");
        if (n == 0 || n == 1 || n == 1000) sink.count("c18_iter_n_edge_values_run");
    }

    // ---------------------------------------------------------------------------------------------------------------
    // One run of a timed condition. Outcome: 0 held, 1 early, 2 reverted, 3 late, 4 late but the machine did not let a
    // thread doing the very same polling get there in time either (stall).
    struct TimedRun
    {
        int outcome = 0;
        J detail;
        long evals = 0, falseEvals = 0;
        bool becameTrue = false, clockStepped = false;
    };
    TimedRun runTimed(Rng &rng, bool polled, double dur, double interval, int form, Heartbeat &hb)
    {
        const double slack = 0.050;
        TimedRun R;
        double effInt = polled ? std::min(interval, dur) : 0.0;  // the library clamps the interval to the duration
        auto sys0 = std::chrono::system_clock::now();
        auto t0 = Clock::now();
        std::unique_ptr<PTC> ptc;
        if (form == 0)
            ptc.reset(new PTC(ob::timedPlannerTerminationCondition(dur)));
        else if (form == 1)
            ptc.reset(new PTC(ob::timedPlannerTerminationCondition(ompl::time::seconds(dur))));
        else
            ptc.reset(new PTC(ob::timedPlannerTerminationCondition(dur, interval)));
        auto t1 = Clock::now();
        auto sysEnd = std::chrono::system_clock::now() + std::chrono::duration_cast<std::chrono::system_clock::duration>(
                                                             std::chrono::duration<double>(dur));
        // twin of the library's polling thread: same clock, same comparison, same sleeping pattern (period cut into slices of
        // about a millisecond); records on the steady clock when it saw the end time pass
        std::atomic<bool> twinStop{false};
        std::atomic<long long> twinFlipNs{-1};
        std::thread twin;
        if (polled)
            twin = std::thread([&] {
                unsigned count = 1;
                double slice = effInt;
                if (effInt > 0.001)
                {
                    count = (unsigned)(0.5 + effInt / 0.001);
                    slice = effInt / count;
                }
                while (!twinStop.load(std::memory_order_acquire))
                {
                    if (std::chrono::system_clock::now() > sysEnd)
                    {
                        twinFlipNs.store(std::chrono::duration_cast<std::chrono::nanoseconds>(Clock::now() - t1).count(),
                                         std::memory_order_release);
                        return;
                    }
                    for (unsigned i = 0; i < count && !twinStop.load(std::memory_order_acquire); ++i)
                        std::this_thread::sleep_for(std::chrono::duration<double>(slice));
                }
            });
        PTC copy(*ptc);
        const auto earlyBound = t0 + dsec(dur - slack), lateBound = t1 + dsec(dur + effInt + slack), endT = t1 + dsec(dur);
        bool seenTrue = false, passedEnd = false;
        long hbAtEnd = 0, afterTrue = 0;
        const long watchAfterTrue = rng.range(5, 80);  // keep evaluating for a while: once true, never false again
        while (true)
        {
            auto tb = Clock::now();
            bool v = evalForm(rng.coin(0.3) ? copy : *ptc, (int)rng.ui(3));
            auto ta = Clock::now();
            ++R.evals;
            if (!passedEnd && tb >= endT)
            {
                passedEnd = true;
                hbAtEnd = hb.ticks();
            }
            if (v && ta < earlyBound)
            {
                R.outcome = 1;
                R.detail = J().num("duration", dur).num("interval", interval).num("true_at_s_after_construction_start", secs(ta - t0));
                break;
            }
            if (seenTrue && !v)
            {
                R.outcome = 2;
                R.detail = J().num("duration", dur).num("interval", interval).num("false_at_s_after_construction", secs(tb - t1));
                break;
            }
            if (!v && tb > lateBound)
            {
                double slept = (hb.ticks() - hbAtEnd) * 0.001;
                long long tf = twinFlipNs.load(std::memory_order_acquire);
                // the direct form has no thread (it reads the clock inside eval()); for the polled form the twin must have
                // seen the end time pass with half the slack to spare, and a millisecond sleeper must have made progress
                bool stall = polled && (tf < 0 || tf * 1e-9 > dur + effInt + slack / 2 || slept < 2.0 * effInt + 0.020);
                R.outcome = stall ? 4 : 3;
                R.detail = J().num("duration", dur).num("interval", interval).num("false_at_s_after_construction_end", secs(tb - t1))
                               .num("twin_saw_end_time_at_s", tf * 1e-9).num("heartbeat_sleep_since_end_time_s", slept);
                break;
            }
            if (v)
            {
                seenTrue = true;
                if (++afterTrue > watchAfterTrue) break;
            }
            else
                ++R.falseEvals;
            std::this_thread::sleep_for(std::chrono::microseconds(rng.range(50, v ? 400 : 900)));
        }
        twinStop.store(true, std::memory_order_release);
        if (twin.joinable()) twin.join();
        R.becameTrue = seenTrue;
        // ompl::time is the system clock: if it was stepped against the steady clock during the run nothing is decided
        double drift = std::fabs(std::chrono::duration<double>(std::chrono::system_clock::now() - sys0).count() - secs(Clock::now() - t0));
        R.clockStepped = drift > 0.005;
        return R;
    }

    void caseTimed(Sink &sink, Rng &rng, bool polled, Heartbeat &hb)
    {
        double dur = rng.logUni(0.005, 0.3);
        double interval = 0;
        if (polled) interval = rng.coin(0.1) ? dur * rng.uni(1.0, 3.0) : rng.logUni(0.0002, dur);
        const char *subj = polled ? "timedPlannerTerminationCondition(duration,interval)" : "timedPlannerTerminationCondition(duration)";
        int form = polled ? 2 : (int)rng.ui(2);
        // A late flip can be this machine's doing (the polling thread was not scheduled). It is a violation only if it shows in
        // three runs of the same condition in a row while the twin was on time in each of them.
        TimedRun R;
        int lateRuns = 0;
        for (int attempt = 0; attempt < 3; ++attempt)
        {
            R = runTimed(rng, polled, dur, interval, form, hb);
            sink.count("c18_timed_evals", R.evals);
            sink.count("c18_timed_false_evals", R.falseEvals);
            sink.count("c18_timed_runs");
            if (R.becameTrue) sink.count("c18_timed_became_true");
            if (R.clockStepped || R.outcome != 3) break;
            ++lateRuns;
            sink.count("c18_timed_late_runs_retried");
        }
        sink.count(polled ? "c18_timed_polled_cases" : "c18_timed_direct_cases");
        static const char *clause[] = {"", "timed-early", "timed-reverted", "timed-late"};
        if (R.clockStepped)
            sink.inconclusive("timed:system-clock-stepped");
        else if (R.outcome == 4)
            sink.inconclusive("timed:machine-stalled");
        else if (R.outcome == 3 && lateRuns == 3)
            sink.viol(std::string("C18:timed-late:") + subj, R.detail.i("late_runs_in_a_row", lateRuns));
        else if (R.outcome == 1 || R.outcome == 2)
            sink.viol(std::string("C18:") + clause[R.outcome] + ":" + subj, R.detail);
        else if (lateRuns > 0)
            sink.inconclusive("timed:late-once-not-reproduced");
        sink.noteCase(hmixd(hmixd(0x71ed, dur), interval), true);
        sink.sample(J().str("kind", polled ? "timed-polled" : "timed").num("duration", dur).num("interval", interval).i("evaluations", R.evals));
    }

    // ---------------------------------------------------------------------------------------------------------------
    void caseExact(Sink &sink, Rng &rng)
    {
        const char *subj = "exactSolnPlannerTerminationCondition";
        auto sp = std::make_shared<ob::RealVectorStateSpace>(2);
        sp->setBounds(0, 1);
        auto si = std::make_shared<ob::SpaceInformation>(sp);
        si->setStateValidityChecker([](const ob::State *) { return true; });
        si->setup();
        auto pdef = std::make_shared<ob::ProblemDefinition>(si);
        if (rng.coin(0.5)) pdef->setOptimizationObjective(std::make_shared<ob::PathLengthOptimizationObjective>(si));
        PTC ptc = ob::exactSolnPlannerTerminationCondition(pdef);
        PTC copy(ptc);
        PTC viaAnd = ob::plannerAndTerminationCondition(ptc, ob::plannerAlwaysTerminatingCondition());
        int ops = rng.range(1, 60);
        int exact = 0, approx = 0;
        uint64_t h = 0xe4ac7;
        auto mkPath = [&] {
            auto p = std::make_shared<og::PathGeometric>(si);
            ob::State *s = si->allocState();
            int n = rng.range(1, 4);
            for (int i = 0; i < n; ++i)
            {
                s->as<ob::RealVectorStateSpace::StateType>()->values[0] = rng.u01();
                s->as<ob::RealVectorStateSpace::StateType>()->values[1] = rng.u01();
                p->append(s);
            }
            si->freeState(s);
            return p;
        };
        for (int i = 0; i <= ops; ++i)
        {
            bool expect = exact > 0;
            int via = (int)rng.ui(3);
            bool got = via == 0 ? evalForm(ptc, (int)rng.ui(3)) : via == 1 ? copy() : viaAnd();
            sink.count("c18_exact_evals");
            if (expect) sink.count("c18_exact_evals_expect_true");
            if (got != expect)
            {
                sink.viol(std::string("C18:exact-soln-mismatch:") + subj,
                          J().i("op", i).b("expected", expect).b("got", got).i("exact_solutions", exact).i("approximate_solutions", approx));
                break;
            }
            if (i == ops) break;
            // one to three operations between two evaluations (a clear followed by additions changes the kind of the
            // solutions held without the condition ever seeing the empty set)
            int burst = rng.coin(0.6) ? 1 : rng.range(2, 3);
            for (int b = 0; b < burst; ++b)
            {
            double u = rng.u01();
            int op = u < 0.45 ? 0 : u < 0.85 ? 1 : 2;
            if (b > 0 && rng.coin(0.5)) op = (b == 1) ? 2 : (int)rng.ui(2);  // clear, then add
            h = hmix(h, op);
            if (op == 0)
            {
                pdef->addSolutionPath(mkPath(), true, rng.uni(0.01, 1.0), "harness");
                ++approx;
            }
            else if (op == 1)
            {
                if (rng.coin(0.5))
                    pdef->addSolutionPath(mkPath(), false, 0.0, "harness");
                else
                {
                    ob::PlannerSolution sol(mkPath());
                    sol.setPlannerName("harness");
                    if (pdef->hasOptimizationObjective() && rng.coin())
                        sol.setOptimized(pdef->getOptimizationObjective(), ob::Cost(rng.uni(0, 3)), rng.coin());
                    pdef->addSolutionPath(sol);
                }
                ++exact;
            }
            else
            {
                pdef->clearSolutionPaths();
                exact = approx = 0;
                sink.count("c18_exact_clears");
            }
            }
        }
        sink.noteCase(h, ops >= 3);
        sink.sample(J().str("kind", "exact-soln").i("operations", ops));
    }

    // ---------------------------------------------------------------------------------------------------------------
    void caseCostConvergence(Sink &sink, Rng &rng)
    {
        const char *subj = "CostConvergenceTerminationCondition";
        auto sp = std::make_shared<ob::RealVectorStateSpace>(2);
        sp->setBounds(0, 1);
        auto si = std::make_shared<ob::SpaceInformation>(sp);
        si->setStateValidityChecker([](const ob::State *) { return true; });
        si->setup();
        ob::ProblemDefinitionPtr pdef = std::make_shared<ob::ProblemDefinition>(si);
        size_t w = rng.coin(0.15) ? 10 : (size_t)rng.range(1, 12);
        double eps = rng.coin(0.15) ? 0.1 : rng.logUni(1e-4, 0.5);
        bool defaults = rng.coin(0.05);
        std::unique_ptr<ob::CostConvergenceTerminationCondition> cc;
        if (defaults)
        {
            w = 10;
            eps = 0.1;
            cc.reset(new ob::CostConvergenceTerminationCondition(pdef));
        }
        else
            cc.reset(new ob::CostConvergenceTerminationCondition(pdef, w, eps));
        PTC base = *cc;  // shares the implementation object
        auto cb = pdef->getIntermediateSolutionCallback();
        int len = rng.range(1, 120);
        int gen = (int)rng.ui(6);
        double c = rng.logUni(0.1, 1000), rate = rng.coin() ? rng.uni(0, 0.3) : rng.logUni(1e-5, 0.05);
        // reference: cumulative moving average exactly as CostConvergenceTerminationCondition::processNewSolution computes it
        double avg = 0;
        size_t nsol = 0;
        int refFire = -1, implFire = -1;
        bool near = false;
        uint64_t h = hmixd(hmix(0xcc, w), eps);
        for (int i = 0; i < len; ++i)
        {
            switch (gen)
            {
                case 0:  // improving geometrically
                    c *= (1.0 - rng.uni(0, rate));
                    break;
                case 1:  // plateau after a while
                    if (i < len / 3) c *= (1.0 - rng.uni(0, 0.2));
                    break;
                case 2:  // noise around a level
                    c = std::fabs(c * (1.0 + rng.uni(-rate, rate)));
                    break;
                case 3:  // arbitrary
                    c = rng.logUni(1e-3, 1e3);
                    break;
                case 4:  // getting worse
                    c *= (1.0 + rng.uni(0, rate));
                    break;
                default:  // zeros, repeats, an occasional negative value
                    c = rng.coin(0.3) ? 0.0 : rng.coin(0.1) ? -rng.uni(0, 5) : (double)rng.range(0, 5);
                    break;
            }
            h = hmixd(h, c);
            ++nsol;
            size_t s = std::min(nsol, w);
            double nw = ((s - 1) * avg + c) / s;
            double lo = (1. - eps) * avg, hi = (1. + eps) * avg;
            avg = nw;
            bool fire = s == w && avg > lo && avg < hi;
            if (s == w && refFire < 0 && implFire < 0)
            {
                // a decision within 1e-9 relative of a threshold is not evidence (exact zeros are: the arithmetic is the same)
                auto close = [](double x, double t) { return x != t ? std::fabs(x - t) <= 1e-9 * std::max(std::fabs(x), std::fabs(t)) : x != 0.0; };
                if (close(avg, lo) || close(avg, hi)) near = true;
            }
            if (fire && refFire < 0) refFire = i;
            cb(nullptr, std::vector<const ob::State *>(), ob::Cost(c));
            bool got = rng.coin() ? (*cc)() : base.eval();
            sink.count("c18_costconv_solutions");
            if (got && implFire < 0) implFire = i;
            if (implFire >= 0 && !got)
            {
                sink.viol(std::string("C18:terminate-not-sticky:") + subj, J().i("index", i).i("fired_at", implFire));
                break;
            }
            if (refFire >= 0 && implFire >= 0 && i > std::max(refFire, implFire) + 3) break;
        }
        if (near)
            sink.inconclusive("cost-convergence:decision-within-1e-9-of-threshold");
        else if (refFire != implFire)
            sink.viol(std::string("C18:cost-convergence-index:") + subj,
                      J().i("window", (long long)w).num("epsilon", eps).i("reference_fires_at", refFire).i("implementation_fires_at", implFire)
                          .i("generator", gen).i("length", len));
        if (implFire >= 0) sink.count("c18_costconv_fired");
        else sink.count("c18_costconv_not_fired");
        sink.count("c18_costconv_sequences");
        sink.noteCase(h, len >= 2);
        sink.sample(J().str("kind", "cost-convergence").i("window", (long long)w).num("epsilon", eps).i("length", len).i("fires_at", implFire));
    }

    // ---------------------------------------------------------------------------------------------------------------
    // periodic form, decided on logical steps
    struct Probe
    {
        static const int MAXINV = 1 << 16;
        std::atomic<long> started{0}, finished{0};
        std::atomic<long> step{0};
        std::vector<char> trace;
        std::unique_ptr<std::atomic<signed char>[]> ret;
        Probe() : ret(new std::atomic<signed char>[MAXINV])
        {
            for (int i = 0; i < MAXINV; ++i) ret[i].store(-1, std::memory_order_relaxed);
            ret[0].store(0, std::memory_order_relaxed);  // before the first poll the cached value is false
        }
        bool operator()()
        {
            long k = started.fetch_add(1, std::memory_order_acq_rel) + 1;
            long s = step.load(std::memory_order_acquire);
            bool v = trace[(size_t)std::min<long>(s, (long)trace.size() - 1)];
            if (k < MAXINV) ret[k].store(v ? 1 : 0, std::memory_order_release);
            finished.fetch_add(1, std::memory_order_acq_rel);
            return v;
        }
    };

    // one evaluation checked against the invocations it can have seen; returns "" or the violated clause
    const char *checkedEval(Probe &pr, const PTC &p, bool terminated, int form, long &candidates,
                            const std::atomic<bool> *terminateRequested = nullptr)
    {
        long s0 = pr.started.load(std::memory_order_acquire);
        bool v = evalForm(p, form);
        long s1 = pr.started.load(std::memory_order_acquire);
        if (terminated) return v ? "" : "terminate-not-sticky";
        // an evaluation that overlaps a terminate() issued by the other thread may already see it
        if (v && terminateRequested && terminateRequested->load(std::memory_order_acquire)) return "";
        bool canTrue = false, canFalse = false;
        for (long j = std::max<long>(0, s0 - 1); j <= s1 && j < Probe::MAXINV; ++j)
        {
            signed char r = pr.ret[j].load(std::memory_order_acquire);
            if (r != 0) canTrue = true;   // 1 or still in flight
            if (r != 1) canFalse = true;  // 0 or still in flight
            ++candidates;
        }
        if (s1 >= Probe::MAXINV) return "";
        if (v && !canTrue) return "predicate-mismatch";  // true although no poll it can have seen returned true
        if (!v && !canFalse) return "periodic-late";     // false although the poll before the one in progress returned true
        return "";
    }

    void casePeriodic(Sink &sink, Rng &rng, Heartbeat &hb)
    {
        const char *subj = "PlannerTerminationCondition(fn,period)";
        double period = rng.logUni(0.0002, 0.008);
        const double progressLimit = std::max(100 * period, 2.0);
        int steps = rng.range(2, 14);
        auto pr = std::make_shared<Probe>();
        pr->trace.resize(steps);
        bool monotone = rng.coin(0.5);
        int flip = rng.range(1, steps - 1);
        for (int i = 0; i < steps; ++i) pr->trace[i] = monotone ? i >= flip : rng.coin(0.4);
        bool useCopy = rng.coin(0.5), secondEval = rng.coin(0.5);
        int termAt = rng.coin(0.3) ? rng.range(1, steps - 1) : -1;
        std::unique_ptr<PTC> ptc(new PTC([pr] { return (*pr)(); }, period));
        std::unique_ptr<PTC> copy;
        if (useCopy) copy.reset(new PTC(*ptc));
        if (useCopy && rng.coin(0.5)) ptc.swap(copy), copy.reset();  // the original goes first; the thread has to live on
        std::string viol;
        J detail;
        std::atomic<bool> stopB{false}, termedFlag{false}, termRequested{false};
        std::atomic<long> bEvals{0}, bCand{0};
        std::string violB;
        std::thread B;
        std::unique_ptr<PTC> forBHolder;
        if (secondEval)
        {
            forBHolder.reset(new PTC(*ptc));
            const PTC &forB = *forBHolder;
            B = std::thread([&] {
                int f = 0;
                while (!stopB.load(std::memory_order_acquire))
                {
                    bool t = termedFlag.load(std::memory_order_acquire);
                    long cand = 0;
                    const char *r = checkedEval(*pr, forB, t, f++, cand, &termRequested);
                    bEvals.fetch_add(1, std::memory_order_relaxed);
                    bCand.fetch_add(cand, std::memory_order_relaxed);
                    if (*r && violB.empty()) violB = r;
                    std::this_thread::yield();
                }
            });
        }
        bool termed = false, stalled = false;
        long evals = 0, cand = 0;
        for (int s = 0; s < steps && viol.empty(); ++s)
        {
            pr->step.store(s, std::memory_order_release);
            if (s == termAt)
            {
                termRequested.store(true, std::memory_order_seq_cst);  // before the call: "may be seen from now on"
                ptc->terminate();
                termed = true;
                termedFlag.store(true, std::memory_order_release);  // after it returned: "must be seen from now on"
                sink.count("c18_terminate_same_thread");
            }
            // stay in this step until the polling thread has started two more polls (none are expected once terminated)
            long base = pr->started.load(std::memory_order_acquire), seen = base;
            auto tSeen = Clock::now();
            long hbSeen = hb.ticks();
            int want = rng.range(1, 3);
            while (viol.empty())
            {
                const char *r = checkedEval(*pr, *ptc, termed, (int)rng.ui(3), cand);
                ++evals;
                if (*r)
                {
                    viol = r;
                    detail = J().num("period", period).i("step", s).i("polls_started", pr->started.load()).b("terminated", termed).b("monotone", monotone);
                    break;
                }
                long now = pr->started.load(std::memory_order_acquire);
                if (now != seen)
                {
                    seen = now;
                    tSeen = Clock::now();
                    hbSeen = hb.ticks();
                }
                if (termed)
                {
                    if (evals % 7 == 0) break;
                }
                else if (now - base >= want)
                    break;
                else if (secs(Clock::now() - tSeen) > progressLimit)
                {
                    // no poll for max(100 periods, 2 s): did a thread sleeping in millisecond slices make progress meanwhile?
                    if ((hb.ticks() - hbSeen) * 0.001 < 0.5 * progressLimit)
                        stalled = true;
                    else
                    {
                        viol = "periodic-no-progress";
                        detail = J().num("period", period).i("step", s).i("polls_started", now).num("waited_s", secs(Clock::now() - tSeen));
                    }
                    break;
                }
                std::this_thread::sleep_for(std::chrono::microseconds(rng.range(20, 300)));
            }
            if (stalled) break;
        }
        stopB.store(true, std::memory_order_release);
        if (B.joinable()) B.join();
        if (viol.empty() && !violB.empty())
        {
            viol = violB;
            detail = J().num("period", period).b("second_evaluating_thread", true).b("terminated", termed);
        }
        // destruction: the last holder goes, the predicate must never run again
        ptc.reset();
        copy.reset();
        forBHolder.reset();
        long a0 = pr->started.load(std::memory_order_acquire), f0 = pr->finished.load(std::memory_order_acquire);
        std::this_thread::sleep_for(dsec(std::max(5 * period, 0.004)));
        long a1 = pr->started.load(std::memory_order_acquire);
        sink.count("c18_periodic_destroy_checks");
        if (viol.empty() && (a1 != a0 || f0 != a0))
        {
            viol = "periodic-invoked-after-destroy";
            detail = J().num("period", period).i("polls_started_at_destruction", a0).i("polls_finished_at_destruction", f0).i("polls_started_later", a1);
        }
        sink.count("c18_periodic_cases");
        sink.count("c18_periodic_evals", evals + bEvals.load());
        sink.count("c18_periodic_polls", a1);
        sink.count("c18_periodic_candidate_polls", cand + bCand.load());
        if (secondEval) sink.count("c18_periodic_second_thread_cases");
        if (stalled)
            sink.inconclusive("periodic:machine-stalled");
        else if (!viol.empty())
            sink.viol("C18:" + viol + ":" + subj, detail);
        uint64_t h = hmixd(0x9e710d1c, period);
        h = hashBytes(pr->trace.data(), pr->trace.size(), h);
        sink.noteCase(hmix(h, (uint64_t)termAt + 3), true);
        sink.sample(J().str("kind", "periodic").num("period", period).i("steps", steps).i("polls", a1).i("terminate_at", termAt));
    }

    // terminate() arriving WHILE the polling thread is inside the predicate, the predicate then returning false: the forced
    // version of the interleaving "terminate() between fn_() and the store of its result". Afterwards every evaluation must be
    // true, forever (the statement's "once terminate() has been requested it reports true forever"), whatever the polling
    // thread does with the stale result. Decided on logical steps; the waits are bounded (inconclusive if they expire).
    void casePeriodicTerminateInsidePredicate(Sink &sink, Rng &rng)
    {
        std::atomic<int> phase{0};  // 0: idle, 1: polling thread is inside the predicate and waits, 2: terminate() has returned
        std::atomic<bool> armed{false};
        std::atomic<long> invocations{0};
        const bool retTrueBefore = rng.coin(0.3);
        auto pred = [&]() -> bool {
            ++invocations;
            if (armed.load(std::memory_order_acquire) && phase.load(std::memory_order_acquire) == 0)
            {
                phase.store(1, std::memory_order_release);
                auto t0 = Clock::now();
                while (phase.load(std::memory_order_acquire) != 2 && secs(Clock::now() - t0) < 2.0) std::this_thread::yield();
                return false;  // computed "before" the request, delivered after it
            }
            return false;
        };
        (void)retTrueBefore;
        const double period = rng.logUni(2e-4, 5e-3);
        bool inconclusive = false;
        long falseAfter = 0, evalsAfter = 0;
        {
            PTC ptc(pred, period);
            PTC copy(ptc);
            armed.store(true, std::memory_order_release);
            auto t0 = Clock::now();
            while (phase.load(std::memory_order_acquire) != 1 && secs(Clock::now() - t0) < 2.0) std::this_thread::yield();
            if (phase.load(std::memory_order_acquire) != 1) inconclusive = true;
            else
            {
                (rng.coin() ? ptc : copy).terminate();
                phase.store(2, std::memory_order_release);
                // evaluate for a few periods: the polling thread meanwhile returns from the predicate with 'false'
                auto t1 = Clock::now();
                const double span = std::max(20 * period, 0.01);
                while (secs(Clock::now() - t1) < span)
                {
                    ++evalsAfter;
                    if (!ptc.eval()) ++falseAfter;
                    ++evalsAfter;
                    if (!copy()) ++falseAfter;
                }
            }
        }
        sink.count("c18_periodic_terminate_inside_predicate_cases");
        sink.count("c18_periodic_terminate_inside_predicate_evals", evalsAfter);
        if (inconclusive) sink.inconclusive("periodic:poller-never-entered-predicate");
        else if (falseAfter)
            sink.viol("C18:terminate-not-sticky:periodic", J().str("what", "evaluation false after terminate() returned; terminate() arrived while the polling thread was inside the predicate, which then returned false").i("false_evaluations", falseAfter).i("evaluations", evalsAfter).num("period", period));
        sink.noteCase(hmix(0x7e51, (uint64_t)(period * 1e9)), !inconclusive);
    }

    void runCase(Sink &sink, const Args &a, long c, Heartbeat &hb)
    {
        Rng rng(caseSeed(a, c));
        Kind k = kindOf(c);
        sink.count(std::string("c18_cases_") + kindName[k]);
        switch (k)
        {
            case K_PRED:
                casePredicate(sink, rng);
                break;
            case K_NEST:
                caseNesting(sink, rng, false);
                break;
            case K_NEST_MT:
                caseNesting(sink, rng, true);
                break;
            case K_ITER:
                caseIteration(sink, rng);
                break;
            case K_TIMED:
                caseTimed(sink, rng, false, hb);
                break;
            case K_TIMED_POLL:
                caseTimed(sink, rng, true, hb);
                break;
            case K_EXACT:
                caseExact(sink, rng);
                break;
            case K_COSTCONV:
                caseCostConvergence(sink, rng);
                break;
            case K_PERIODIC:
                if (rng.ui(4) == 0) casePeriodicTerminateInsidePredicate(sink, rng);
                else casePeriodic(sink, rng, hb);
                break;
            default:
                break;
        }
    }
}  // namespace

int main(int argc, char **argv)
{
    Args a = parseArgs(argc, argv);
    ompl::msg::setLogLevel(ompl::msg::LOG_NONE);
    if (a.prop != "C18")
    {
        fprintf(stderr, "h_ptc does not serve %s\n", a.prop.c_str());
        return 2;
    }
    Sink sink(a);
    Heartbeat hb;
    long total = (long)((a.thorough() ? 160000 : 36000) * a.scale);
    int onlyKind = atoi(a.get("kind", "-1").c_str());
    for (long c = 0; c < total; ++c)
    {
        if (!mine(a, c) || !sink.wanted(c)) continue;
        if (VERIF_TSAN && !threadKind(kindOf(c))) continue;  // the TSan variant runs the thread scenarios only
        if (onlyKind >= 0 && kindOf(c) != onlyKind) continue;
        sink.begin(c);
        runCase(sink, a, c, hb);
    }
    sink.done();
    return 0;
}
