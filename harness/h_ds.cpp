// Engine h_ds: model-based monitors for the container data structures.
//   C10 nearest-neighbour structures vs brute force (+ GNAT pruning-table walk)
//   C11 BinaryHeap vs sorted multiset (+ heap-order walk, handle map)
//   C12 PDF vs prefix-sum model (exact / float / hostile regimes)
//   C13 Grid / GridN / GridB vs coordinate-map model (+ union-find components)
#include "common.h"
#include <ompl/datastructures/NearestNeighborsGNAT.h>
#include <ompl/datastructures/NearestNeighborsGNATNoThreadSafety.h>
#include <ompl/datastructures/NearestNeighborsLinear.h>
#include <ompl/datastructures/NearestNeighborsSqrtApprox.h>
#include <ompl/datastructures/BinaryHeap.h>
#include <ompl/datastructures/PDF.h>
#include <ompl/datastructures/Grid.h>
#include <ompl/datastructures/GridN.h>
#include <ompl/datastructures/GridB.h>
#include <ompl/util/Console.h>
#include <algorithm>
#include <numeric>

using namespace vf;

// =====================================================================================================
// C10
// =====================================================================================================
namespace c10
{
    using Elt = int;
    using DistFn = std::function<double(const Elt &, const Elt &)>;

    // subclass reading the protected tree for the structural walk
    template <class NN>
    struct Walk : NN
    {
        using NN::NN;
        using Node = typename NN::Node;
        void collect(const Node *n, std::vector<Elt> &out) const
        {
            out.push_back(n->pivot_);
            for (auto &e : n->data_) out.push_back(e);
            for (auto *c : n->children_) collect(c, out);
        }
        // pruning tables must stay conservative (root radius is never maintained by the library)
        long walkNode(const Node *n, const DistFn &d) const
        {
            long bad = 0;
            for (size_t i = 0; i < n->children_.size(); ++i)
            {
                std::vector<Elt> all;
                collect(n->children_[i], all);
                const Node *ci = n->children_[i];
                for (Elt e : all)
                {
                    if (e != ci->pivot_)
                    {
                        double v = d(e, ci->pivot_);
                        if (v < ci->minRadius_ || v > ci->maxRadius_) ++bad;
                    }
                    for (size_t j = 0; j < n->children_.size(); ++j)
                    {
                        double v = d(e, n->children_[j]->pivot_);
                        if (v < n->children_[j]->minRange_[i] || v > n->children_[j]->maxRange_[i]) ++bad;
                    }
                }
                bad += walkNode(ci, d);
            }
            return bad;
        }
        long walk(const DistFn &d) const { return this->tree_ ? walkNode(this->tree_, d) : 0; }
        bool isPivotRec(const Node *n, Elt e) const
        {
            if (n->pivot_ == e) return true;
            for (auto *c : n->children_)
                if (isPivotRec(c, e)) return true;
            return false;
        }
        bool isPivot(Elt e) const { return this->tree_ && isPivotRec(this->tree_, e); }
        size_t cacheSize() const { return this->removed_.size(); }
        // removed_ must only hold addresses of elements physically present in the tree
        long danglingCache() const
        {
            if (!this->tree_) return (long)this->removed_.size();
            std::set<const Elt *> present;
            addrs(this->tree_, present);
            long bad = 0;
            for (auto *p : this->removed_)
                if (!present.count(p)) ++bad;
            return bad;
        }
        void addrs(const Node *n, std::set<const Elt *> &s) const
        {
            s.insert(&n->pivot_);
            for (auto &e : n->data_) s.insert(&e);
            for (auto *c : n->children_) addrs(c, s);
        }
    };

    struct Params
    {
        int structure;  // 0 GNAT 1 GNAT-NTS 2 Linear 3 SqrtApprox
        unsigned degree, minDeg, maxDeg, leaf, cache;
        bool rebal;
        int dist;    // 0 uniform 1 lattice 2 duplicates 3 clusters 4 collinear
        int metric;  // 0 Euclid (rounded) 1 L1 2 Linf  (1,2 exact on integer points)
        int nops;
    };

    struct Ctx
    {
        Sink &sink;
        std::vector<std::array<double, 3>> pts;
        int metric;
        bool exact;  // distances exact in floating point
        double dist(int a, int b) const
        {
            const auto &p = pts[a], &q = pts[b];
            double dx = std::fabs(p[0] - q[0]), dy = std::fabs(p[1] - q[1]), dz = std::fabs(p[2] - q[2]);
            if (metric == 1) return dx + dy + dz;
            if (metric == 2) return std::max(dx, std::max(dy, dz));
            return std::sqrt(dx * dx + dy * dy + dz * dz);
        }
    };

    static const char *SNAME[] = {"NearestNeighborsGNAT", "NearestNeighborsGNATNoThreadSafety", "NearestNeighborsLinear",
                                  "NearestNeighborsSqrtApprox"};

    template <class NN>
    void history(Sink &sink, Rng &rng, const Params &P, NN &nn, bool walkable,
                 const std::function<long()> &walkFn, const std::function<bool(int)> &isPivotFn,
                 const std::function<size_t()> &cacheFn, const std::function<long()> &dangFn)
    {
        // point table: ids 0..N-1 are insertable, N..N+Q-1 are query points
        const int N = 3000, Q = 64;
        Ctx ctx{sink, {}, P.metric, P.metric != 0};
        ctx.pts.resize(N + Q);
        bool integerPts = P.metric != 0 || P.dist == 1;
        // tight clusters far apart: the separation is drawn per history from 1e3 .. 1e9 (the cluster size stays ~1), so that the
        // pivot distances are 3 .. 9 orders of magnitude larger than the distances the queries have to resolve
        const double clusterSep = std::pow(10.0, 3 + (int)rng.ui(7));
        const double clusterSize = rng.coin() ? 1.0 : 10.0;
        if (P.dist == 3 && clusterSep >= 1e6) sink.count("c10_hist_clusters_1e6_or_more_apart");
        for (auto &p : ctx.pts)
        {
            switch (P.dist)
            {
                case 0:
                    p = {rng.uni(0, 100), rng.uni(0, 100), rng.uni(0, 100)};
                    break;
                case 1:
                    p = {(double)rng.ui(6), (double)rng.ui(6), (double)rng.ui(2)};
                    break;
                case 2:
                    p = {(double)rng.ui(3), (double)rng.ui(3), 0.0};
                    break;
                case 3:
                {
                    int c = rng.ui(4);
                    p = {c * clusterSep + rng.uni(0, clusterSize), c * 0.777 * clusterSep + rng.uni(0, clusterSize), rng.uni(0, clusterSize)};
                    break;
                }
                default:
                    p = {(double)rng.ui(40), 0.0, 0.0};
            }
            if (integerPts)
                for (auto &v : p) v = std::floor(v);
        }
        if (P.metric != 0) ctx.exact = true;
        DistFn df = [&ctx](const Elt &a, const Elt &b) { return ctx.dist(a, b); };
        nn.setDistanceFunction(df);
        const std::string S = SNAME[P.structure];
        const double band = ctx.exact ? 0.0 : 1e-12;
        auto detail = [&](const std::string &what) {
            J j;
            j.str("structure", S).str("what", what).i("degree", P.degree).i("minDeg", P.minDeg).i("maxDeg", P.maxDeg);
            j.i("leaf", P.leaf).i("cache", P.cache).b("rebal", P.rebal).i("dist", P.dist).i("metric", P.metric);
            return j;
        };
        std::vector<int> model;             // current members
        std::vector<char> member(N, 0);
        int next = 0;
        long pivotRemovals = 0, cacheFlush = 0;
        std::vector<int> stale;  // the previous query's answer (result vectors are reused by callers)
        bool forceNearest = false;
        const long violBefore = sink.violTotal();
        for (int op = 0; op < P.nops; ++op)
        {
            // a history is abandoned after its first violation: later symptoms would be consequences, not causes
            if (sink.violTotal() != violBefore) break;
            int r = rng.ui(100);
            sink.count("c10_ops");
            // the operation after a shrink (below) is a nearest() query: a stale cursor / cache shows on the first query after it
            if (forceNearest)
            {
                r = 65;
                forceNearest = false;
            }
            // now and then the structure is shrunk to a handful of elements in one go (one remove() per element, no clear()),
            // after it has been larger and has answered queries
            if (r == 63 && model.size() > 14 && rng.coin())
            {
                size_t target = 3 + rng.ui(10);
                while (model.size() > target)
                {
                    size_t i = rng.ui(model.size());
                    int v = model[i];
                    if (!nn.remove(v))
                    {
                        sink.viol("C10:remove-present-false:" + S, detail("remove(present) returned false"));
                        break;
                    }
                    model[i] = model.back();
                    model.pop_back();
                    member[v] = 0;
                    sink.count("c10_remove");
                }
                sink.count("c10_shrink_to_handful");
                forceNearest = true;
                continue;
            }
            if ((r < 32 || model.empty()) && next < N)
            {
                nn.add(next);
                model.push_back(next);
                member[next++] = 1;
                sink.count("c10_add");
            }
            else if (r < 37 && next < N)
            {
                std::vector<int> v;
                int k = rng.coin(0.2) ? 0 : 1 + rng.ui(rng.coin(0.3) ? 300 : 40);
                for (int i = 0; i < k && next < N; ++i)
                {
                    v.push_back(next);
                    model.push_back(next);
                    member[next++] = 1;
                }
                nn.add(v);
                sink.count("c10_add_vector");
            }
            else if (r < 58 && !model.empty())
            {
                size_t i = rng.ui(model.size());
                // steer towards pivots now and then
                if (walkable && rng.coin(0.25))
                    for (int t = 0; t < 8; ++t)
                    {
                        size_t j = rng.ui(model.size());
                        if (isPivotFn(model[j]))
                        {
                            i = j;
                            break;
                        }
                    }
                int v = model[i];
                bool wasPivot = walkable && isPivotFn(v);
                size_t cacheBefore = walkable ? cacheFn() : 0;
                bool ok = nn.remove(v);
                if (!ok) sink.viol("C10:remove-present-false:" + S, detail("remove(present) returned false"));
                model[i] = model.back();
                model.pop_back();
                member[v] = 0;
                sink.count("c10_remove");
                if (wasPivot) ++pivotRemovals;
                if (walkable && cacheBefore > 0 && cacheFn() == 0) ++cacheFlush;
            }
            else if (r < 61)
            {
                // remove an absent element (never inserted, or already removed)
                int v = (next < N && rng.coin()) ? N - 1 : (int)rng.ui(std::max(1, next));
                if (v < N && !member[v])
                {
                    bool ok = nn.remove(v);
                    // an absent element that coincides (distance 0) with a present one is legitimately "found" only if equal;
                    // ids differ, so remove must return false
                    if (ok) sink.viol("C10:remove-absent-true:" + S, detail("remove(absent) returned true"));
                    sink.count("c10_remove_absent");
                }
            }
            else if (r < 62)
            {
                nn.clear();
                for (int m : model) member[m] = 0;
                model.clear();
                sink.count("c10_clear");
            }
            else
            {
                int qi = rng.coin(0.2) && !model.empty() ? model[rng.ui(model.size())] : N + (int)rng.ui(Q);
                std::vector<double> bf;
                bf.reserve(model.size());
                for (int m : model) bf.push_back(ctx.dist(qi, m));
                std::sort(bf.begin(), bf.end());
                sink.count("c10_queries");
                if (r < 72)
                {
                    if (!model.empty())
                    {
                        int e = nn.nearest(qi);
                        bool mem = e >= 0 && e < N && member[e];
                        if (!mem) sink.viol("C10:nearest-nonmember:" + S, detail("nearest returned a non-member"));
                        else if (P.structure != 3 && std::fabs(ctx.dist(qi, e) - bf[0]) > band * (1 + bf[0]))
                            sink.viol("C10:nearest-distance:" + S,
                                      detail("nearest not at minimum distance").num("got", ctx.dist(qi, e)).num("want", bf[0]));
                    }
                    else
                    {
                        bool threw = false;
                        try
                        {
                            nn.nearest(qi);
                        }
                        catch (const std::exception &)
                        {
                            threw = true;
                        }
                        sink.count(threw ? "c10_nearest_empty_threw" : "c10_nearest_empty_returned");
                    }
                }
                else if (r < 88)
                {
                    size_t k;
                    int kk = rng.ui(6);
                    if (kk == 0) k = 0;
                    else if (kk == 1) k = model.size();
                    else if (kk == 2) k = model.size() + 5;
                    else if (kk == 3) k = rng.ui(model.size() + 1);
                    else k = 1 + rng.ui(12);
                    // callers reuse their result vectors: half of the queries hand in one that still holds an earlier answer
                    std::vector<int> out;
                    if (rng.coin()) out = stale, sink.count("c10_queries_into_reused_vector");
                    nn.nearestK(qi, k, out);
                    stale = out;
                    std::set<int> uniq(out.begin(), out.end());
                    std::string bad;
                    if (out.size() != std::min(k, model.size())) bad = "count";
                    else if (uniq.size() != out.size()) bad = "duplicate";
                    for (size_t i = 0; bad.empty() && i < out.size(); ++i)
                    {
                        if (out[i] < 0 || out[i] >= N || !member[out[i]]) bad = "nonmember";
                        else if (std::fabs(ctx.dist(qi, out[i]) - bf[i]) > band * (1 + bf[i])) bad = "distance";
                    }
                    if (!bad.empty())
                        sink.viol("C10:nearestK-" + bad + ":" + S,
                                  detail("nearestK differs from brute force").i("k", k).i("got", out.size()).i("size", model.size()));
                }
                else
                {
                    double rad;
                    int rk = rng.ui(5);
                    if (rk == 0) rad = 0.0;
                    else if (rk == 1) rad = 1e-9;
                    else if (rk == 2) rad = 1e9;
                    else rad = bf.empty() ? 1.0 : bf[rng.ui(bf.size())];  // exactly at an element's distance: ties at the radius
                    std::vector<int> out;
                    if (rng.coin()) out = stale, sink.count("c10_queries_into_reused_vector");
                    nn.nearestR(qi, rad, out);
                    stale = out;
                    size_t lo = std::upper_bound(bf.begin(), bf.end(), rad * (1 - band)) - bf.begin();
                    if (!ctx.exact) lo = std::lower_bound(bf.begin(), bf.end(), rad * (1 - band)) - bf.begin();
                    size_t hi = std::upper_bound(bf.begin(), bf.end(), rad * (1 + band)) - bf.begin();
                    std::set<int> uniq(out.begin(), out.end());
                    std::string bad;
                    if (out.size() < lo || out.size() > hi) bad = "count";
                    else if (uniq.size() != out.size()) bad = "duplicate";
                    for (size_t i = 0; bad.empty() && i < out.size(); ++i)
                    {
                        if (out[i] < 0 || out[i] >= N || !member[out[i]]) bad = "nonmember";
                        else if (std::fabs(ctx.dist(qi, out[i]) - bf[i]) > band * (1 + bf[i])) bad = "distance";
                    }
                    if (!bad.empty())
                        sink.viol("C10:nearestR-" + bad + ":" + S,
                                  detail("nearestR differs from brute force").num("r", rad).i("got", out.size()).i("want_lo", lo).i("want_hi", hi));
                }
            }
            if (nn.size() != model.size())
                sink.viol("C10:size:" + S, detail("size() differs from model").i("got", nn.size()).i("want", model.size()));
            if (op % 16 == 0 || op + 1 == P.nops)
            {
                std::vector<int> lst;
                if (rng.coin()) lst = stale;
                nn.list(lst);
                std::vector<int> a(lst), b(model);
                std::sort(a.begin(), a.end());
                std::sort(b.begin(), b.end());
                if (a != b)
                {
                    size_t resurrected = 0, missing = 0;
                    for (int e : a)
                        if (e < 0 || e >= N || !member[e]) ++resurrected;
                    std::set<int> sa(a.begin(), a.end());
                    for (int e : b)
                        if (!sa.count(e)) ++missing;
                    sink.viol("C10:list:" + S, detail("list() differs from model").i("listed", a.size()).i("want", b.size())
                                                   .i("resurrected", resurrected).i("missing", missing).i("op", op));
                }
                sink.count("c10_list_checks");
                if (walkable)
                {
                    long bad = walkFn();
                    if (bad) sink.viol("C10:pruning-table:" + S, detail("pruning range/radius table not conservative").i("bad", bad));
                    long dang = dangFn();
                    if (dang) sink.viol("C10:removed-cache-dangling:" + S,
                                        detail("removal cache holds addresses of elements not in the tree").i("n", dang));
                    sink.count("c10_struct_walks");
                }
            }
        }
        sink.count("c10_pivot_removals", pivotRemovals);
        sink.count("c10_cache_flush_rebuilds", cacheFlush);
    }

    void runCase(Sink &sink, const Args &a, long c)
    {
        Rng rng(caseSeed(a, c));
        Params P;
        P.structure = rng.ui(10) < 5 ? 0 : (rng.ui(5) < 2 ? 1 : 2 + (int)rng.ui(2));
        P.degree = 2 + rng.ui(11);
        P.minDeg = 2 + rng.ui(4);
        P.maxDeg = P.degree + rng.ui(6);
        P.leaf = rng.coin(0.4) ? 1 + rng.ui(6) : 1 + rng.ui(50);
        P.cache = rng.coin(0.4) ? 1 + rng.ui(8) : 1 + rng.ui(500);
        P.rebal = rng.coin(0.3);
        P.dist = rng.ui(5);
        P.metric = rng.ui(3);
        if (P.dist == 1 || P.dist == 2 || P.dist == 4)
            if (rng.coin(0.7)) P.metric = 1 + rng.ui(2);
        P.nops = a.thorough() ? 200 + rng.ui(2800) : 50 + rng.ui(750);
        uint64_t h = hmix(hmix(hmix(P.structure, P.degree), hmix(P.leaf, P.cache)), hmix(hmix(P.dist, P.metric), caseSeed(a, c, 7)));
        sink.sample(J().str("kind", "C10 history").str("structure", SNAME[P.structure]).i("degree", P.degree).i("leaf", P.leaf)
                        .i("cache", P.cache).b("rebalancing", P.rebal).i("distribution", P.dist).i("metric", P.metric).i("ops", P.nops));
        sink.count(std::string("c10_hist_") + SNAME[P.structure]);
        if (P.leaf < P.degree) sink.count("c10_hist_leaf_lt_degree");
        std::function<long()> none = [] { return 0L; };
        std::function<bool(int)> nop = [](int) { return false; };
        std::function<size_t()> zero = [] { return (size_t)0; };
        if (P.structure == 0)
        {
            Walk<ompl::NearestNeighborsGNAT<Elt>> nn(P.degree, P.minDeg, P.maxDeg, P.leaf, P.cache, P.rebal);
            DistFn *dfp = nullptr;
            (void)dfp;
            history(sink, rng, P, nn, true, [&] { return nn.walk(nn.getDistanceFunction()); }, [&](int e) { return nn.isPivot(e); },
                    [&] { return nn.cacheSize(); }, [&] { return nn.danglingCache(); });
        }
        else if (P.structure == 1)
        {
            Walk<ompl::NearestNeighborsGNATNoThreadSafety<Elt>> nn(P.degree, P.minDeg, P.maxDeg, P.leaf, P.cache, P.rebal);
            history(sink, rng, P, nn, true, [&] { return nn.walk(nn.getDistanceFunction()); }, [&](int e) { return nn.isPivot(e); },
                    [&] { return nn.cacheSize(); }, [&] { return nn.danglingCache(); });
        }
        else if (P.structure == 2)
        {
            ompl::NearestNeighborsLinear<Elt> nn;
            history(sink, rng, P, nn, false, none, nop, zero, none);
        }
        else
        {
            ompl::NearestNeighborsSqrtApprox<Elt> nn;
            history(sink, rng, P, nn, false, none, nop, zero, none);
        }
        sink.noteCase(h, P.nops >= 50);
    }
}  // namespace c10

// =====================================================================================================
// C11
// =====================================================================================================
namespace c11
{
    struct Item
    {
        double key;
        long id;
    };
    struct Less
    {
        int mode = 0;  // 0: <, 1: >, 2: keyed functor (abs value)
        double k(const Item &a) const { return mode == 2 ? std::fabs(a.key) : a.key; }
        bool operator()(const Item &a, const Item &b) const { return mode == 1 ? a.key > b.key : k(a) < k(b); }
    };
    using Heap = ompl::BinaryHeap<Item, Less>;

    void runCase(Sink &sink, const Args &a, long c)
    {
        Rng rng(caseSeed(a, c));
        Less lt;
        lt.mode = rng.ui(3);
        Heap heap(lt);
        std::map<long, Heap::Element *> handle;  // id -> handle
        std::map<long, double> key;              // id -> key (model)
        long nextId = 0;
        int nops = a.thorough() ? 10 + rng.ui(2000) : 10 + rng.ui(400);
        int keyRange = rng.coin(0.5) ? 4 : (rng.coin() ? 50 : 100000);
        auto newKey = [&] { return (double)((long)rng.ui(keyRange) - keyRange / 2); };
        const std::string cmp = lt.mode == 0 ? "less" : lt.mode == 1 ? "greater" : "abs-keyed";
        std::string lastOp;
        auto detail = [&](const std::string &what) {
            return J().str("what", what).str("after", lastOp).str("cmp", cmp).i("size", (long)key.size());
        };
        auto drainCheck = [&](const std::string &culprit) {
            // pop everything from the real heap; the sequence must be sorted and equal to the model's multiset
            std::vector<double> want;
            for (auto &kv : key) want.push_back(lt.k(Item{kv.second, 0}) * (lt.mode == 1 ? -1 : 1));
            std::sort(want.begin(), want.end());
            std::vector<double> got;
            while (!heap.empty())
            {
                Item t = heap.top()->data;
                got.push_back(lt.k(t) * (lt.mode == 1 ? -1 : 1));
                heap.pop();
            }
            bool sorted = std::is_sorted(got.begin(), got.end());
            if (!sorted) sink.viol("C11:pop-order:" + culprit, detail("pop sequence not in order"));
            else if (got != want) sink.viol("C11:pop-contents:" + culprit, detail("popped multiset differs from model"));
            handle.clear();
            key.clear();
            sink.count("c11_drains");
        };
        std::string lastMut = "none";
        long violBefore = sink.violTotal();
        for (int op = 0; op < nops; ++op)
        {
            // a history is abandoned after its first violation: later symptoms would be consequences, not causes
            if (sink.violTotal() != violBefore) break;
            int r = rng.ui(100);
            sink.count("c11_ops");
            if (r < 30 || key.empty())
            {
                Item it{newKey(), nextId++};
                handle[it.id] = heap.insert(it);
                key[it.id] = it.key;
                lastOp = "insert";
                sink.count("c11_insert");
            }
            else if (r < 35)
            {
                std::vector<Item> v;
                int k = rng.ui(20);
                for (int i = 0; i < k; ++i) v.push_back(Item{newKey(), nextId++});
                size_t before = heap.size();
                heap.insert(v);
                // handles of bulk-inserted elements are not returned; find them through the content order is not possible,
                // so they are tracked as anonymous (no handle operations on them)
                for (auto &it : v) key[it.id] = it.key;
                (void)before;
                lastOp = "insert(vector)";
                sink.count("c11_insert_vector");
            }
            else if (r < 55)
            {
                // remove(handle) of a uniformly random live element with a known handle
                if (!handle.empty())
                {
                    auto it = handle.begin();
                    std::advance(it, rng.ui(handle.size()));
                    heap.remove(it->second);
                    key.erase(it->first);
                    handle.erase(it);
                    lastOp = "remove";
                    lastMut = "BinaryHeap::remove";
                    sink.count("c11_remove");
                }
            }
            else if (r < 70)
            {
                if (!handle.empty())
                {
                    auto it = handle.begin();
                    std::advance(it, rng.ui(handle.size()));
                    double nk = newKey();
                    it->second->data.key = nk;
                    key[it->first] = nk;
                    heap.update(it->second);
                    lastOp = "update";
                    lastMut = "BinaryHeap::update";
                    sink.count("c11_update");
                }
            }
            else if (r < 82)
            {
                if (!heap.empty())
                {
                    Item t = heap.top()->data;
                    heap.pop();
                    key.erase(t.id);
                    handle.erase(t.id);
                    lastOp = "pop";
                    lastMut = "BinaryHeap::pop";
                    sink.count("c11_pop");
                }
            }
            else if (r < 86)
            {
                // change several keys in place, then rebuild
                int k = rng.ui(6);
                for (int i = 0; i < k && !handle.empty(); ++i)
                {
                    auto it = handle.begin();
                    std::advance(it, rng.ui(handle.size()));
                    double nk = newKey();
                    it->second->data.key = nk;
                    key[it->first] = nk;
                }
                heap.rebuild();
                lastOp = "rebuild";
                lastMut = "BinaryHeap::rebuild";
                sink.count("c11_rebuild");
            }
            else if (r < 89)
            {
                std::vector<Item> v;
                int k = rng.ui(40);
                for (int i = 0; i < k; ++i) v.push_back(Item{newKey(), nextId++});
                heap.buildFrom(v);
                key.clear();
                handle.clear();
                for (auto &it : v) key[it.id] = it.key;
                lastOp = "buildFrom";
                lastMut = "BinaryHeap::buildFrom";
                sink.count("c11_buildFrom");
            }
            else if (r < 93)
            {
                std::vector<Item> v;
                int k = rng.ui(40);
                for (int i = 0; i < k; ++i) v.push_back(Item{newKey(), -1});
                std::vector<Item> w = v;
                heap.sort(w);
                bool ok = w.size() == v.size() && std::is_sorted(w.begin(), w.end(), [&](const Item &x, const Item &y) { return lt(x, y); });
                // is_sorted with a strict weak order: no element is less than its predecessor
                for (size_t i = 1; ok && i < w.size(); ++i)
                    if (lt(w[i], w[i - 1])) ok = false;
                std::vector<double> ka, kb;
                for (auto &x : v) ka.push_back(x.key);
                for (auto &x : w) kb.push_back(x.key);
                std::sort(ka.begin(), ka.end());
                std::sort(kb.begin(), kb.end());
                if (!ok || ka != kb) sink.viol("C11:sort:BinaryHeap::sort", detail("sort() result not an ordered permutation"));
                lastOp = "sort";
                sink.count("c11_sort");
            }
            else if (r < 95)
            {
                heap.clear();
                key.clear();
                handle.clear();
                lastOp = "clear";
                sink.count("c11_clear");
            }
            else if (r < 97)
            {
                // full drain on the real heap (then continue with an empty heap)
                drainCheck(lastMut);
                lastOp = "drain";
                continue;
            }
            // ---- invariants after every operation ----
            if (heap.size() != key.size())
                sink.viol("C11:size:BinaryHeap", detail("size() differs from number of live elements").i("got", heap.size()));
            if (heap.empty() != key.empty()) sink.viol("C11:empty:BinaryHeap", detail("empty() wrong"));
            if (!key.empty())
            {
                Item t = heap.top()->data;
                bool isMin = true;
                for (auto &kv : key)
                    if (lt(Item{kv.second, 0}, t)) isMin = false;
                if (!isMin) sink.viol("C11:top-not-min:" + lastMut, detail("top() is not a minimum of the contents"));
                if (!key.count(t.id) || key[t.id] != t.key) sink.viol("C11:top-not-member:" + lastMut, detail("top() is not a live element"));
            }
            else if (heap.top() != nullptr)
                sink.viol("C11:top-empty:BinaryHeap", detail("top() of empty heap is not nullptr"));
            std::vector<Item> content;
            heap.getContent(content);
            for (size_t i = 1; i < content.size(); ++i)
                if (lt(content[i], content[(i - 1) / 2]))
                {
                    sink.viol("C11:heap-order:" + lastMut, detail("heap order broken").i("index", i));
                    break;
                }
            for (auto &hk : handle)
                if (hk.second->data.id != hk.first || hk.second->data.key != key[hk.first])
                {
                    sink.viol("C11:handle:" + lastMut, detail("handle no longer identifies its element"));
                    break;
                }
        }
        if (sink.violTotal() == violBefore) drainCheck(lastMut);
        sink.noteCase(hmix(caseSeed(a, c, 3), nops), nops >= 10);
        sink.sample(J().str("kind", "C11 history").i("ops", nops).str("cmp", cmp).i("keyRange", keyRange));
    }
}  // namespace c11

// =====================================================================================================
// C12
// =====================================================================================================
namespace c12
{
    using PDF = ompl::PDF<long>;
    void runCase(Sink &sink, const Args &a, long c)
    {
        Rng rng(caseSeed(a, c));
        int regime = rng.ui(10) < 5 ? 0 : (rng.ui(5) < 3 ? 1 : 2);  // 0 exact, 1 float, 2 hostile
        const char *RN[] = {"exact", "float", "hostile"};
        std::vector<std::pair<PDF::Element *, long>> live;
        std::map<long, double> w;
        long next = 0;
        int nops = a.thorough() ? 1 + rng.ui(5000) : 1 + rng.ui(600);
        auto weight = [&]() -> double {
            if (regime == 0) return rng.coin(0.2) ? 0.0 : (double)(1 + rng.ui(1000)) / 8.0;
            if (regime == 1)
            {
                int k = rng.ui(10);
                if (k == 0) return 0.0;
                if (k == 1) return rng.uni(0, 1) * std::ldexp(1.0, (int)rng.ui(40));
                if (k == 2) return 0.1 * (1 + rng.ui(10));
                return rng.uni(0, 10);
            }
            int k = rng.ui(8);
            if (k == 0) return 1e30;
            if (k == 1) return 1e-30;
            if (k == 2) return 0.0;
            // huge ratios whose partial sums are exactly representable (a patched and a recomputed sum can then agree by accident)
            if (k == 3) return rng.coin() ? std::ldexp(1.0, 60) : 1e20;
            if (k == 4) return rng.coin() ? 1024.0 : 1.0;
            return rng.uni(0, 3);
        };
        // a third of the histories start from the two-vector constructor (bulk construction), with sizes steered through the row
        // counts of the tree (2^k, 2^k +- 1) up to a few thousand elements: 1 025 elements need a 12th row
        std::unique_ptr<PDF> pdfHolder;
        if (rng.ui(3) == 0)
        {
            static const long SZ[] = {0, 1, 2, 3, 4, 5, 7, 8, 9, 15, 16, 17, 31, 33, 64, 65, 127, 129, 255, 257, 511, 513, 1023, 1024, 1025, 1026, 1500, 2047, 2049, 3000};
            long n = SZ[rng.ui(sizeof SZ / sizeof SZ[0])];
            if (rng.ui(4) == 0) n = rng.ui(1200);
            std::vector<long> d;
            std::vector<double> ws;
            for (long i = 0; i < n; ++i)
            {
                d.push_back(next);
                ws.push_back(weight());
                w[next] = ws.back();
                ++next;
            }
            pdfHolder.reset(new PDF(d, ws));
            const auto &els = pdfHolder->getElements();
            if ((long)els.size() != n) sink.viol("C12:size:PDF", J().str("what", "two-vector constructor: getElements() size differs from the number of elements given").i("got", els.size()).i("given", n));
            for (size_t i = 0; i < els.size() && i < (size_t)n; ++i) live.push_back({els[i], d[i]});
            sink.count("c12_bulk_constructed");
            if (n > 1024) sink.count("c12_bulk_constructed_over_1024");
            // fewer operations on big structures (the model comparison after every operation is linear in the size)
            if (n > 500) nops = std::min(nops, 400);
        }
        else pdfHolder.reset(new PDF());
        PDF &pdf = *pdfHolder;
        std::string lastOp;
        auto detail = [&](const std::string &what) {
            return J().str("what", what).str("regime", RN[regime]).str("after", lastOp).i("size", (long)live.size());
        };
        long samples = 0;
        for (int op = 0; op < nops; ++op)
        {
            int r = rng.ui(100);
            sink.count("c12_ops");
            if (r < 34 || live.empty())
            {
                double ww = weight();
                live.push_back({pdf.add(next, ww), next});
                w[next] = ww;
                ++next;
                lastOp = "add";
                sink.count("c12_add");
            }
            else if (r < 48)
            {
                size_t i = rng.ui(live.size());
                double ww = weight();
                pdf.update(live[i].first, ww);
                w[live[i].second] = ww;
                lastOp = "update";
                sink.count("c12_update");
            }
            else if (r < 68)
            {
                // which element: last, sibling-of-last, interior, only element
                const auto &els = pdf.getElements();
                size_t n = els.size();
                size_t pos;
                int k = rng.ui(4);
                if (k == 0) pos = n - 1;
                else if (k == 1 && n >= 2) pos = ((n - 1) % 2 == 1) ? n - 2 : n - 1;
                else pos = rng.ui(n);
                if (pos >= n) pos = n - 1;
                PDF::Element *e = els[pos];
                if (k == 1 && n >= 2) sink.count("c12_remove_sibling_of_last");
                if (pos == n - 1) sink.count("c12_remove_last");
                size_t li = 0;
                for (; li < live.size(); ++li)
                    if (live[li].first == e) break;
                pdf.remove(e);
                w.erase(live[li].second);
                live.erase(live.begin() + li);
                lastOp = "remove";
                sink.count("c12_remove");
            }
            else if (r < 70)
            {
                pdf.clear();
                live.clear();
                w.clear();
                lastOp = "clear";
                sink.count("c12_clear");
            }
            else if (!live.empty())
            {
                const auto &els = pdf.getElements();
                std::vector<double> S;
                double acc = 0;
                for (auto *e : els)
                {
                    acc += pdf.getWeight(e);
                    S.push_back(acc);
                }
                if (!(acc > 0) || !std::isfinite(acc))
                {
                    sink.count("c12_skip_zero_total");
                    continue;
                }
                double rr;
                int k = rng.ui(10);
                if (k == 0) rr = 0.0;
                else if (k == 1) rr = 1.0;
                // ulp neighbours of the end points only outside the exact regime: r*W is not exact for them (5e-324*W underflows to 0)
                else if (k == 2 && regime != 0) rr = std::nextafter(1.0, 0.0);
                else if (k == 3 && regime != 0) rr = std::nextafter(0.0, 1.0);
                else if (k == 4 && regime == 0)
                {
                    // exactly on an interval boundary: r = S_i / W is exact only if representable; use dyadic W check below
                    rr = (double)rng.ui(4097) / 4096.0;
                }
                else rr = regime == 0 ? (double)rng.ui(4097) / 4096.0 : rng.u01();
                long got = pdf.sample(rr);
                ++samples;
                sink.count("c12_samples");
                size_t idx = 0;
                for (; idx < els.size(); ++idx)
                    if (els[idx]->data_ == got) break;
                if (idx == els.size())
                {
                    sink.viol("C12:sample-nonmember:PDF::sample", detail("sample returned data of no current element").num("r", rr));
                    continue;
                }
                double x = rr * acc, lo = idx ? S[idx - 1] : 0.0, hi = S[idx];
                double tol = regime == 0 ? 0.0 : 1e-9 * acc;
                bool inside = (lo - tol <= x && x <= hi + tol);
                if (!inside)
                {
                    if (regime == 2) sink.viol("C12:interval-hostile:PDF::sample", detail("sampled element's interval does not contain r*W (hostile weights)").num("r", rr).num("lo", lo).num("hi", hi).num("W", acc));
                    else sink.viol(std::string("C12:interval-") + RN[regime] + ":PDF::sample", detail("sampled element's interval does not contain r*W").num("r", rr).num("lo", lo).num("hi", hi).num("W", acc));
                }
                if (rr > 0 && rr < 1 && pdf.getWeight(els[idx]) == 0)
                {
                    bool nearBoundary = regime != 0 && (std::fabs(x - lo) <= tol || std::fabs(x - hi) <= tol);
                    if (!nearBoundary && regime != 2)
                        sink.viol(std::string("C12:zero-weight-drawn-") + RN[regime] + ":PDF::sample", detail("zero-weight element drawn for 0<r<1").num("r", rr));
                    else sink.count("c12_zero_weight_drawn_tolerated");
                }
                lastOp = "sample";
            }
            // model agreement after every operation
            if (pdf.size() != live.size()) sink.viol("C12:size:PDF", detail("size() differs from model").i("got", pdf.size()));
            if (pdf.empty() != live.empty()) sink.viol("C12:empty:PDF", detail("empty() wrong"));
            if (pdf.getElements().size() != live.size()) sink.viol("C12:elements:PDF", detail("getElements() size differs"));
            for (auto &lv : live)
                if (pdf.getWeight(lv.first) != w[lv.second] || lv.first->data_ != lv.second)
                {
                    sink.viol("C12:handle-weight:PDF", detail("handle's weight or data differs from model"));
                    break;
                }
        }
        sink.noteCase(hmix(caseSeed(a, c, 5), nops), samples > 0);
        sink.sample(J().str("kind", "C12 history").str("regime", RN[regime]).i("ops", nops).i("samples", samples));
        sink.count(std::string("c12_hist_") + RN[regime]);
    }
}  // namespace c12

// =====================================================================================================
// C13
// =====================================================================================================
namespace c13
{
    struct Greater
    {
        bool operator()(int a, int b) const { return a > b; }
    };
    using Key = std::vector<int>;

    struct UF
    {
        std::map<Key, Key> p;
        Key find(const Key &k)
        {
            Key r = k;
            while (p[r] != r) r = p[r];
            Key x = k;
            while (p[x] != r)
            {
                Key n = p[x];
                p[x] = r;
                x = n;
            }
            return r;
        }
        void unite(const Key &a, const Key &b) { p[find(a)] = find(b); }
    };

    template <class G>
    Eigen::VectorXi toCoord(const Key &k)
    {
        Eigen::VectorXi c(k.size());
        for (size_t i = 0; i < k.size(); ++i) c[i] = k[i];
        return c;
    }

    // variant: 0 Grid, 1 GridN, 2 GridB<less>, 3 GridB<greater>
    template <class G, int VAR>
    void history(Sink &sink, Rng &rng, const Args &a, int dim, const char *gname)
    {
        using Cell = typename G::Cell;
        G grid(dim);
        int span = rng.coin(0.6) ? 2 + rng.ui(3) : 2 + rng.ui(8);
        int base = 0;
        int bk = rng.ui(4);
        if (bk == 1) base = -span / 2;
        else if (bk == 2) base = -(1 << 29);
        else if (bk == 3) base = (1 << 29);
        bool farApart = rng.coin(0.15);
        std::vector<int> lo(dim, base), hi(dim, base + span - 1);
        bool bounded = false;
        unsigned limit = 2 * dim;
        if constexpr (VAR >= 1)
        {
            bounded = rng.coin(0.5);
            if (bounded)
            {
                Eigen::VectorXi l(dim), h(dim);
                for (int i = 0; i < dim; ++i)
                {
                    l[i] = lo[i];
                    h[i] = hi[i];
                }
                grid.setBounds(l, h);
            }
            if (rng.coin(0.4))
            {
                limit = 1 + rng.ui(2 * dim);
                grid.setInteriorCellNeighborLimit(limit);
            }
        }
        std::map<Key, int> model;
        int nops = a.thorough() ? 10 + rng.ui(1500) : 10 + rng.ui(300);
        std::string lastOp;
        auto detail = [&](const std::string &what) {
            return J().str("grid", gname).str("what", what).i("dim", dim).b("bounded", bounded).i("limit", limit).str("after", lastOp).i("cells", (long)model.size());
        };
        auto better = [&](int x, int y) { return VAR == 3 ? x > y : x < y; };
        auto randKey = [&] {
            Key k(dim);
            for (int i = 0; i < dim; ++i)
            {
                k[i] = lo[i] + (int)rng.ui(span);
                if (farApart && rng.coin(0.3)) k[i] += (int)(rng.ui(3) - 1) * 100000 * (1 + (int)rng.ui(5));
            }
            return k;
        };
        const std::string GN = gname;
        for (int op = 0; op < nops; ++op)
        {
            sink.count("c13_ops");
            Key key = randKey();
            // bias towards existing cells for remove/update
            int r = rng.ui(100);
            if (r >= 50 && !model.empty() && rng.coin(0.7))
            {
                auto it = model.begin();
                std::advance(it, rng.ui(model.size()));
                key = it->first;
            }
            Eigen::VectorXi cc = toCoord<G>(key);
            if (r < 50)
            {
                if (!model.count(key))
                {
                    Cell *cell = static_cast<Cell *>(grid.createCell(cc));
                    cell->data = (int)rng.ui(rng.coin() ? 5 : 1000);
                    grid.add(cell);
                    model[key] = cell->data;
                    lastOp = "create+add";
                    sink.count("c13_add");
                }
            }
            else if (r < 80)
            {
                if (model.count(key))
                {
                    Cell *cell = static_cast<Cell *>(grid.getCell(cc));
                    if (!cell)
                    {
                        sink.viol("C13:lookup-missing:" + GN, detail("getCell returned null for a present cell"));
                        model.erase(key);
                        continue;
                    }
                    bool ok = grid.remove(cell);
                    if (!ok) sink.viol("C13:remove-false:" + GN, detail("remove(present) returned false"));
                    grid.destroyCell(cell);
                    model.erase(key);
                    lastOp = "remove+destroy";
                    sink.count("c13_remove");
                }
            }
            else if (r < 92)
            {
                if constexpr (VAR >= 2)
                {
                    if (model.count(key))
                    {
                        Cell *cell = grid.getCell(cc);
                        cell->data = (int)rng.ui(rng.coin() ? 5 : 1000);
                        model[key] = cell->data;
                        grid.update(cell);
                        lastOp = "update";
                        sink.count("c13_update");
                    }
                }
            }
            else if (r < 95)
            {
                if constexpr (VAR >= 2)
                {
                    // change several keys, then updateAll
                    int k = rng.ui(5);
                    for (int i = 0; i < k && !model.empty(); ++i)
                    {
                        auto it = model.begin();
                        std::advance(it, rng.ui(model.size()));
                        Cell *cell = grid.getCell(toCoord<G>(it->first));
                        cell->data = (int)rng.ui(1000);
                        it->second = cell->data;
                    }
                    grid.updateAll();
                    lastOp = "updateAll";
                    sink.count("c13_updateAll");
                }
            }
            else if (r < 96)
            {
                grid.clear();
                model.clear();
                lastOp = "clear";
                sink.count("c13_clear");
            }
            else if (r < 99)
            {
                // abandoned creation: createCell() (which already updates the neighbours' counts, flags and queues) followed by
                // remove() + destroyCell() WITHOUT add(); documented: "if the cell has not been added to the grid, only update
                // the neighbor list". The grid must be exactly as before.
                if (!model.count(key))
                {
                    Cell *cell = static_cast<Cell *>(grid.createCell(cc));
                    cell->data = (int)rng.ui(1000);
                    grid.remove(cell);
                    grid.destroyCell(cell);
                    lastOp = "create+remove+destroy (never added)";
                    sink.count("c13_abandoned_creation");
                }
            }
            // ---- compare with the model ----
            if (grid.size() != model.size()) sink.viol("C13:size:" + GN, detail("size() differs").i("got", grid.size()));
            if (grid.empty() != model.empty()) sink.viol("C13:empty:" + GN, detail("empty() wrong"));
            // an absent coordinate is not found
            {
                Key k2 = randKey();
                bool has = grid.has(toCoord<G>(k2));
                if (has != (model.count(k2) > 0)) sink.viol("C13:has:" + GN, detail("has() differs from model"));
                if ((grid.getCell(toCoord<G>(k2)) != nullptr) != (model.count(k2) > 0)) sink.viol("C13:getCell:" + GN, detail("getCell() differs from model"));
            }
            bool full = (op % 8 == 0) || op + 1 == nops || model.size() <= 24;
            if (!full) continue;
            sink.count("c13_full_checks");
            int nint = 0;
            bool haveI = false, haveE = false;
            int bestI = 0, bestE = 0;
            std::map<Key, std::set<Key>> nbrel;
            for (auto &kv : model)
            {
                Cell *cell = static_cast<Cell *>(grid.getCell(toCoord<G>(kv.first)));
                if (!cell)
                {
                    sink.viol("C13:lookup-missing:" + GN, detail("present cell not found"));
                    continue;
                }
                if (cell->data != kv.second) sink.viol("C13:cell-data:" + GN, detail("cell data differs"));
                std::set<Key> want;
                for (int i = 0; i < dim; ++i)
                    for (int s : {-1, 1})
                    {
                        Key k2 = kv.first;
                        k2[i] += s;
                        if (model.count(k2)) want.insert(k2);
                    }
                typename G::CellArray nl;
                grid.neighbors(cell, nl);
                std::set<Key> got;
                for (auto *n : nl)
                {
                    Key k2(dim);
                    for (int i = 0; i < dim; ++i) k2[i] = n->coord[i];
                    got.insert(k2);
                }
                if (got != want || nl.size() != want.size())
                    sink.viol("C13:neighbors:" + GN, detail("neighbors() differs from the present cells at distance one").i("got", nl.size()).i("want", want.size()));
                nbrel[kv.first] = got;
                if constexpr (VAR >= 1)
                {
                    unsigned bd = 0;
                    if (bounded)
                        for (int i = 0; i < dim; ++i)
                            if (kv.first[i] == lo[i] || kv.first[i] == hi[i]) ++bd;
                    unsigned nb = want.size();
                    if (cell->neighbors != nb + bd)
                        sink.viol("C13:neighbor-count:" + GN, detail("cell neighbour count differs").i("got", cell->neighbors).i("want", nb + bd));
                    bool border = (nb + bd) < limit;
                    if (cell->border != border) sink.viol("C13:border-flag:" + GN, detail("border flag differs from count<limit"));
                    if (border)
                    {
                        if (!haveE || better(kv.second, bestE)) bestE = kv.second;
                        haveE = true;
                    }
                    else
                    {
                        ++nint;
                        if (!haveI || better(kv.second, bestI)) bestI = kv.second;
                        haveI = true;
                    }
                }
            }
            // symmetry of the reported relation
            for (auto &kv : nbrel)
                for (auto &n : kv.second)
                    if (!nbrel.count(n) || !nbrel[n].count(kv.first))
                    {
                        sink.viol("C13:neighbors-asymmetric:" + GN, detail("neighbour relation not symmetric"));
                        break;
                    }
            if constexpr (VAR >= 2)
            {
                if (grid.countInternal() != (unsigned)nint || grid.countExternal() != model.size() - nint)
                    sink.viol("C13:queue-counts:" + GN, detail("internal/external counts differ").i("gotI", grid.countInternal()).i("gotE", grid.countExternal()).i("wantI", nint));
                if (grid.countInternal() + grid.countExternal() != grid.size())
                    sink.viol("C13:queue-partition:" + GN, detail("countInternal+countExternal != size"));
                if (haveI && grid.countInternal() > 0)
                {
                    Cell *t = grid.topInternal();
                    if (t->border) sink.viol("C13:top-internal-flag:" + GN, detail("topInternal is a border cell"));
                    if (t->data != bestI) sink.viol("C13:top-internal:" + GN, detail("topInternal is not the best interior cell").i("got", t->data).i("want", bestI));
                    sink.count("c13_top_internal_checks");
                }
                if (haveE && grid.countExternal() > 0)
                {
                    Cell *t = grid.topExternal();
                    if (!t->border) sink.viol("C13:top-external-flag:" + GN, detail("topExternal is an interior cell"));
                    if (t->data != bestE) sink.viol("C13:top-external:" + GN, detail("topExternal is not the best border cell").i("got", t->data).i("want", bestE));
                    sink.count("c13_top_external_checks");
                }
            }
            if (op % 16 == 0 || op + 1 == nops)
            {
                auto comps = grid.components();
                UF uf;
                for (auto &kv : model) uf.p[kv.first] = kv.first;
                for (auto &kv : model)
                    for (int i = 0; i < dim; ++i)
                    {
                        Key k2 = kv.first;
                        k2[i] += 1;
                        if (model.count(k2)) uf.unite(kv.first, k2);
                    }
                std::map<Key, std::set<Key>> blocks;
                for (auto &kv : model) blocks[uf.find(kv.first)].insert(kv.first);
                std::set<std::set<Key>> want, got;
                for (auto &b : blocks) want.insert(b.second);
                size_t tot = 0;
                bool sortedBySize = true;
                for (size_t i = 0; i < comps.size(); ++i)
                {
                    std::set<Key> s;
                    for (auto *cell : comps[i])
                    {
                        Key k2(dim);
                        for (int d = 0; d < dim; ++d) k2[d] = cell->coord[d];
                        s.insert(k2);
                    }
                    tot += comps[i].size();
                    got.insert(s);
                    if (i && comps[i].size() > comps[i - 1].size()) sortedBySize = false;
                }
                if (tot != model.size() || got != want)
                    sink.viol("C13:components:" + GN, detail("components() is not the partition induced by the neighbour relation").i("got", comps.size()).i("want", want.size()));
                else if (!sortedBySize)
                    sink.viol("C13:components-order:" + GN, detail("components() not sorted by decreasing size"));
                sink.count("c13_component_checks");
                if (want.size() > 1) sink.count("c13_multi_component_checks");
            }
        }
        sink.sample(J().str("kind", "C13 history").str("grid", gname).i("dim", dim).b("bounded", bounded).i("limit", limit).i("span", span).i("base", base).i("ops", nops));
    }

    void runCase(Sink &sink, const Args &a, long c)
    {
        Rng rng(caseSeed(a, c));
        int var = rng.ui(4);
        int dim = 1 + rng.ui(6);
        sink.count("c13_hist_var" + std::to_string(var));
        if (var == 0) history<ompl::Grid<int>, 0>(sink, rng, a, dim, "Grid");
        else if (var == 1) history<ompl::GridN<int>, 1>(sink, rng, a, dim, "GridN");
        else if (var == 2) history<ompl::GridB<int>, 2>(sink, rng, a, dim, "GridB");
        else history<ompl::GridB<int, Greater>, 3>(sink, rng, a, dim, "GridB");
        sink.noteCase(hmix(caseSeed(a, c, 9), var * 10 + dim), true);
    }
}  // namespace c13

int main(int argc, char **argv)
{
    Args a = parseArgs(argc, argv);
    ompl::msg::setLogLevel(ompl::msg::LOG_NONE);
    Sink sink(a);
    long total;
    void (*fn)(Sink &, const Args &, long);
    if (a.prop == "C10") total = a.thorough() ? 40000 : 6000, fn = c10::runCase;
    else if (a.prop == "C11") total = a.thorough() ? 600000 : 100000, fn = c11::runCase;
    else if (a.prop == "C12") total = a.thorough() ? 400000 : 80000, fn = c12::runCase;
    else if (a.prop == "C13") total = a.thorough() ? 300000 : 30000, fn = c13::runCase;
    else
    {
        fprintf(stderr, "h_ds does not serve %s\n", a.prop.c_str());
        return 2;
    }
    total = (long)(total * a.scale);
    for (long c = 0; c < total; ++c)
    {
        if (!mine(a, c) || !sink.wanted(c)) continue;
        sink.begin(c);
        fn(sink, a, c);
    }
    sink.done();
    return 0;
}
