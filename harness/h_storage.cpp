// Engine h_storage: C09 "Copies and persisted data reproduce states and planner graphs exactly".
//   kind 0  state round trips (copyState / cloneState / serialize / reals / ScopedState) over a space zoo
//   kind 1  partial copies between related spaces (copyStateData, subspace-list overload, ScopedState << >> ^ [])
//   kind 2  StateStorage / StateStorageWithMetadata store->load + corruption (truncation, marker, signature)
//   kind 3  base::PlannerDataStorage store->load + corruption
//   kind 4  control::PlannerDataStorage store->load + corruption
// Level: exploration for the round trips; fault enumeration (every truncation length of streams <= 8 KB) for corruption.
#include "common.h"
#include <ompl/base/spaces/RealVectorStateSpace.h>
#include <ompl/base/spaces/SO2StateSpace.h>
#include <ompl/base/spaces/SO3StateSpace.h>
#include <ompl/base/spaces/SE2StateSpace.h>
#include <ompl/base/spaces/SE3StateSpace.h>
#include <ompl/base/spaces/TimeStateSpace.h>
#include <ompl/base/spaces/DiscreteStateSpace.h>
#include <ompl/base/spaces/DubinsStateSpace.h>
#include <ompl/base/spaces/ReedsSheppStateSpace.h>
#include <ompl/base/spaces/EmptyStateSpace.h>
#include <ompl/base/spaces/OwenStateSpace.h>
#include <ompl/base/spaces/VanaStateSpace.h>
#include <ompl/base/spaces/VanaOwenStateSpace.h>
#include <ompl/base/spaces/SpaceTimeStateSpace.h>
#include <ompl/base/spaces/WrapperStateSpace.h>
#include <ompl/base/spaces/special/TorusStateSpace.h>
#include <ompl/base/spaces/special/SphereStateSpace.h>
#include <ompl/base/spaces/special/MobiusStateSpace.h>
#include <ompl/base/spaces/special/KleinBottleStateSpace.h>
#include <ompl/base/SpaceInformation.h>
#include <ompl/base/ScopedState.h>
#include <ompl/base/StateStorage.h>
#include <ompl/base/PlannerData.h>
#include <ompl/base/PlannerDataStorage.h>
#include <ompl/control/SpaceInformation.h>
#include <ompl/control/PlannerData.h>
#include <ompl/control/PlannerDataStorage.h>
#include <ompl/control/spaces/RealVectorControlSpace.h>
#include <ompl/control/spaces/DiscreteControlSpace.h>
#include <ompl/util/Console.h>
#include <ompl/util/Exception.h>
#include <boost/serialization/export.hpp>
#include <boost/serialization/base_object.hpp>
#include <algorithm>
#include <memory>
#include <chrono>
#include <climits>
#include <cfloat>
#include <fstream>
#include <unistd.h>

using namespace vf;
namespace ob = ompl::base;
namespace oc = ompl::control;

// ---------------------------------------------------------------------------------------------------------
// log capture (the log IS the observation for StateStorage::load), allocation statistics, scratch directory
// ---------------------------------------------------------------------------------------------------------
struct Cap : ompl::msg::OutputHandler
{
    long err = 0, warn = 0;
    std::string last;
    void log(const std::string &text, ompl::msg::LogLevel level, const char *, int) override
    {
        if (level >= ompl::msg::LOG_ERROR) ++err;
        else if (level >= ompl::msg::LOG_WARN) ++warn;
        if (level >= ompl::msg::LOG_WARN) last = text;
    }
    long n() const { return err + warn; }
};
static Cap g_cap;
struct LogOn
{
    LogOn() { ompl::msg::setLogLevel(ompl::msg::LOG_WARN); }
    ~LogOn() { ompl::msg::setLogLevel(ompl::msg::LOG_NONE); }
};

// smaller quarantine than ASan's default 256 MB: the corruption children are short-lived and many run in parallel
extern "C" const char *__asan_default_options() { return "quarantine_size_mb=32"; }
extern "C" size_t __sanitizer_get_current_allocated_bytes() __attribute__((weak));
static long allocBytes()
{
    return __sanitizer_get_current_allocated_bytes ? (long)__sanitizer_get_current_allocated_bytes() : -1;
}

static std::string g_tmpdir;
static const std::string &tmpdir()
{
    if (g_tmpdir.empty())
    {
        char t[] = "/tmp/h_storage_XXXXXX";
        if (!mkdtemp(t))
        {
            perror("mkdtemp");
            exit(2);
        }
        g_tmpdir = t;
    }
    return g_tmpdir;
}
static void rmtmpdir()
{
    if (!g_tmpdir.empty()) rmdir(g_tmpdir.c_str());
}

// run a library call; an escaping exception is a violation of its own
template <class F>
static bool guard(Sink &sink, const std::string &fn, F f)
{
    try
    {
        f();
        return true;
    }
    catch (std::exception &e)
    {
        sink.viol("C09:exception-escaped:" + fn, J().str("what", e.what()));
    }
    catch (...)
    {
        sink.viol("C09:exception-escaped:" + fn, J().str("what", "(non-std exception)"));
    }
    return false;
}

static std::string hex(const std::string &s, size_t cap = 64)
{
    static const char *d = "0123456789abcdef";
    std::string o;
    for (size_t i = 0; i < s.size() && i < cap; ++i)
    {
        o += d[(unsigned char)s[i] >> 4];
        o += d[(unsigned char)s[i] & 15];
    }
    if (s.size() > cap) o += "..";
    return o;
}
static std::string sigStr(const std::vector<int> &sig)
{
    std::string o;
    for (int v : sig) o += (o.empty() ? "" : ",") + std::to_string(v);
    return o;
}
static uint64_t bitsOf(double d)
{
    uint64_t u;
    memcpy(&u, &d, 8);
    return u;
}

// ---------------------------------------------------------------------------------------------------------
// space zoo
// ---------------------------------------------------------------------------------------------------------
struct Made
{
    ob::StateSpacePtr sp;
    std::string cls;  // class used as key subject
};

static ob::RealVectorBounds rvBounds(Rng &rng, int dim)
{
    ob::RealVectorBounds b(dim);
    static const double scales[] = {1.0, 1e-3, 1e3, 1e6, 3.0};
    for (int i = 0; i < dim; ++i)
    {
        double sc = scales[rng.ui(5)];
        double lo = -sc * rng.u01();
        b.setLow(i, lo);
        b.setHigh(i, lo + sc * (0.1 + rng.u01()));
    }
    return b;
}

enum
{
    A_RV, A_SO2, A_SO3, A_TIME, A_DISC,   // true leaves (0..4)
    A_SE2, A_SE3, A_TORUS, A_SPHERE, A_MOBIUS, A_KLEIN, A_DUBINS, A_RS, A_OWEN, A_VANA, A_VANAOWEN, A_SPACETIME,
    A_COUNT,
    A_EMPTY = 100
};

static Made makeAtomic(Rng &rng, int k)
{
    switch (k)
    {
        case A_RV:
        {
            int d = rng.range(1, 6);
            auto s = std::make_shared<ob::RealVectorStateSpace>(d);
            s->setBounds(rvBounds(rng, d));
            return {s, "RealVectorStateSpace"};
        }
        case A_SO2: return {std::make_shared<ob::SO2StateSpace>(), "SO2StateSpace"};
        case A_SO3: return {std::make_shared<ob::SO3StateSpace>(), "SO3StateSpace"};
        case A_TIME:
        {
            auto s = std::make_shared<ob::TimeStateSpace>();
            if (rng.coin(0.7))
            {
                double lo = rng.uni(-5, 5);
                s->setBounds(lo, lo + rng.uni(0.5, 20));
            }
            return {s, "TimeStateSpace"};
        }
        case A_DISC:
        {
            int lo = rng.range(-1000, 1000);
            return {std::make_shared<ob::DiscreteStateSpace>(lo, lo + rng.range(1, rng.coin(0.3) ? 1000000 : 12)),
                    "DiscreteStateSpace"};
        }
        case A_SE2:
        {
            auto s = std::make_shared<ob::SE2StateSpace>();
            s->setBounds(rvBounds(rng, 2));
            return {s, "SE2StateSpace"};
        }
        case A_SE3:
        {
            auto s = std::make_shared<ob::SE3StateSpace>();
            s->setBounds(rvBounds(rng, 3));
            return {s, "SE3StateSpace"};
        }
        case A_TORUS: return {std::make_shared<ob::TorusStateSpace>(rng.uni(1, 3), rng.uni(0.2, 0.9)), "TorusStateSpace"};
        case A_SPHERE: return {std::make_shared<ob::SphereStateSpace>(rng.uni(0.5, 4)), "SphereStateSpace"};
        case A_MOBIUS: return {std::make_shared<ob::MobiusStateSpace>(rng.uni(0.5, 2), rng.uni(1, 3)), "MobiusStateSpace"};
        case A_KLEIN: return {std::make_shared<ob::KleinBottleStateSpace>(), "KleinBottleStateSpace"};
        case A_DUBINS:
        {
            auto s = std::make_shared<ob::DubinsStateSpace>(rng.uni(0.3, 2), rng.coin());
            s->setBounds(rvBounds(rng, 2));
            return {s, "DubinsStateSpace"};
        }
        case A_RS:
        {
            auto s = std::make_shared<ob::ReedsSheppStateSpace>(rng.uni(0.3, 2));
            s->setBounds(rvBounds(rng, 2));
            return {s, "ReedsSheppStateSpace"};
        }
        case A_OWEN:
        {
            auto s = std::make_shared<ob::OwenStateSpace>(rng.uni(0.5, 2), 0.4);
            s->setBounds(rvBounds(rng, 3));
            return {s, "OwenStateSpace"};
        }
        case A_VANA:
        {
            auto s = std::make_shared<ob::VanaStateSpace>(rng.uni(0.5, 2), 0.4);
            s->setBounds(rvBounds(rng, 3));
            return {s, "VanaStateSpace"};
        }
        case A_VANAOWEN:
        {
            auto s = std::make_shared<ob::VanaOwenStateSpace>(rng.uni(0.5, 2), 0.4);
            s->setBounds(rvBounds(rng, 3));
            return {s, "VanaOwenStateSpace"};
        }
        case A_SPACETIME:
        {
            int d = rng.range(1, 3);
            auto r = std::make_shared<ob::RealVectorStateSpace>(d);
            r->setBounds(rvBounds(rng, d));
            auto s = std::make_shared<ob::SpaceTimeStateSpace>(r, rng.uni(0.5, 2), rng.uni(0.2, 0.8));
            if (rng.coin()) s->setTimeBounds(0, rng.uni(1, 10));
            return {s, "SpaceTimeStateSpace"};
        }
        default: return {std::make_shared<ob::EmptyStateSpace>(), "EmptyStateSpace"};
    }
}

static double randWeight(Rng &rng)
{
    switch (rng.ui(6))
    {
        case 0: return 0.0;
        case 1: return 1.0;
        case 2: return 0.5;
        case 3: return 1e-3;
        case 4: return 1e3;
        default: return rng.uni(0.1, 3);
    }
}

struct ZooStat
{
    int empties = 0, wrappers = 0, depth = 0, nodes = 0;
};

// random nested compound; `depth` = remaining levels (1 = children are atomic)
static ob::StateSpacePtr makeCompound(Rng &rng, int depth, ZooStat &zs, int level = 1)
{
    auto c = std::make_shared<ob::CompoundStateSpace>();
    zs.depth = std::max(zs.depth, level);
    int n = rng.range(1, 4);
    for (int i = 0; i < n; ++i)
    {
        ob::StateSpacePtr ch;
        double w = randWeight(rng);
        bool positiveExtent = true;
        if (depth > 1 && rng.coin(0.35)) ch = makeCompound(rng, depth - 1, zs, level + 1);
        else if (i > 0 && rng.coin(0.15))
        {
            ch = makeAtomic(rng, A_EMPTY).sp;
            ch->setName("Empty" + std::to_string(zs.empties++) + "_" + std::to_string(zs.nodes));
            positiveExtent = false;
        }
        else if (rng.coin(0.12))
        {
            ch = std::make_shared<ob::WrapperStateSpace>(makeAtomic(rng, (int)rng.ui(5)).sp);  // wrapper around a true leaf
            ++zs.wrappers;
        }
        else
            ch = makeAtomic(rng, (int)rng.ui(A_COUNT)).sp;
        ++zs.nodes;
        if (i == 0 && positiveExtent && w < 0.1) w = 1.0;  // keep the extent of every compound positive (setup requires it)
        c->addSubspace(ch, w);
    }
    if (rng.coin(0.3)) c->lock();
    return c;
}

struct ZooOpt
{
    bool allowEmptyTop = false;
    bool allowWrapperTop = true;
};

static Made makeSpace(Rng &rng, const ZooOpt &o, ZooStat &zs)
{
    Made m;
    double r = rng.u01();
    if (r < 0.45) m = makeAtomic(rng, (int)rng.ui(A_COUNT));
    else if (r < 0.48 && o.allowEmptyTop) m = makeAtomic(rng, A_EMPTY);
    else
    {
        m.sp = makeCompound(rng, rng.range(1, 3), zs);
        m.cls = "CompoundStateSpace";
    }
    if (o.allowWrapperTop && rng.coin(0.15))
    {
        m.sp = std::make_shared<ob::WrapperStateSpace>(m.sp);
        m.cls = "WrapperStateSpace";
        ++zs.wrappers;
    }
    return m;
}

// ---------------------------------------------------------------------------------------------------------
// independent tree walk (does not use the library's location tables)
// ---------------------------------------------------------------------------------------------------------
enum LeafKind
{
    L_RV, L_SO2, L_SO3, L_TIME, L_DISC, L_OTHER
};
struct Leaf
{
    std::vector<int> path;           // component indices from the root; -1 = step through a WrapperStateSpace state
    const ob::StateSpace *sp;        // the leaf space itself
    LeafKind kind;
    unsigned nreals;
    std::vector<std::string> names;  // names of the nodes from the root down to this leaf as the library sees them
                                     // (a wrapper is opaque: the walk records the wrapper's own name, not the inner one)
};
struct Tree
{
    std::vector<Leaf> leaves;
    std::set<std::string> names;
    bool dupNames = false;
};

static void walk(const ob::StateSpace *s, std::vector<int> &path, std::vector<std::string> &anc, Tree &t, bool inWrapper)
{
    if (!inWrapper)
    {
        anc.push_back(s->getName());
        if (!t.names.insert(s->getName()).second) t.dupNames = true;
    }
    if (auto *w = dynamic_cast<const ob::WrapperStateSpace *>(s))
    {
        path.push_back(-1);
        walk(w->getSpace().get(), path, anc, t, true);
        path.pop_back();
    }
    else if (s->isCompound())
    {
        auto *c = s->as<ob::CompoundStateSpace>();
        for (unsigned i = 0; i < c->getSubspaceCount(); ++i)
        {
            path.push_back((int)i);
            walk(c->getSubspace(i).get(), path, anc, t, inWrapper);
            path.pop_back();
        }
    }
    else
    {
        Leaf l;
        l.path = path;
        l.sp = s;
        l.names = anc;
        if (auto *rv = dynamic_cast<const ob::RealVectorStateSpace *>(s)) l.kind = L_RV, l.nreals = rv->getDimension();
        else if (dynamic_cast<const ob::SO2StateSpace *>(s)) l.kind = L_SO2, l.nreals = 1;
        else if (dynamic_cast<const ob::SO3StateSpace *>(s)) l.kind = L_SO3, l.nreals = 4;
        else if (dynamic_cast<const ob::TimeStateSpace *>(s)) l.kind = L_TIME, l.nreals = 1;
        else if (dynamic_cast<const ob::DiscreteStateSpace *>(s)) l.kind = L_DISC, l.nreals = 0;
        else l.kind = L_OTHER, l.nreals = 0;
        if (dynamic_cast<const ob::EmptyStateSpace *>(s)) l.nreals = 0;
        t.leaves.push_back(l);
    }
    if (!inWrapper) anc.pop_back();
}
static Tree walkTree(const ob::StateSpace *s)
{
    Tree t;
    std::vector<int> p;
    std::vector<std::string> a;
    walk(s, p, a, t, false);
    return t;
}
static const ob::State *sub(const ob::State *s, const std::vector<int> &path)
{
    for (int p : path)
        s = p < 0 ? s->as<ob::WrapperStateSpace::StateType>()->getState() : s->as<ob::CompoundState>()->components[p];
    return s;
}
static ob::State *sub(ob::State *s, const std::vector<int> &path)
{
    return const_cast<ob::State *>(sub(const_cast<const ob::State *>(s), path));
}

static std::string image(const ob::StateSpace *sp, const ob::State *s, unsigned char fill = 0)
{
    const unsigned L = sp->getSerializationLength();
    std::unique_ptr<char[]> buf(new char[L]);  // exact-size heap buffer (non-null even for length 0): ASan sees any overrun
    memset(buf.get(), fill, L);
    sp->serialize(buf.get(), s);
    return std::string(buf.get(), L);
}
static std::string leafImage(const Leaf &l, const ob::State *root)
{
    return image(l.sp, sub(root, l.path));
}

// the doubles of a leaf read directly from the state type, in the documented order
static void leafReals(const Leaf &l, const ob::State *root, std::vector<double> &out)
{
    const ob::State *s = sub(root, l.path);
    switch (l.kind)
    {
        case L_RV:
            for (unsigned i = 0; i < l.nreals; ++i) out.push_back(s->as<ob::RealVectorStateSpace::StateType>()->values[i]);
            break;
        case L_SO2: out.push_back(s->as<ob::SO2StateSpace::StateType>()->value); break;
        case L_SO3:
        {
            auto *q = s->as<ob::SO3StateSpace::StateType>();
            out.push_back(q->x), out.push_back(q->y), out.push_back(q->z), out.push_back(q->w);
            break;
        }
        case L_TIME: out.push_back(s->as<ob::TimeStateSpace::StateType>()->position); break;
        default: break;
    }
}

// ---------------------------------------------------------------------------------------------------------
// adversarial state generator: boundary values, -0.0, denormals, extremes
// ---------------------------------------------------------------------------------------------------------
static double specialDouble(Rng &rng, double lo, double hi)
{
    switch (rng.ui(14))
    {
        case 0: return lo;
        case 1: return hi;
        case 2: return -0.0;
        case 3: return 0.0;
        case 4: return 4.9406564584124654e-324;   // smallest denormal
        case 5: return -4.9406564584124654e-324;
        case 6: return 2.2250738585072009e-308;   // largest denormal
        case 7: return -DBL_MIN;
        case 8: return std::nextafter(lo, hi);
        case 9: return std::nextafter(hi, lo);
        case 10: return rng.coin() ? DBL_MAX : -DBL_MAX;
        case 11: return DBL_EPSILON;
        default: return rng.uni(lo, hi);
    }
}
static void fillLeaf(Rng &rng, const Leaf &l, ob::State *root, int mode)
{
    ob::State *s = sub(root, l.path);
    auto val = [&](double lo, double hi) { return mode == 0 ? rng.uni(lo, hi) : (rng.coin(0.6) ? specialDouble(rng, lo, hi) : rng.uni(lo, hi)); };
    switch (l.kind)
    {
        case L_RV:
        {
            auto *rv = static_cast<const ob::RealVectorStateSpace *>(l.sp);
            for (unsigned i = 0; i < l.nreals; ++i)
                s->as<ob::RealVectorStateSpace::StateType>()->values[i] = val(rv->getBounds().low[i], rv->getBounds().high[i]);
            break;
        }
        case L_SO2:
        {
            double v = val(-M_PI, M_PI);
            if (std::fabs(v) > M_PI) v = rng.coin() ? M_PI : -M_PI;  // keep angles legal
            s->as<ob::SO2StateSpace::StateType>()->value = v;
            break;
        }
        case L_SO3:
        {
            auto *q = s->as<ob::SO3StateSpace::StateType>();
            if (mode != 0 && rng.coin(0.4))
            {
                // unit quaternion with one component +-1 and tiny/signed-zero others
                double v[4];
                static const double tiny[] = {0.0, -0.0, 4.9406564584124654e-324, -4.9406564584124654e-324, 1e-200};
                for (double &x : v) x = tiny[rng.ui(5)];
                v[rng.ui(4)] = rng.coin() ? 1.0 : -1.0;
                q->x = v[0], q->y = v[1], q->z = v[2], q->w = v[3];
            }
            else
            {
                double v[4], n = 0;
                do
                {
                    n = 0;
                    for (double &x : v) x = rng.gauss(), n += x * x;
                } while (n < 1e-6);
                n = std::sqrt(n);
                q->x = v[0] / n, q->y = v[1] / n, q->z = v[2] / n, q->w = v[3] / n;
            }
            break;
        }
        case L_TIME:
        {
            auto *ts = static_cast<const ob::TimeStateSpace *>(l.sp);
            double lo = ts->isBounded() ? ts->getMinTimeBound() : -100, hi = ts->isBounded() ? ts->getMaxTimeBound() : 100;
            s->as<ob::TimeStateSpace::StateType>()->position = val(lo, hi);
            break;
        }
        case L_DISC:
        {
            auto *ds = static_cast<const ob::DiscreteStateSpace *>(l.sp);
            int lo = ds->getLowerBound(), hi = ds->getUpperBound();
            int r = (int)rng.ui(4);
            s->as<ob::DiscreteStateSpace::StateType>()->value = r == 0 ? lo : r == 1 ? hi : lo + (int)rng.ui((uint64_t)(hi - lo) + 1);
            break;
        }
        default: break;
    }
}
static void fillState(Rng &rng, const Tree &t, ob::State *root, int mode = 1)
{
    for (auto &l : t.leaves) fillLeaf(rng, l, root, mode);
}

static bool setupSpace(Sink &sink, const ob::StateSpacePtr &sp)
{
    try
    {
        sp->setup();
        return true;
    }
    catch (std::exception &e)
    {
        sink.inconclusive("space-setup-threw");
        return false;
    }
}

// =========================================================================================================
// kind 0: state round trips
// =========================================================================================================
namespace k0
{
    struct Ctx
    {
        Sink &sink;
        const Made &m;
        const Tree &t;
        std::set<std::string> fired;  // one violation per key per case (consequences are not causes)
        void viol(const std::string &key, const J &d)
        {
            if (fired.insert(key).second) sink.viol(key, d);
        }
    };

    static J witness(const Ctx &c, const ob::State *s, const std::string &what)
    {
        std::vector<int> sig;
        c.m.sp->computeSignature(sig);
        return J().str("what", what).str("space", c.m.cls).str("signature", sigStr(sig)).str("state_image", hex(image(c.m.sp.get(), s), 96));
    }

    // t must be an exact copy of s: equalStates and bit-identical image
    static void expectSame(Ctx &c, const std::string &key, const std::string &op, const ob::State *s, const ob::State *t,
                           const std::string &imgS)
    {
        const ob::StateSpace *sp = c.m.sp.get();
        bool eq = false;
        if (!guard(c.sink, "StateSpace::equalStates", [&] { eq = sp->equalStates(s, t) && sp->equalStates(t, s); })) return;
        std::string imgT = image(sp, t);
        if (!eq) c.viol(key, witness(c, s, op + ": result not equalStates to the original").str("result_image", hex(imgT, 96)));
        else if (imgT != imgS)
            c.viol(key, witness(c, s, op + ": serialization image of the result differs from the original")
                            .str("result_image", hex(imgT, 96)));
        if (image(sp, s) != imgS) c.viol(key, witness(c, s, op + ": the SOURCE state was modified"));
    }

    static void checkState(Ctx &c, Rng &rng, const ob::State *s)
    {
        Sink &sink = c.sink;
        const ob::StateSpacePtr &sp = c.m.sp;
        const std::string cls = c.m.cls;
        const std::string img = image(sp.get(), s, 0x00);
        // serialize must write every byte of its image (an unwritten byte makes images incomparable)
        if (image(sp.get(), s, 0xff) != img)
            c.viol("C09:serialize:" + cls, witness(c, s, "serialize leaves bytes of its image unwritten"));
        sink.count("c09_states");

        // --- copyState into a state holding different content
        ob::State *t = sp->allocState();
        fillState(rng, c.t, t, 1);
        if (guard(sink, "StateSpace::copyState", [&] { sp->copyState(t, s); })) expectSame(c, "C09:copy:" + cls, "copyState", s, t, img);
        sink.count("c09_copy_checks");

        // --- cloneState
        ob::State *cl = nullptr;
        if (guard(sink, "StateSpace::cloneState", [&] { cl = sp->cloneState(s); }) && cl)
        {
            expectSame(c, "C09:clone:" + cls, "cloneState", s, cl, img);
            sp->freeState(cl);
        }
        sink.count("c09_clone_checks");

        // --- serialize -> deserialize into garbage
        fillState(rng, c.t, t, 1);
        {
            std::unique_ptr<char[]> buf(new char[img.size()]);
            memcpy(buf.get(), img.data(), img.size());
            if (guard(sink, "StateSpace::deserialize", [&] { sp->deserialize(t, buf.get()); }))
                expectSame(c, "C09:serialize:" + cls, "serialize->deserialize", s, t, img);
        }
        sink.count("c09_serialize_checks");

        // --- copyToReals -> copyFromReals
        {
            std::vector<double> r, expect;
            for (auto &l : c.t.leaves) leafReals(l, s, expect);
            bool ok = guard(sink, "StateSpace::copyToReals", [&] { sp->copyToReals(r, s); });
            if (ok)
            {
                bool same = r.size() == expect.size();
                for (size_t i = 0; same && i < r.size(); ++i) same = bitsOf(r[i]) == bitsOf(expect[i]);
                if (!same)
                    c.viol("C09:reals:" + cls, witness(c, s, "copyToReals does not list every real-valued component in order")
                                                   .arr("got", r).arr("expected", expect));
                fillState(rng, c.t, t, 1);
                std::vector<std::string> before;
                for (auto &l : c.t.leaves) before.push_back(leafImage(l, t));
                if (same && guard(sink, "StateSpace::copyFromReals", [&] { sp->copyFromReals(t, r); }))
                {
                    std::vector<double> r2;
                    sp->copyToReals(r2, t);
                    bool back = r2.size() == r.size();
                    for (size_t i = 0; back && i < r.size(); ++i) back = bitsOf(r[i]) == bitsOf(r2[i]);
                    if (!back) c.viol("C09:reals:" + cls, witness(c, s, "copyToReals(copyFromReals(r)) != r bitwise").arr("r", r).arr("r2", r2));
                    for (size_t i = 0; i < c.t.leaves.size(); ++i)
                    {
                        auto &l = c.t.leaves[i];
                        std::string now = leafImage(l, t);
                        if (l.nreals > 0 && now != leafImage(l, s))
                            c.viol("C09:reals:" + cls, witness(c, s, "real-valued component not restored bit-identically").i("leaf", (long long)i));
                        if (l.nreals == 0 && now != before[i])
                            c.viol("C09:reals:" + cls, witness(c, s, "component without real values was modified by copyFromReals").i("leaf", (long long)i));
                    }
                }
            }
            sink.count("c09_reals_checks");

            // --- ScopedState
            guard(sink, "ScopedState", [&] {
                ob::ScopedState<> a(sp, s);
                expectSame(c, "C09:scoped-state:construct-from-state", "ScopedState(space,state)", s, a.get(), img);
                ob::ScopedState<> b(a);
                expectSame(c, "C09:scoped-state:copy-constructor", "ScopedState(const ScopedState&)", s, b.get(), img);
                ob::ScopedState<> d(sp);
                fillState(rng, c.t, d.get(), 1);
                d = a;
                expectSame(c, "C09:scoped-state:assignment", "ScopedState::operator=(ScopedState)", s, d.get(), img);
                if (!(d == a) || (d != a)) c.viol("C09:scoped-state:assignment", witness(c, s, "assigned ScopedState compares unequal"));
                fillState(rng, c.t, d.get(), 1);
                d = s;
                expectSame(c, "C09:scoped-state:assignment-from-state", "ScopedState::operator=(const State*)", s, d.get(), img);
                fillState(rng, c.t, d.get(), 1);
                d = *s;
                expectSame(c, "C09:scoped-state:assignment-from-state", "ScopedState::operator=(const State&)", s, d.get(), img);
                std::vector<double> ar = a.reals();
                bool same = ar.size() == expect.size();
                for (size_t i = 0; same && i < ar.size(); ++i) same = bitsOf(ar[i]) == bitsOf(expect[i]);
                if (!same) c.viol("C09:scoped-state:reals", witness(c, s, "ScopedState::reals() differs").arr("got", ar).arr("expected", expect));
                // partial assignment from a vector of reals: real-valued leaves restored, others untouched
                fillState(rng, c.t, d.get(), 1);
                std::vector<std::string> before;
                for (auto &l : c.t.leaves) before.push_back(leafImage(l, d.get()));
                d = expect;
                for (size_t i = 0; i < c.t.leaves.size(); ++i)
                {
                    auto &l = c.t.leaves[i];
                    std::string now = leafImage(l, d.get());
                    if ((l.nreals > 0 && now != leafImage(l, s)) || (l.nreals == 0 && now != before[i]))
                        c.viol("C09:scoped-state:assignment-from-reals", witness(c, s, "operator=(vector<double>) result differs").i("leaf", (long long)i));
                }
                // a different space on the left-hand side is replaced by the source's space
                auto other = std::make_shared<ob::SO2StateSpace>();
                ob::ScopedState<> e(other);
                e = a;
                if (e.getSpace().get() != sp.get()) c.viol("C09:scoped-state:assignment", witness(c, s, "assignment did not adopt the source's space"));
                else expectSame(c, "C09:scoped-state:assignment", "ScopedState::operator= across spaces", s, e.get(), img);
            });
            sink.count("c09_scoped_checks");
        }
        sp->freeState(t);
    }

    static void run(Sink &sink, Rng &rng, long c)
    {
        ZooStat zs;
        ZooOpt zo;
        zo.allowEmptyTop = true;
        Made m = makeSpace(rng, zo, zs);
        if (!setupSpace(sink, m.sp)) return;
        Tree t = walkTree(m.sp.get());
        std::vector<int> sig;
        m.sp->computeSignature(sig);
        Ctx ctx{sink, m, t, {}};
        int n = 120;
        ob::State *s = m.sp->allocState();
        for (int i = 0; i < n; ++i)
        {
            fillState(rng, t, s, i % 4 == 0 ? 0 : 1);
            checkState(ctx, rng, s);
        }
        m.sp->freeState(s);
        sink.count("c09_spaces");
        sink.count("c09_space_class:" + m.cls);
        if (zs.empties) sink.count("c09_spaces_with_zero_length_member");
        if (zs.wrappers) sink.count("c09_spaces_with_wrapper");
        if (zs.depth >= 2) sink.count("c09_spaces_nested_depth_ge2");
        if (zs.depth >= 3) sink.count("c09_spaces_nested_depth_3");
        uint64_t h = hmix(hashStr("k0" + m.cls), hashStr(sigStr(sig)));
        sink.noteCase(hmix(h, (uint64_t)c), !t.leaves.empty());
        sink.sample(J().str("kind", "state-round-trips").str("space", m.cls).str("signature", sigStr(sig)).i("leaves", (long long)t.leaves.size()).i("states", n));
    }
}

// =========================================================================================================
// kind 1: partial copies between related spaces
// =========================================================================================================
namespace k1
{
    static std::string describe(const ob::StateSpace *s)
    {
        if (dynamic_cast<const ob::WrapperStateSpace *>(s)) return s->getName() + ":W";
        if (s->isCompound())
        {
            std::string o = s->getName() + ":{";
            auto *c = s->as<ob::CompoundStateSpace>();
            for (unsigned i = 0; i < c->getSubspaceCount(); ++i) o += (i ? "," : "") + describe(c->getSubspace(i).get());
            return o + "}";
        }
        return s->getName();
    }

    struct Item
    {
        ob::StateSpacePtr sp;
        bool empty;                   // zero-extent (EmptyStateSpace)
        bool topOk;                   // may stand alone as a top-level space (not Empty, not a wrapper)
        std::vector<int> children;    // for groups: indices of the member items
    };

    struct Side
    {
        ob::StateSpacePtr sp;
        Tree t;
        std::map<std::string, size_t> byLast;  // leaf's own name -> leaf index
    };

    static bool covered(const Leaf &l, const std::set<std::string> &names)
    {
        for (auto &n : l.names)
            if (names.count(n)) return true;
        return false;
    }
    static bool coveredBy(const Leaf &l, const std::set<std::string> &names, const std::set<std::string> &restrictTo)
    {
        for (auto &n : l.names)
            if (names.count(n) && restrictTo.count(n)) return true;
        return false;
    }

    // build one side from a random selection of items
    static ob::StateSpacePtr build(Rng &rng, const std::vector<Item> &items, const std::vector<int> &topItems, const std::string &pfx, int &fresh)
    {
        // choose items; groups are used whole or flattened
        std::vector<int> sel;
        for (int it : topItems)
            if (rng.coin(0.6))
            {
                if (!items[it].children.empty() && rng.coin(0.3))
                    for (int ch : items[it].children) sel.push_back(ch);
                else
                    sel.push_back(it);
            }
        bool anyNonEmpty = false;
        for (int it : sel) anyNonEmpty |= !items[it].empty;
        if (!anyNonEmpty)
            for (int it : topItems)
                if (!items[it].empty && std::find(sel.begin(), sel.end(), it) == sel.end())
                {
                    bool clash = false;  // do not add a group whose children are already selected individually
                    for (int ch : items[it].children) clash |= std::find(sel.begin(), sel.end(), ch) != sel.end();
                    if (clash) continue;
                    sel.insert(sel.begin(), it);
                    break;
                }
        std::shuffle(sel.begin(), sel.end(), rng.g);
        if (sel.size() == 1 && items[sel[0]].topOk && rng.coin(0.5)) return items[sel[0]].sp;
        // optional extra nesting level: a fresh compound unique to this side
        std::vector<ob::StateSpacePtr> comps;
        for (int it : sel) comps.push_back(items[it].sp);
        std::vector<bool> emp;
        for (int it : sel) emp.push_back(items[it].empty);
        if (comps.size() >= 2 && rng.coin(0.5))
        {
            size_t k = 1 + rng.ui(comps.size() - 1);
            bool ne = false;
            for (size_t i = 0; i < k; ++i) ne |= !emp[i];
            if (ne)
            {
                auto n = std::make_shared<ob::CompoundStateSpace>();
                n->setName("n" + pfx + std::to_string(fresh++));
                for (size_t i = 0; i < k; ++i) n->addSubspace(comps[i], 1.0);
                comps.erase(comps.begin(), comps.begin() + k);
                emp.erase(emp.begin(), emp.begin() + k);
                comps.insert(comps.begin() + rng.ui(comps.size() + 1), n);
            }
        }
        auto top = std::make_shared<ob::CompoundStateSpace>();
        top->setName(pfx);
        for (auto &c : comps) top->addSubspace(c, 1.0);
        if (rng.coin(0.3)) top->lock();
        return top;
    }

    static Side mkSide(const ob::StateSpacePtr &sp)
    {
        Side s;
        s.sp = sp;
        s.t = walkTree(sp.get());
        for (size_t i = 0; i < s.t.leaves.size(); ++i) s.byLast[s.t.leaves[i].names.back()] = i;
        return s;
    }

    // compare dest after an operation with the model; `active` = names that take part (all common names, or the list)
    static bool checkDest(Sink &sink, const std::string &key, const Side &D, const Side &S, const std::set<std::string> &active,
                          const ob::State *dAfter, const std::vector<std::string> &dBefore, const ob::State *s,
                          const std::string &sImgBefore, bool checkUntouched, const std::string &extra)
    {
        for (size_t i = 0; i < D.t.leaves.size(); ++i)
        {
            const Leaf &l = D.t.leaves[i];
            std::string now = leafImage(l, dAfter);
            bool cov = coveredBy(l, S.t.names, active);
            if (cov)
            {
                auto it = S.byLast.find(l.names.back());
                if (it == S.byLast.end()) continue;  // generator guarantees this does not happen
                if (now != leafImage(S.t.leaves[it->second], s))
                {
                    sink.viol(key, J().str("what", "a component common to both spaces was not copied").str("dest", describe(D.sp.get()))
                                       .str("source", describe(S.sp.get())).str("component", l.names.back()).str("op", extra));
                    return false;
                }
            }
            else if (checkUntouched && now != dBefore[i])
            {
                sink.viol(key, J().str("what", "a component the spaces do not share was modified").str("dest", describe(D.sp.get()))
                                   .str("source", describe(S.sp.get())).str("component", l.names.back()).str("op", extra));
                return false;
            }
        }
        if (S.sp->getSerializationLength() == sImgBefore.size() && image(S.sp.get(), s) != sImgBefore)
        {
            sink.viol(key, J().str("what", "the source state was modified").str("dest", describe(D.sp.get())).str("source", describe(S.sp.get())).str("op", extra));
            return false;
        }
        return true;
    }

    static const char *codeName(int c) { return c == ob::ALL_DATA_COPIED ? "ALL" : c == ob::SOME_DATA_COPIED ? "SOME" : "NO"; }

    static void run(Sink &sink, Rng &rng, long c)
    {
        // ---- pool of named components
        std::vector<Item> items;
        int na = rng.range(3, 7);
        bool haveEmpty = false, haveWrapper = false;
        for (int i = 0; i < na; ++i)
        {
            Item it;
            double r = rng.u01();
            if (r < 0.1 && !haveEmpty && i > 0)
            {
                it.sp = makeAtomic(rng, A_EMPTY).sp;
                it.empty = true, it.topOk = false, haveEmpty = true;
            }
            else if (r < 0.22)
            {
                it.sp = std::make_shared<ob::WrapperStateSpace>(makeAtomic(rng, (int)rng.ui(5)).sp);
                it.empty = false, it.topOk = false, haveWrapper = true;
            }
            else
            {
                it.sp = makeAtomic(rng, (int)rng.ui(A_COUNT)).sp;
                it.empty = false, it.topOk = true;
            }
            it.sp->setName("a" + std::to_string(i));
            items.push_back(it);
        }
        // groups of atoms (shared sub-compounds)
        std::vector<int> top;
        std::vector<int> order(na);
        for (int i = 0; i < na; ++i) order[i] = i;
        std::shuffle(order.begin(), order.end(), rng.g);
        int pos = 0, ng = 0;
        while (pos < na)
        {
            int left = na - pos;
            if (left >= 2 && rng.coin(0.4))
            {
                int k = rng.range(2, std::min(3, left));
                bool ne = false;
                for (int j = 0; j < k; ++j) ne |= !items[order[pos + j]].empty;
                if (ne)
                {
                    Item g;
                    auto cs = std::make_shared<ob::CompoundStateSpace>();
                    cs->setName("g" + std::to_string(ng++));
                    for (int j = 0; j < k; ++j)
                    {
                        cs->addSubspace(items[order[pos + j]].sp, rng.coin(0.2) ? 0.0 : 1.0 + j);
                        g.children.push_back(order[pos + j]);
                    }
                    if (items[order[pos]].empty || cs->getSubspaceWeight(0) == 0.0)
                    {
                        // make sure some positive-extent member has positive weight
                        for (int j = 0; j < k; ++j)
                            if (!items[order[pos + j]].empty) cs->setSubspaceWeight(j, 1.0);
                    }
                    g.sp = cs, g.empty = false, g.topOk = true;
                    items.push_back(g);
                    top.push_back((int)items.size() - 1);
                    pos += k;
                    continue;
                }
            }
            top.push_back(order[pos++]);
        }
        int fresh = 0;
        ob::StateSpacePtr dsp = build(rng, items, top, "D", fresh);
        ob::StateSpacePtr ssp = rng.coin(0.05) ? dsp : build(rng, items, top, "S", fresh);
        if (!setupSpace(sink, dsp) || !setupSpace(sink, ssp)) return;
        Side D = mkSide(dsp), S = mkSide(ssp);
        if (D.t.dupNames || S.t.dupNames)
        {
            sink.inconclusive("generator-produced-duplicate-names");
            return;
        }
        std::set<std::string> common;
        for (auto &n : D.t.names)
            if (S.t.names.count(n)) common.insert(n);
        size_t srcCovered = 0, dstCovered = 0;
        for (auto &l : S.t.leaves) srcCovered += covered(l, D.t.names);
        for (auto &l : D.t.leaves) dstCovered += covered(l, S.t.names);
        int expectCode = srcCovered == S.t.leaves.size() ? ob::ALL_DATA_COPIED : srcCovered == 0 ? ob::NO_DATA_COPIED : ob::SOME_DATA_COPIED;
        sink.count(std::string("c09_partial_expected_") + codeName(expectCode));
        if (haveEmpty) sink.count("c09_partial_with_zero_length_member");
        if (haveWrapper) sink.count("c09_partial_with_wrapper_member");

        const int rounds = 20;
        const long violBefore = sink.violTotal();
        for (int round = 0; round < rounds; ++round)
        {
            if (sink.violTotal() != violBefore) break;  // one report per case: later rounds would repeat the same cause
            ob::ScopedState<> sd(dsp), ss(ssp);
            fillState(rng, D.t, sd.get(), 1);
            fillState(rng, S.t, ss.get(), 1);
            if (dsp.get() == ssp.get() && round % 2) ss = sd;
            std::vector<std::string> before;
            for (auto &l : D.t.leaves) before.push_back(leafImage(l, sd.get()));
            std::string sImg = image(ssp.get(), ss.get());
            const std::string ctx = "D=" + describe(dsp.get()) + " S=" + describe(ssp.get());

            // ---- copyStateData(dest, source): all common subspaces
            {
                ob::ScopedState<> d(sd);
                int code = -1;
                bool ok = guard(sink, "copyStateData", [&] {
                    code = round % 2 ? ob::copyStateData(dsp, d.get(), ssp, ss.get()) : ob::copyStateData(dsp.get(), d.get(), ssp.get(), ss.get());
                });
                sink.count("c09_partial_copies");
                if (ok)
                {
                    bool good = checkDest(sink, "C09:partial-copy:copyStateData", D, S, common, d.get(), before, ss.get(), sImg, true, ctx);
                    if (good && code != expectCode)
                        sink.viol("C09:partial-copy-code:copyStateData",
                                  J().str("returned", codeName(code)).str("expected", codeName(expectCode)).str("dest", describe(dsp.get()))
                                      .str("source", describe(ssp.get())).u("source_leaves", S.t.leaves.size()).u("source_leaves_in_dest", srcCovered));
                }
            }
            // ---- explicit subspace-name list
            {
                std::vector<std::string> all(D.t.names.begin(), D.t.names.end());
                for (auto &n : S.t.names) all.push_back(n);
                std::vector<std::string> list;
                int ln = rng.range(0, 4);
                for (int i = 0; i < ln; ++i) list.push_back(rng.coin(0.12) ? std::string("no_such_subspace") : rng.pick(all));
                size_t hit = 0;
                std::set<std::string> active;
                for (auto &n : list)
                    if (D.t.names.count(n) && S.t.names.count(n)) ++hit, active.insert(n);
                int exp = hit == list.size() ? ob::ALL_DATA_COPIED : hit > 0 ? ob::SOME_DATA_COPIED : ob::NO_DATA_COPIED;
                ob::ScopedState<> d(sd);
                int code = -1;
                bool ok = guard(sink, "copyStateData(subspaces)", [&] {
                    code = round % 2 ? ob::copyStateData(dsp.get(), d.get(), ssp.get(), ss.get(), list) : ob::copyStateData(dsp, d.get(), ssp, ss.get(), list);
                });
                sink.count("c09_partial_copies_list");
                if (ok)
                {
                    std::string ls;
                    for (auto &n : list) ls += n + " ";
                    bool good = checkDest(sink, "C09:partial-copy:copyStateData(subspaces)", D, S, active, d.get(), before, ss.get(), sImg, true, ctx + " list=" + ls);
                    if (good && code != exp)
                        sink.viol("C09:partial-copy-code:copyStateData(subspaces)",
                                  J().str("returned", codeName(code)).str("expected", codeName(exp)).str("list", ls).str("dest", describe(dsp.get())).str("source", describe(ssp.get())));
                }
            }
            // ---- ScopedState operators
            guard(sink, "ScopedState::operator<<", [&] {
                ob::ScopedState<> d(sd);
                d << ss;
                checkDest(sink, "C09:partial-copy:ScopedState::operator<<", D, S, common, d.get(), before, ss.get(), sImg, true, ctx);
            });
            guard(sink, "ScopedState::operator>>", [&] {
                ob::ScopedState<> d(sd);
                ss >> d;
                checkDest(sink, "C09:partial-copy:ScopedState::operator>>", D, S, common, d.get(), before, ss.get(), sImg, true, ctx);
            });
            guard(sink, "ScopedState::operator[]", [&] {
                // extract the part of ss that lives in D's space (components not in S stay unspecified)
                const ob::ScopedState<> r = ss[dsp];
                std::vector<std::string> none(D.t.leaves.size());
                checkDest(sink, "C09:partial-copy:ScopedState::operator[]", D, S, common, r.get(), none, ss.get(), sImg, false, ctx);
            });
            guard(sink, "ScopedState::operator^", [&] {
                const ob::ScopedState<> r = sd ^ ss;
                Side R = mkSide(r.getSpace());
                if (R.t.dupNames)
                {
                    // D + S repeats a component of one operand inside the other (as a locked whole): the sum space has two
                    // subspaces of the same name, which copy-by-name does not define; both operands' data are present
                    sink.count("c09_partial_concat_with_duplicate_names_skipped");
                    return;
                }
                for (auto &l : R.t.leaves)
                {
                    std::string now = leafImage(l, r.get());
                    const Side *from = covered(l, S.t.names) ? &S : covered(l, D.t.names) ? &D : nullptr;
                    if (!from) continue;
                    auto it = from->byLast.find(l.names.back());
                    if (it == from->byLast.end()) continue;
                    if (now != leafImage(from->t.leaves[it->second], from == &S ? ss.get() : sd.get()))
                    {
                        sink.viol("C09:partial-copy:ScopedState::operator^", J().str("what", "concatenated state does not hold the operand's component")
                                                                              .str("component", l.names.back()).str("op", ctx).str("result", describe(r.getSpace().get()))
                                                                              .str("expected_from", from == &S ? "right operand" : "left operand").str("got", hex(now))
                                                                              .str("expected", hex(leafImage(from->t.leaves[it->second], from == &S ? ss.get() : sd.get())))
                                                                              .str("left_has", D.byLast.count(l.names.back()) ? hex(leafImage(D.t.leaves[D.byLast.at(l.names.back())], sd.get())) : "-"));
                        break;
                    }
                }
            });
            sink.count("c09_partial_scoped_ops", 4);
        }
        std::vector<int> sigD, sigS;
        dsp->computeSignature(sigD);
        ssp->computeSignature(sigS);
        uint64_t h = hmix(hashStr("k1" + sigStr(sigD)), hashStr(sigStr(sigS)));  // automatic subspace names are process-history dependent: not hashed
        sink.noteCase(hmix(h, (uint64_t)c), dstCovered > 0);
        sink.sample(J().str("kind", "partial-copy").str("dest", describe(dsp.get())).str("source", describe(ssp.get())).str("expected_code", codeName(expectCode)).u("common_names", common.size()));
    }
}

// =========================================================================================================
// The corruption enumeration of a case runs in a forked child: rejected loads leak by design of the library's error
// paths (tens of MB per case under ASan), and a child keeps that out of the long-lived worker. The child buffers its
// observations and sends them through a pipe; if it dies (sanitizer report, crash) the worker dies with the same status
// so that the driver attributes the report to the case. VERIF_NOFORK=1 runs everything in-process (debugging).
// =========================================================================================================
#include <sys/wait.h>
#include <signal.h>
struct Obs
{
    std::map<std::string, long long> counts;
    std::vector<std::string> lines;
    void viol(const std::string &key, const J &d) { lines.push_back("V\t" + key + "\t" + d.done()); }
    void count(const std::string &name, long long n = 1) { counts[name] += n; }
    void inconclusive(const std::string &why) { lines.push_back("I\t" + why); }
    std::string serialize() const
    {
        std::string o;
        for (auto &l : lines) o += l + "\n";
        for (auto &kv : counts) o += "C\t" + kv.first + "\t" + std::to_string(kv.second) + "\n";
        return o;
    }
    static void apply(Sink &sink, const std::string &text)
    {
        size_t p = 0;
        while (p < text.size())
        {
            size_t e = text.find('\n', p);
            if (e == std::string::npos) e = text.size();
            std::string l = text.substr(p, e - p);
            p = e + 1;
            if (l.size() < 3) continue;
            size_t t1 = l.find('\t', 2);
            if (l[0] == 'I') sink.inconclusive(l.substr(2));
            else if (l[0] == 'C' && t1 != std::string::npos) sink.count(l.substr(2, t1 - 2), atoll(l.c_str() + t1 + 1));
            else if (l[0] == 'V' && t1 != std::string::npos)
            {
                std::string body = l.substr(t1 + 1);  // a JSON object produced by J::done()
                J j;
                if (body.size() >= 2)
                {
                    j.s = body.substr(0, body.size() - 1);
                    j.first = body == "{}";
                }
                sink.viol(l.substr(2, t1 - 2), j);
            }
        }
    }
};

template <class F>
static void forked(Sink &sink, F body)
{
    static const bool nofork = getenv("VERIF_NOFORK") != nullptr;
    if (nofork)
    {
        Obs o;
        body(o);
        Obs::apply(sink, o.serialize());
        return;
    }
    fflush(nullptr);
    int fd[2];
    if (pipe(fd) != 0)
    {
        perror("pipe");
        exit(2);
    }
    pid_t pid = fork();
    if (pid < 0)
    {
        perror("fork");
        exit(2);
    }
    if (pid == 0)
    {
        close(fd[0]);
        Obs o;
        body(o);
        std::string out = o.serialize();
        size_t off = 0;
        while (off < out.size())
        {
            ssize_t n = write(fd[1], out.data() + off, out.size() - off);
            if (n <= 0) _exit(3);
            off += (size_t)n;
        }
        close(fd[1]);
        _exit(0);
    }
    close(fd[1]);
    std::string text;
    char buf[65536];
    ssize_t n;
    while ((n = read(fd[0], buf, sizeof buf)) > 0 || (n < 0 && errno == EINTR))
        if (n > 0) text.append(buf, (size_t)n);
    close(fd[0]);
    int status = 0;
    while (waitpid(pid, &status, 0) < 0 && errno == EINTR) {}
    if (!(WIFEXITED(status) && WEXITSTATUS(status) == 0))
    {
        fprintf(stderr, "h_storage: corruption-enumeration child of case %ld died (status 0x%x); its sanitizer report is in this worker's log files\n", sink.cur(), status);
        fflush(nullptr);
        rmtmpdir();
        if (WIFEXITED(status)) _exit(WEXITSTATUS(status) == 3 ? 2 : WEXITSTATUS(status));
        signal(WTERMSIG(status), SIG_DFL);
        raise(WTERMSIG(status));
        _exit(70);
    }
    Obs::apply(sink, text);
}

// =========================================================================================================
// corruption helpers shared by kinds 2-4
// =========================================================================================================
static const size_t EXHAUSTIVE_LIMIT = 8192;

// truncation lengths to try: every length 0..n-1 for streams <= 8 KB, strided (plus header, tail and random lengths) above
static std::vector<size_t> truncationLengths(Rng &rng, size_t n, size_t budget, bool &exhaustive)
{
    std::vector<size_t> v;
    exhaustive = n <= EXHAUSTIVE_LIMIT;
    if (exhaustive)
    {
        for (size_t i = 0; i < n; ++i) v.push_back(i);
        return v;
    }
    std::set<size_t> s;
    for (size_t i = 0; i < 384; ++i) s.insert(i);
    for (size_t i = n - 48; i < n; ++i) s.insert(i);
    size_t stride = std::max<size_t>(1, (n - 432) / std::max<size_t>(1, budget * 3 / 4));
    for (size_t i = 384 + rng.ui(stride); i < n; i += stride) s.insert(i);
    for (size_t i = 0; i < budget / 4; ++i) s.insert(rng.ui(n));
    v.assign(s.begin(), s.end());
    return v;
}

// position of the 4 magic bytes inside the archive header (-1 if not found)
static long findMagic(const std::string &img, const char *magic)
{
    size_t p = img.substr(0, std::min<size_t>(img.size(), 128)).find(std::string(magic, 4));
    return p == std::string::npos ? -1 : (long)p;
}
// streams with a damaged marker
static std::vector<std::string> damagedMarkers(const std::string &img, long at)
{
    std::vector<std::string> out;
    for (int b = 0; b < 4; ++b)
    {
        std::string s = img;
        s[at + b] ^= (char)0xff;
        out.push_back(s);
        s = img;
        s[at + b] ^= (char)0x01;
        out.push_back(s);
    }
    std::string s = img;
    for (int b = 0; b < 4; ++b) s[at + b] ^= (char)0xff;
    out.push_back(s);
    s = img;
    std::swap(s[at], s[at + 3]);  // right bytes, wrong order
    out.push_back(s);
    if (sizeof(std::uint_fast32_t) == 8)
    {
        s = img;
        for (int b = 4; b < 8; ++b) s[at + b] ^= (char)0x01;  // the marker is stored as a 64-bit word: upper half non-zero
        out.push_back(s);
    }
    return out;
}

// a space whose signature differs from `sig`
static Made foreignSpace(Rng &rng, const std::vector<int> &sig, bool needDimension)
{
    for (int tries = 0; tries < 8; ++tries)
    {
        ZooStat zs;
        ZooOpt zo;
        Made m = makeSpace(rng, zo, zs);
        try
        {
            m.sp->setup();
        }
        catch (...)
        {
            continue;
        }
        std::vector<int> s2;
        m.sp->computeSignature(s2);
        if (s2 != sig && (!needDimension || m.sp->getDimension() > 0)) return m;
    }
    return Made();
}

// =========================================================================================================
// kind 2: StateStorage
// =========================================================================================================
namespace k2
{
    using Meta = std::vector<std::size_t>;
    struct MetaStorage : ob::StateStorageWithMetadata<Meta>
    {
        using ob::StateStorageWithMetadata<Meta>::StateStorageWithMetadata;
        size_t metaSize() const { return metadata_.size(); }
    };

    static bool sameStates(const ob::StateSpace *sp, const ob::StateStorage &a, const ob::StateStorage &b, size_t n, size_t &firstBad)
    {
        for (size_t i = 0; i < n; ++i)
            if (!sp->equalStates(a.getState(i), b.getState(i)) || image(sp, a.getState(i)) != image(sp, b.getState(i)))
            {
                firstBad = i;
                return false;
            }
        return true;
    }

    static void run(Sink &sink, Rng &rng, const Args &a, long c)
    {
        ZooStat zs;
        ZooOpt zo;
        zo.allowEmptyTop = true;
        Made m = makeSpace(rng, zo, zs);
        if (!setupSpace(sink, m.sp)) return;
        const ob::StateSpace *sp = m.sp.get();
        Tree t = walkTree(sp);
        std::vector<int> sig;
        sp->computeSignature(sig);
        const bool withMeta = rng.coin(0.4);
        const unsigned L = sp->getSerializationLength();
        // stream size ~ 60 + count * L (+ metadata); keep most streams below the exhaustive limit
        size_t maxCount = rng.coin(0.15) ? 400 : std::max<size_t>(2, std::min<size_t>(80, 5000 / (L + 1 + (withMeta ? 24 : 0))));
        size_t count = rng.coin(0.06) ? 0 : 1 + rng.ui(maxCount);
        const std::string subj = withMeta ? "StateStorageWithMetadata" : "StateStorage";

        std::unique_ptr<ob::StateStorage> st(withMeta ? new MetaStorage(m.sp) : new ob::StateStorage(m.sp));
        {
            ob::ScopedState<> s(m.sp);
            for (size_t i = 0; i < count; ++i)
            {
                fillState(rng, t, s.get(), i % 3 == 0 ? 0 : 1);
                if (withMeta)
                {
                    Meta md(rng.ui(4));
                    for (auto &x : md) x = rng.coin(0.2) ? (size_t)-1 : rng.ui(1000);
                    static_cast<MetaStorage *>(st.get())->addState(s.get(), md);
                }
                else
                    st->addState(s.get());
            }
        }
        // ---- store
        std::string img;
        const bool viaFile = rng.coin(0.1);
        std::string fname;
        bool ok = guard(sink, "StateStorage::store", [&] {
            if (viaFile)
            {
                fname = tmpdir() + "/ss_" + std::to_string(c);
                st->store(fname.c_str());
                std::ifstream f(fname, std::ios::binary);
                std::stringstream ss;
                ss << f.rdbuf();
                img = ss.str();
            }
            else
            {
                std::stringstream ss;
                st->store(ss);
                img = ss.str();
            }
        });
        if (!ok || img.empty())
        {
            if (ok) sink.inconclusive("store-produced-empty-stream");
            if (!fname.empty()) unlink(fname.c_str());
            return;
        }
        sink.count("c09_ss_streams");
        sink.count("c09_ss_stream_bytes", (long long)img.size());
        sink.maxstat("c09_ss_max_stream_bytes", (double)img.size());
        if (withMeta) sink.count("c09_ss_streams_with_metadata");
        if (zs.empties || m.cls == "EmptyStateSpace") sink.count("c09_ss_streams_zero_length_member");

        auto fresh = [&](const ob::StateSpacePtr &space) { return std::unique_ptr<ob::StateStorage>(withMeta ? new MetaStorage(space) : new ob::StateStorage(space)); };

        // ---- round trip
        {
            auto ld = fresh(m.sp);
            if (rng.coin(0.3))
            {   // pre-populated target: load() must replace the content
                ob::ScopedState<> s(m.sp);
                fillState(rng, t, s.get(), 0);
                ld->addState(s.get());
            }
            long e0 = g_cap.n();
            bool lok;
            {
                LogOn on;
                lok = guard(sink, "StateStorage::load", [&] {
                    if (viaFile) ld->load(fname.c_str());
                    else
                    {
                        std::stringstream in(img);
                        ld->load(in);
                    }
                });
            }
            if (lok)
            {
                size_t bad = 0;
                if (ld->size() != count)
                    sink.viol("C09:state-storage-roundtrip:" + subj, J().str("what", "number of states differs after store->load").u("stored", count).u("loaded", ld->size()).str("space", m.cls).str("signature", sigStr(sig)));
                else if (!sameStates(sp, *st, *ld, count, bad))
                    sink.viol("C09:state-storage-roundtrip:" + subj, J().str("what", "state differs after store->load").u("index", bad).str("space", m.cls).str("signature", sigStr(sig))
                                                                       .str("stored", hex(image(sp, st->getState(bad)), 96)).str("loaded", hex(image(sp, ld->getState(bad)), 96)));
                else if (withMeta)
                {
                    auto *a1 = static_cast<MetaStorage *>(st.get()), *a2 = static_cast<MetaStorage *>(ld.get());
                    bool same = a2->metaSize() == count;
                    for (size_t i = 0; same && i < count; ++i) same = a1->getMetadata(i) == a2->getMetadata(i);
                    if (!same) sink.viol("C09:state-storage-roundtrip:" + subj, J().str("what", "metadata differs after store->load").u("stored", count).u("loaded_metadata", a2->metaSize()));
                }
                if (g_cap.n() != e0) sink.count("c09_ss_intact_load_logged");  // observation only
            }
            sink.count("c09_ss_roundtrips");
            sink.count("c09_ss_states_roundtripped", (long long)count);
        }
        if (!fname.empty()) unlink(fname.c_str());

        forked(sink, [&](Obs &sink) {
        // ---- one corrupted load: returns false when a violation was reported (stop: same root cause)
        long leakLoads = 0, leakBytes = 0;
        auto corrupt = [&](const std::string &data, const ob::StateSpacePtr &space, const std::string &clause, bool mustBeEmpty, const J &info) -> bool {
            long b0 = allocBytes();
            bool fine = true;
            {
                auto ld = fresh(space);
                long e0 = g_cap.n();
                bool threw = false;
                std::string what;
                {
                    LogOn on;
                    try
                    {
                        std::stringstream in(data);
                        ld->load(in);
                    }
                    catch (std::exception &e)
                    {
                        threw = true, what = e.what();
                    }
                    catch (...)
                    {
                        threw = true, what = "(non-std)";
                    }
                }
                J d = info;
                d.str("storage", subj).str("space", m.cls).str("signature", sigStr(sig)).u("stream_bytes", img.size()).u("stored_states", count).u("loaded_states", ld->size());
                if (threw)
                {
                    sink.viol("C09:exception-escaped:StateStorage::load:" + clause, d.str("what", what));
                    fine = false;
                }
                else
                {
                    if (g_cap.n() == e0)
                    {
                        sink.viol("C09:" + clause + "-unreported:" + subj, d.str("what", "load() of a corrupted stream logged nothing at WARN/ERROR level"));
                        fine = false;
                    }
                    bool complete = mustBeEmpty ? ld->size() > 0 : (count > 0 && ld->size() >= count);
                    if (complete && withMeta && !mustBeEmpty)
                    {
                        // all states arrived and only the metadata block was cut: complete-looking if the metadata has full length
                        auto *a2 = static_cast<MetaStorage *>(ld.get());
                        if (a2->metaSize() >= count)
                        {
                            sink.viol("C09:" + clause + "-accepted:" + subj, d.str("what", "all states and a full-length metadata vector present after loading a truncated stream (trailing metadata silently defaulted)").u("metadata_entries", a2->metaSize()));
                            fine = false;
                        }
                        complete = false;
                    }
                    if (complete)
                    {
                        sink.viol("C09:" + clause + "-accepted:" + subj, d.str("what", mustBeEmpty ? "states were loaded from a stream that must be rejected" : "result looks complete (size >= stored count)"));
                        fine = false;
                    }
                    if (&*space == sp && fine)
                    {
                        size_t bad = 0;
                        size_t n = std::min<size_t>(ld->size(), count);
                        if (!sameStates(sp, *st, *ld, n, bad))
                        {
                            sink.viol("C09:" + clause + "-prefix-corrupt:" + subj, d.str("what", "loaded prefix differs from the stored prefix").u("index", bad));
                            fine = false;
                        }
                    }
                }
            }
            long b1 = allocBytes();
            if (b0 >= 0 && b1 > b0) ++leakLoads, leakBytes += b1 - b0;
            return fine;
        };

        // ---- truncation: fault enumeration
        {
            bool exhaustive;
            std::vector<size_t> lens = truncationLengths(rng, img.size(), a.thorough() ? 1600 : 500, exhaustive);
            for (size_t len : lens)
            {
                sink.count("c09_truncation_offsets");
                sink.count("c09_ss_truncation_offsets");
                if (!corrupt(img.substr(0, len), m.sp, "truncation", false, J().u("truncated_to", len))) break;
            }
            sink.count(exhaustive ? "c09_streams_truncated_exhaustively" : "c09_streams_truncated_strided");
        }
        // ---- wrong marker
        {
            long at = findMagic(img, "OMPL");
            if (at < 0) sink.inconclusive("marker-not-located");
            else
                for (auto &s : damagedMarkers(img, at))
                {
                    sink.count("c09_wrong_marker_loads");
                    if (!corrupt(s, m.sp, "wrong-marker", true, J().i("marker_offset", at))) break;
                }
            if (at >= 0 && img.size() >= (size_t)at + 24 && sizeof(std::uint_fast32_t) == 8)
            {
                std::string s = img;
                s[at] ^= (char)0xff;
                const uint64_t huge = 1ULL << 62;
                memcpy(&s[at + 16], &huge, 8);
                sink.count("c09_wrong_marker_loads");
                sink.count("c09_wrong_marker_oversized_length_loads");
                corrupt(s, m.sp, "wrong-marker-with-oversized-length-field", true, J().i("marker_offset", at).str("note", "marker damaged and the signature length field set to 2^62"));
            }
            // a planner-data archive is not a state archive (its header is read as: marker, state_count <- vertex count,
            // signature length <- edge count = 0, so nothing oversized is requested)
            if (m.sp->getDimension() > 0)
            {
                auto si = std::make_shared<ob::SpaceInformation>(m.sp);
                ob::PlannerData pd(si);
                ob::ScopedState<> s(m.sp);
                fillState(rng, t, s.get(), 0);
                pd.addVertex(ob::PlannerDataVertex(s.get(), 1));
                std::stringstream out;
                ob::PlannerDataStorage().store(pd, out);
                sink.count("c09_wrong_marker_loads");
                corrupt(out.str(), m.sp, "wrong-marker", true, J().str("stream", "written by PlannerDataStorage"));
            }
        }
        // ---- stream written for a space with a different signature
        {
            Made f = foreignSpace(rng, sig, false);
            if (!f.sp) sink.inconclusive("no-foreign-space");
            else
            {
                std::vector<int> fs;
                f.sp->computeSignature(fs);
                sink.count("c09_foreign_signature_loads");
                corrupt(img, f.sp, "foreign-signature", true, J().str("loader_space", f.cls).str("loader_signature", sigStr(fs)));
            }
        }
        sink.count("c09_error_path_loads_leaking", leakLoads);
        sink.count("c09_error_path_leaked_bytes", leakBytes);
        });
        uint64_t h = hmix(hashStr("k2" + m.cls + sigStr(sig)), hashBytes(img.data(), img.size()));
        sink.noteCase(h, count > 0);
        sink.sample(J().str("kind", "state-storage").str("storage", subj).str("space", m.cls).str("signature", sigStr(sig)).u("states", count).u("stream_bytes", img.size()));
    }
}

// =========================================================================================================
// kinds 3 / 4: PlannerDataStorage (geometric and control)
// =========================================================================================================
// user-defined vertex / edge classes with payload ("Derived vertex/edge classes are handled, presuming those classes
// implement the serialize method" and are exported)
class XVertex : public ob::PlannerDataVertex
{
public:
    XVertex(const ob::State *st, int tag, long extra) : ob::PlannerDataVertex(st, tag), extra_(extra) {}
    XVertex(const XVertex &) = default;
    ob::PlannerDataVertex *clone() const override { return new XVertex(*this); }
    long extra_{0};

protected:
    XVertex() = default;
    friend class boost::serialization::access;
    template <class Archive>
    void serialize(Archive &ar, const unsigned int)
    {
        ar &boost::serialization::base_object<ob::PlannerDataVertex>(*this);
        ar &extra_;
    }
};
class XEdge : public ob::PlannerDataEdge
{
public:
    explicit XEdge(long id) : id_(id) {}
    XEdge(const XEdge &) = default;
    ob::PlannerDataEdge *clone() const override { return new XEdge(*this); }
    long id_{0};

protected:
    XEdge() = default;
    friend class boost::serialization::access;
    template <class Archive>
    void serialize(Archive &ar, const unsigned int)
    {
        ar &boost::serialization::base_object<ob::PlannerDataEdge>(*this);
        ar &id_;
    }
};
class XCEdge : public oc::PlannerDataEdgeControl
{
public:
    XCEdge(const oc::Control *c, double duration, long id) : oc::PlannerDataEdgeControl(c, duration), id_(id) {}
    XCEdge(const XCEdge &rhs) : oc::PlannerDataEdgeControl(rhs), id_(rhs.id_) {}
    ob::PlannerDataEdge *clone() const override { return new XCEdge(*this); }
    long id_{0};

protected:
    XCEdge() = default;
    friend class boost::serialization::access;
    template <class Archive>
    void serialize(Archive &ar, const unsigned int)
    {
        ar &boost::serialization::base_object<oc::PlannerDataEdgeControl>(*this);
        ar &id_;
    }
};
BOOST_CLASS_EXPORT(XVertex);
BOOST_CLASS_EXPORT(XEdge);
BOOST_CLASS_EXPORT(ompl::control::PlannerDataEdgeControl);  // as the class documentation requires
BOOST_CLASS_EXPORT(XCEdge);

namespace k34
{
    // ---- control spaces
    static oc::ControlSpacePtr makeControlSpace(Rng &rng, const ob::StateSpacePtr &sp, int kind, int dimDelta = 0)
    {
        if (kind == 0)
        {
            int d = rng.range(1, 4) + dimDelta;
            auto cs = std::make_shared<oc::RealVectorControlSpace>(sp, d);
            cs->setBounds(rvBounds(rng, d));
            return cs;
        }
        if (kind == 1)
        {
            int lo = rng.range(-5, 5);
            return std::make_shared<oc::DiscreteControlSpace>(sp, lo, lo + rng.range(1, 9));
        }
        auto cc = std::make_shared<oc::CompoundControlSpace>(sp);
        cc->addSubspace(makeControlSpace(rng, sp, 0, dimDelta));
        cc->addSubspace(makeControlSpace(rng, sp, 1));
        if (rng.coin()) cc->addSubspace(makeControlSpace(rng, sp, 0));
        if (rng.coin()) cc->lock();
        return cc;
    }
    static void fillControl(Rng &rng, const oc::ControlSpace *cs, oc::Control *c)
    {
        if (auto *rv = dynamic_cast<const oc::RealVectorControlSpace *>(cs))
        {
            for (unsigned i = 0; i < rv->getDimension(); ++i)
                c->as<oc::RealVectorControlSpace::ControlType>()->values[i] =
                    rng.coin(0.5) ? specialDouble(rng, rv->getBounds().low[i], rv->getBounds().high[i]) : rng.uni(rv->getBounds().low[i], rv->getBounds().high[i]);
        }
        else if (auto *dc = dynamic_cast<const oc::DiscreteControlSpace *>(cs))
            c->as<oc::DiscreteControlSpace::ControlType>()->value = rng.range(dc->getLowerBound(), dc->getUpperBound());
        else if (auto *cc = dynamic_cast<const oc::CompoundControlSpace *>(cs))
            for (unsigned i = 0; i < cc->getSubspaceCount(); ++i) fillControl(rng, cc->getSubspace(i).get(), c->as<oc::CompoundControl>()->components[i]);
    }
    static std::string cimage(const oc::ControlSpace *cs, const oc::Control *c)
    {
        const unsigned L = cs->getSerializationLength();
        std::unique_ptr<char[]> buf(new char[L]);
        cs->serialize(buf.get(), c);
        return std::string(buf.get(), L);
    }

    // ---- observable content of a PlannerData
    struct ERec
    {
        uint64_t w = 0;
        bool derived = false;
        long id = 0;
        bool hasCtrl = false;
        std::string ctrl;
        uint64_t dur = 0;
    };
    struct Snap
    {
        unsigned nv = 0, ne = 0;
        std::vector<std::string> vimg;
        std::vector<int> tag;
        std::vector<char> vder;
        std::vector<long> vx;
        std::vector<unsigned> starts, goals;  // from the index lists (sorted here)
        std::vector<char> qStart, qGoal;       // answers of isStartVertex / isGoalVertex
        bool goalListSorted = true;      // getGoalIndex() order is ascending
        bool goalListWellFormed = true;  // strictly ascending (no duplicates) and every index < numVertices
        std::map<std::pair<unsigned, unsigned>, ERec> edges;
    };
    static Snap snap(const ob::PlannerData &pd, const ob::StateSpace *sp, const oc::ControlSpace *cs)
    {
        Snap s;
        s.nv = pd.numVertices();
        s.ne = pd.numEdges();
        for (unsigned v = 0; v < s.nv; ++v)
        {
            const ob::PlannerDataVertex &vx = pd.getVertex(v);
            s.vimg.push_back(vx.getState() ? image(sp, vx.getState()) : std::string("<null state>"));
            s.tag.push_back(vx.getTag());
            auto *x = dynamic_cast<const XVertex *>(&vx);
            s.vder.push_back(x != nullptr);
            s.vx.push_back(x ? x->extra_ : 0);
            s.qStart.push_back(pd.isStartVertex(v));
            s.qGoal.push_back(pd.isGoalVertex(v));
            std::map<unsigned, const ob::PlannerDataEdge *> em;
            pd.getEdges(v, em);
            for (auto &kv : em)
            {
                ERec e;
                ob::Cost w;
                pd.getEdgeWeight(v, kv.first, &w);
                e.w = bitsOf(w.value());
                if (auto *xe = dynamic_cast<const XEdge *>(kv.second)) e.derived = true, e.id = xe->id_;
                if (auto *xc = dynamic_cast<const XCEdge *>(kv.second)) e.derived = true, e.id = xc->id_;
                if (cs)
                    if (auto *ce = dynamic_cast<const oc::PlannerDataEdgeControl *>(kv.second))
                    {
                        e.hasCtrl = true;
                        e.ctrl = ce->getControl() ? cimage(cs, ce->getControl()) : std::string("<null control>");
                        e.dur = bitsOf(ce->getDuration());
                    }
                s.edges[{v, kv.first}] = e;
            }
        }
        for (unsigned i = 0; i < pd.numStartVertices(); ++i) s.starts.push_back(pd.getStartIndex(i));
        for (unsigned i = 0; i < pd.numGoalVertices(); ++i) s.goals.push_back(pd.getGoalIndex(i));
        s.goalListSorted = std::is_sorted(s.goals.begin(), s.goals.end());
        s.goalListWellFormed = s.goalListSorted && std::adjacent_find(s.goals.begin(), s.goals.end()) == s.goals.end() &&
                               (s.goals.empty() || s.goals.back() < s.nv);
        std::sort(s.starts.begin(), s.starts.end());
        std::sort(s.goals.begin(), s.goals.end());
        return s;
    }
    static std::string idxList(const std::vector<unsigned> &v)
    {
        std::string o;
        for (size_t i = 0; i < v.size() && i < 24; ++i) o += (i ? "," : "") + std::to_string(v[i]);
        return o + (v.size() > 24 ? ",.." : "");
    }

    // differences between the stored graph a and the loaded graph b: (what, detail) pairs, at most one per kind
    static std::vector<std::pair<std::string, J>> diff(const Snap &a, const Snap &b)
    {
        std::vector<std::pair<std::string, J>> out;
        bool vertsOk = a.nv == b.nv;
        if (!vertsOk) out.push_back({"vertices", J().str("what", "vertex count differs").u("stored", a.nv).u("loaded", b.nv)});
        unsigned n = std::min(a.nv, b.nv);
        for (unsigned v = 0; v < n; ++v)
            if (a.vimg[v] != b.vimg[v])
            {
                out.push_back({"vertices", J().str("what", "vertex state differs").u("vertex", v).str("stored", hex(a.vimg[v], 96)).str("loaded", hex(b.vimg[v], 96))});
                break;
            }
        for (unsigned v = 0; v < n; ++v)
            if (a.tag[v] != b.tag[v])
            {
                out.push_back({"tags", J().u("vertex", v).i("stored", a.tag[v]).i("loaded", b.tag[v])});
                break;
            }
        for (unsigned v = 0; v < n; ++v)
            if (a.vder[v] != b.vder[v] || a.vx[v] != b.vx[v])
            {
                out.push_back({"derived-vertex-data", J().u("vertex", v).i("stored", a.vx[v]).i("loaded", b.vx[v]).b("stored_is_derived", a.vder[v]).b("loaded_is_derived", b.vder[v])});
                break;
            }
        if (a.starts != b.starts)
            out.push_back({"start-marks", J().str("stored", idxList(a.starts)).str("loaded", idxList(b.starts))});
        if (a.goals != b.goals)
        {
            // classify every lost / gained goal mark by its cause
            std::set<unsigned> B(b.goals.begin(), b.goals.end()), A(a.goals.begin(), a.goals.end());
            bool both = false, order = false, other = false;
            unsigned wBoth = 0, wOrder = 0, wOther = 0;
            for (unsigned g : a.goals)
                if (!B.count(g))
                {
                    if (std::binary_search(a.starts.begin(), a.starts.end(), g)) both = true, wBoth = g;
                    // the stored graph's own goal list is out of order (then isGoalVertex() denies listed vertices, marks get
                    // duplicated and removeVertex leaves stale copies behind): one root cause, markGoalState never sorts the list
                    else if (!a.goalListWellFormed || (g < a.qGoal.size() && !a.qGoal[g])) order = true, wOrder = g;
                    else other = true, wOther = g;
                }
            for (unsigned g : b.goals)
                if (!A.count(g)) other = true, wOther = g;
            if (both)
                out.push_back({"start-and-goal-vertex-loses-goal-mark", J().str("what", "a vertex marked both start and goal is a start but no longer a goal after store->load")
                                                                             .u("vertex", wBoth).str("stored_goals", idxList(a.goals)).str("loaded_goals", idxList(b.goals)).str("stored_starts", idxList(a.starts))});
            if (order)
                out.push_back({"goal-marked-out-of-index-order-loses-goal-mark",
                               J().str("what", "goal marks were made in non-ascending vertex order: getGoalIndex() lists the vertex, isGoalVertex() denies it, and the mark is not stored")
                                   .u("vertex", wOrder).str("stored_goals", idxList(a.goals)).str("loaded_goals", idxList(b.goals)).b("stored_goal_list_sorted", a.goalListSorted).b("stored_goal_list_well_formed", a.goalListWellFormed)});
            if (other) out.push_back({"goal-marks", J().u("vertex", wOther).str("stored_goals", idxList(a.goals)).str("loaded_goals", idxList(b.goals))});
        }
        bool edgeSet = a.edges.size() == b.edges.size() && a.ne == b.ne;
        if (edgeSet)
            for (auto &kv : a.edges)
                if (!b.edges.count(kv.first))
                {
                    edgeSet = false;
                    break;
                }
        if (!edgeSet) out.push_back({"edges", J().str("what", "edge set differs").u("stored", a.edges.size()).u("loaded", b.edges.size()).u("stored_numEdges", a.ne).u("loaded_numEdges", b.ne)});
        bool w = false, dd = false, cc = false, du = false;
        for (auto &kv : a.edges)
        {
            auto it = b.edges.find(kv.first);
            if (it == b.edges.end()) continue;
            const ERec &x = kv.second, &y = it->second;
            J where = J().u("from", kv.first.first).u("to", kv.first.second);
            if (!w && x.w != y.w)
            {
                w = true;
                double d1, d2;
                memcpy(&d1, &x.w, 8), memcpy(&d2, &y.w, 8);
                out.push_back({"weights", where.num("stored", d1).num("loaded", d2)});
            }
            if (!dd && (x.derived != y.derived || x.id != y.id)) dd = true, out.push_back({"derived-edge-data", where.i("stored", x.id).i("loaded", y.id).b("stored_is_derived", x.derived).b("loaded_is_derived", y.derived)});
            if (!cc && (x.hasCtrl != y.hasCtrl || x.ctrl != y.ctrl)) cc = true, out.push_back({"controls", where.str("stored", hex(x.ctrl, 64)).str("loaded", hex(y.ctrl, 64))});
            if (!du && x.dur != y.dur)
            {
                du = true;
                double d1, d2;
                memcpy(&d1, &x.dur, 8), memcpy(&d2, &y.dur, 8);
                out.push_back({"durations", where.num("stored", d1).num("loaded", d2)});
            }
        }
        return out;
    }

    static double randWeightBits(Rng &rng)
    {
        switch (rng.ui(10))
        {
            case 0: return 0.0;
            case 1: return -0.0;
            case 2: return 4.9406564584124654e-324;
            case 3: return std::numeric_limits<double>::infinity();
            case 4: return DBL_MAX;
            case 5: return 1.0 / 3.0;
            default: return rng.logUni(1e-6, 1e6);
        }
    }
    static int randTag(Rng &rng)
    {
        switch (rng.ui(8))
        {
            case 0: return 0;
            case 1: return INT_MAX;
            case 2: return INT_MIN;
            case 3: return -1;
            default: return (int)rng.ui(2000000) - 1000000;
        }
    }

    struct World
    {
        Made m;
        Tree t;
        std::vector<int> sig;
        ob::SpaceInformationPtr si;        // base view (for the control variant: the control SpaceInformation upcast)
        oc::SpaceInformationPtr siC;       // null for the geometric variant
        oc::ControlSpacePtr cs;
        std::vector<ob::State *> states;
        std::vector<oc::Control *> controls;
        ~World()
        {
            for (auto *s : states) m.sp->freeState(s);
            for (auto *c : controls) cs->freeControl(c);
        }
        std::unique_ptr<ob::PlannerData> newPD() const
        {
            return std::unique_ptr<ob::PlannerData>(siC ? new oc::PlannerData(siC) : new ob::PlannerData(si));
        }
    };

    static oc::SpaceInformationPtr makeSiC(const ob::StateSpacePtr &sp, const oc::ControlSpacePtr &cs)
    {
        auto siC = std::make_shared<oc::SpaceInformation>(sp, cs);
        siC->setStatePropagator([](const ob::State *, const oc::Control *, const double, ob::State *) {});
        siC->setStateValidityChecker([](const ob::State *) { return true; });
        siC->setMinMaxControlDuration(1, 10);
        siC->setPropagationStepSize(0.1);
        siC->setup();
        return siC;
    }

    struct GenStat
    {
        unsigned bothMarked = 0, removedV = 0, removedE = 0, indexLookups = 0, stateEdits = 0;
        bool goalOrderRandom = false, decoupled = false, derivedV = false, derivedE = false;
        std::string indexBad, editBad;  // first disagreement between state-addressed and index-addressed access (empty: none)
    };

    // random graph; every vertex state / control stays owned by the World
    static void generate(Rng &rng, World &w, ob::PlannerData &pd, unsigned nV, GenStat &gs)
    {
        const bool ctl = (bool)w.siC;
        gs.goalOrderRandom = rng.coin();
        const bool allowBoth = rng.coin();
        gs.derivedV = rng.coin(0.4);
        gs.derivedE = rng.coin(0.4);
        const double pStart = rng.coin(0.2) ? 0.0 : rng.uni(0.02, 0.3), pGoal = rng.coin(0.2) ? 0.0 : rng.uni(0.02, 0.3);
        for (unsigned i = 0; i < nV; ++i)
        {
            ob::State *s = w.m.sp->allocState();
            fillState(rng, w.t, s, i % 3 == 0 ? 0 : 1);
            w.states.push_back(s);
            int tag = randTag(rng);
            bool st = rng.coin(pStart), go = rng.coin(pGoal);
            if (st && go && !allowBoth) go = false;
            auto add = [&](int how) {
                if (gs.derivedV && rng.coin())
                {
                    XVertex v(s, tag, (long)rng.u64());
                    return how == 1 ? pd.addStartVertex(v) : how == 2 ? pd.addGoalVertex(v) : pd.addVertex(v);
                }
                ob::PlannerDataVertex v(s, tag);
                return how == 1 ? pd.addStartVertex(v) : how == 2 ? pd.addGoalVertex(v) : pd.addVertex(v);
            };
            add(st ? 1 : go ? 2 : 0);
            if (st && go)
            {
                pd.markGoalState(s);  // both start and goal; index is the largest so far, goal list stays ascending
                ++gs.bothMarked;
            }
        }
        if (gs.goalOrderRandom && nV > 0)
        {
            // additional goal marks on existing vertices in arbitrary order
            unsigned k = 1 + (unsigned)rng.ui(std::min<unsigned>(nV, 6));
            for (unsigned j = 0; j < k; ++j)
            {
                unsigned v = (unsigned)rng.ui(nV);
                if (!allowBoth && pd.isStartVertex(v)) continue;
                pd.markGoalState(w.states[v]);
            }
            if (rng.coin(0.3))
            {
                unsigned v = (unsigned)rng.ui(nV);
                bool isGoal = false;  // isGoalVertex() is not used here: it needs a sorted goal list
                for (unsigned i = 0; i < pd.numGoalVertices(); ++i) isGoal |= pd.getGoalIndex(i) == v;
                if (allowBoth || !isGoal) pd.markStartState(w.states[v]);
            }
        }
        // edges
        if (nV >= 2)
        {
            unsigned attempts = (unsigned)rng.ui(3 * nV + 1);
            for (unsigned j = 0; j < attempts; ++j)
            {
                unsigned v1 = (unsigned)rng.ui(nV), v2 = (unsigned)rng.ui(nV);
                if (v1 == v2) continue;
                ob::Cost cost(randWeightBits(rng));
                if (ctl)
                {
                    oc::Control *c = w.cs->allocControl();
                    fillControl(rng, w.cs.get(), c);
                    w.controls.push_back(c);
                    double dur = rng.coin(0.3) ? specialDouble(rng, 0, 10) : rng.uni(0, 10);
                    if (gs.derivedE && rng.coin()) pd.addEdge(v1, v2, XCEdge(c, dur, (long)rng.u64()), cost);
                    else pd.addEdge(v1, v2, oc::PlannerDataEdgeControl(c, dur), cost);
                }
                else
                {
                    if (gs.derivedE && rng.coin()) pd.addEdge(v1, v2, XEdge((long)rng.u64()), cost);
                    else pd.addEdge(v1, v2, ob::PlannerDataEdge(), cost);
                }
            }
        }
        if (rng.coin(0.25))
        {
            pd.decoupleFromPlanner();
            gs.decoupled = true;
        }
        // removals before storing
        if (nV > 3 && rng.coin(0.6))
        {
            unsigned k = 1 + (unsigned)rng.ui(3);
            for (unsigned j = 0; j < k && pd.numVertices() > 1; ++j)
                if (pd.removeVertex((unsigned)rng.ui(pd.numVertices()))) ++gs.removedV;
        }
        if (pd.numEdges() > 0 && rng.coin(0.6))
        {
            unsigned k = 1 + (unsigned)rng.ui(3);
            for (unsigned j = 0; j < k; ++j)
            {
                unsigned v = (unsigned)rng.ui(pd.numVertices());
                std::vector<unsigned> nb;
                pd.getEdges(v, nb);
                if (nb.empty()) continue;
                if (pd.removeEdge(v, nb[rng.ui(nb.size())])) ++gs.removedE;
            }
        }
        if (pd.numVertices() > 0 && rng.coin(0.3)) pd.getVertex((unsigned)rng.ui(pd.numVertices())).setTag(randTag(rng));
        if (!gs.decoupled && rng.coin(0.1))
        {
            pd.decoupleFromPlanner();
            gs.decoupled = true;
        }
        // state-addressed access must agree with index-addressed access, also after vertices were removed and the others
        // renumbered: what is stored is the graph the caller built only if edits by state land on the vertex holding that state
        for (unsigned i = 0; i < pd.numVertices(); ++i)
        {
            ++gs.indexLookups;
            unsigned got = pd.vertexIndex(pd.getVertex(i));
            if (got != i && gs.indexBad.empty())
                gs.indexBad = "vertexIndex(getVertex(" + std::to_string(i) + ")) = " + std::to_string(got) + " in a graph of " + std::to_string(pd.numVertices()) +
                              " vertices after " + std::to_string(gs.removedV) + " removals";
        }
        if (pd.numVertices() > 0 && rng.coin(gs.removedV ? 0.8 : 0.2))
        {
            auto listed = [&](bool start, unsigned i) {
                unsigned n = start ? pd.numStartVertices() : pd.numGoalVertices();
                for (unsigned j = 0; j < n; ++j)
                    if ((start ? pd.getStartIndex(j) : pd.getGoalIndex(j)) == i) return true;
                return false;
            };
            unsigned k = 1 + (unsigned)rng.ui(4);
            for (unsigned j = 0; j < k; ++j)
            {
                unsigned i = (unsigned)rng.ui(pd.numVertices());
                const ob::State *st = pd.getVertex(i).getState();
                unsigned op = (unsigned)rng.ui(3);
                std::string bad;
                if (op == 0)
                {
                    int tag = randTag(rng);
                    bool r = pd.tagState(st, tag);
                    if (!r || pd.getVertex(i).getTag() != tag) bad = "tagState(state of vertex " + std::to_string(i) + ") returned " + (r ? "true" : "false") + " and the vertex does not carry the tag";
                }
                else if (op == 1)
                {
                    if (!allowBoth && listed(false, i)) continue;
                    bool r = pd.markStartState(st);
                    if (!r || !listed(true, i)) bad = "markStartState(state of vertex " + std::to_string(i) + ") returned " + (r ? "true" : "false") + " and the vertex is not in the start list";
                }
                else
                {
                    if (!allowBoth && listed(true, i)) continue;
                    bool r = pd.markGoalState(st);
                    if (!r || !listed(false, i)) bad = "markGoalState(state of vertex " + std::to_string(i) + ") returned " + (r ? "true" : "false") + " and the vertex is not in the goal list";
                }
                ++gs.stateEdits;
                if (!bad.empty() && gs.editBad.empty()) gs.editBad = bad + " (" + std::to_string(pd.numVertices()) + " vertices, " + std::to_string(gs.removedV) + " removed before)";
            }
        }
    }

    static void run(Sink &sink, Rng &rng, const Args &a, long c, bool ctl)
    {
        const std::string subj = ctl ? "control::PlannerDataStorage" : "PlannerDataStorage";
        // ---- world
        World w;
        ZooStat zs;
        for (int tries = 0; tries < 6 && !w.m.sp; ++tries)
        {
            ZooOpt zo;
            Made m = makeSpace(rng, zo, zs);
            try
            {
                m.sp->setup();
            }
            catch (...)
            {
                continue;
            }
            if (m.sp->getDimension() > 0) w.m = m;
        }
        if (!w.m.sp)
        {
            sink.inconclusive("no-space");
            return;
        }
        w.t = walkTree(w.m.sp.get());
        w.m.sp->computeSignature(w.sig);
        std::vector<int> csig;
        int ckind = (int)rng.ui(3);
        try
        {
            if (ctl)
            {
                w.cs = makeControlSpace(rng, w.m.sp, ckind);
                w.siC = makeSiC(w.m.sp, w.cs);
                w.si = w.siC;
                w.cs->computeSignature(csig);
            }
            else
            {
                w.si = std::make_shared<ob::SpaceInformation>(w.m.sp);
                w.si->setup();
            }
        }
        catch (std::exception &e)
        {
            sink.inconclusive("space-information-setup-threw");
            return;
        }
        const ob::StateSpace *sp = w.m.sp.get();
        const oc::ControlSpace *cs = w.cs.get();

        // ---- graph
        unsigned nV;
        {
            double r = rng.u01();
            unsigned big = ctl ? 150 : 300;
            nV = r < 0.04 ? 0 : r < 0.45 ? 1 + (unsigned)rng.ui(10) : r < 0.85 ? 11 + (unsigned)rng.ui(40) : 51 + (unsigned)rng.ui(big - 50);
        }
        auto pd = w.newPD();
        GenStat gs;
        generate(rng, w, *pd, nV, gs);
        const Snap s1 = snap(*pd, sp, cs);
        sink.count("c09_pd_graphs");
        sink.count("c09_pd_state_index_lookups", gs.indexLookups);
        sink.count("c09_pd_state_addressed_edits", gs.stateEdits);
        if (!gs.indexBad.empty())
            sink.viol("C09:planner-data-state-index:PlannerData", J().str("what", "the state -> vertex index map disagrees with the vertex order").str("detail", gs.indexBad));
        if (!gs.editBad.empty())
            sink.viol("C09:planner-data-state-edit:PlannerData", J().str("what", "an edit addressed by state did not land on the vertex holding that state").str("detail", gs.editBad));
        sink.count(ctl ? "c09_pd_graphs_control" : "c09_pd_graphs_geometric");
        sink.count("c09_pd_vertices", s1.nv);
        sink.count("c09_pd_edges", s1.ne);
        sink.maxstat("c09_pd_max_vertices", s1.nv);
        if (gs.bothMarked) sink.count("c09_pd_graphs_with_start_and_goal_vertex");
        {
            unsigned both = 0;
            for (unsigned g : s1.goals) both += std::binary_search(s1.starts.begin(), s1.starts.end(), g);
            if (both) sink.count("c09_pd_graphs_storing_start_and_goal_vertex");
        }
        if (!s1.goalListSorted) sink.count("c09_pd_graphs_goal_list_observed_unsorted");  // symptom of the markGoalState defect
        if (gs.goalOrderRandom && s1.nv > 0) sink.count("c09_pd_graphs_goal_marks_out_of_order");  // generated: marks in arbitrary vertex order
        if (s1.starts.size() > 1) sink.count("c09_pd_graphs_multi_start");
        if (s1.goals.size() > 1) sink.count("c09_pd_graphs_multi_goal");
        if (gs.removedV) sink.count("c09_pd_graphs_with_removed_vertices");
        if (gs.removedE) sink.count("c09_pd_graphs_with_removed_edges");
        if (gs.decoupled) sink.count("c09_pd_graphs_decoupled");
        if (gs.derivedV || gs.derivedE) sink.count("c09_pd_graphs_with_derived_classes");
        if (s1.nv == 0) sink.count("c09_pd_graphs_empty");

        // ---- store
        ob::PlannerDataStorage baseStorage;
        oc::PlannerDataStorage ctlStorage;
        ob::PlannerDataStorage &storage = ctl ? static_cast<ob::PlannerDataStorage &>(ctlStorage) : baseStorage;
        std::string img;
        const bool viaFile = rng.coin(0.1);
        std::string fname;
        bool stored = false;
        bool ok = guard(sink, subj + "::store", [&] {
            if (viaFile)
            {
                fname = tmpdir() + "/pd_" + std::to_string(c);
                stored = storage.store(*pd, fname.c_str());
                std::ifstream f(fname, std::ios::binary);
                std::stringstream ss;
                ss << f.rdbuf();
                img = ss.str();
            }
            else
            {
                std::stringstream ss;
                stored = storage.store(*pd, ss);
                img = ss.str();
            }
        });
        auto cleanup = [&] {
            if (!fname.empty()) unlink(fname.c_str());
        };
        if (!ok)
        {
            cleanup();
            return;
        }
        J ctxJ = J().str("space", w.m.cls).str("signature", sigStr(w.sig)).u("vertices", s1.nv).u("edges", s1.ne).u("stream_bytes", img.size());
        if (ctl) ctxJ.str("control_signature", sigStr(csig));
        if (!stored)
        {
            sink.viol("C09:planner-data-roundtrip:store-failed", J().str("what", "store() returned false for a valid graph").obj("graph", ctxJ));
            cleanup();
            return;
        }
        sink.count("c09_pd_streams");
        sink.count("c09_pd_stream_bytes", (long long)img.size());
        sink.maxstat("c09_pd_max_stream_bytes", (double)img.size());

        // ---- round trip into a fresh PlannerData
        Snap s2;
        bool haveS2 = false;
        {
            auto pd2 = w.newPD();
            bool loaded = false;
            bool lok = guard(sink, subj + "::load", [&] {
                if (viaFile) loaded = storage.load(fname.c_str(), *pd2);
                else
                {
                    std::stringstream in(img);
                    loaded = storage.load(in, *pd2);
                }
            });
            if (lok && !loaded) sink.viol("C09:planner-data-roundtrip:load-rejected-intact-stream", J().str("what", "load() returned false for the stream store() just wrote").obj("graph", ctxJ));
            if (lok && loaded)
            {
                s2 = snap(*pd2, sp, cs);
                haveS2 = true;
                for (auto &d : diff(s1, s2))
                {
                    J det = d.second;
                    sink.viol("C09:planner-data-roundtrip:" + d.first, det.str("storage", subj).obj("graph", ctxJ));
                }
            }
            sink.count("c09_pd_roundtrips");
        }
        cleanup();
        // ---- load into a PlannerData that already held another graph (load() clears it first)
        if (haveS2 && rng.coin(0.25))
        {
            World w2;  // owns the states of the previous content
            w2.m = w.m, w2.t = w.t, w2.si = w.si, w2.siC = w.siC, w2.cs = w.cs;
            auto pd3 = w.newPD();
            GenStat g2;
            generate(rng, w2, *pd3, 1 + (unsigned)rng.ui(20), g2);
            bool loaded = false;
            bool lok = guard(sink, subj + "::load", [&] {
                std::stringstream in(img);
                loaded = storage.load(in, *pd3);
            });
            if (lok)
            {
                Snap s3 = snap(*pd3, sp, cs);
                auto dd = diff(s2, s3);
                if (!loaded || !dd.empty())
                {
                    J det = dd.empty() ? J().str("what", "load returned false") : dd[0].second;
                    sink.viol("C09:planner-data-roundtrip:load-into-used-PlannerData",
                              det.str("differs", dd.empty() ? "" : dd[0].first).str("what_happened", "loading into a PlannerData that held another graph gives a different result than loading into a fresh one")
                                  .str("storage", subj).obj("graph", ctxJ));
                }
            }
            sink.count("c09_pd_loads_into_used_planner_data");
            pd3.reset();  // before w2 releases the states
        }

        forked(sink, [&](Obs &sink) {
        // ---- corrupted loads
        long leakLoads = 0, leakBytes = 0, rejectedSilently = 0;
        auto corrupt = [&](const std::string &data, const World &lw, bool useCtlLoader, const std::string &clause, const J &info) -> bool {
            long b0 = allocBytes();
            bool fine = true;
            {
                auto pdx = lw.newPD();
                long e0 = g_cap.n();
                bool accepted = false, threw = false;
                std::string what;
                {
                    LogOn on;
                    try
                    {
                        std::stringstream in(data);
                        accepted = useCtlLoader ? ctlStorage.load(in, *pdx) : baseStorage.load(in, *pdx);
                    }
                    catch (std::exception &e)
                    {
                        threw = true, what = e.what();
                    }
                    catch (...)
                    {
                        threw = true, what = "(non-std)";
                    }
                }
                J d = info;
                d.str("storage", useCtlLoader ? "control::PlannerDataStorage" : "PlannerDataStorage").obj("graph", ctxJ);
                if (threw)
                {
                    sink.viol("C09:exception-escaped:" + std::string(useCtlLoader ? "control::PlannerDataStorage" : "PlannerDataStorage") + "::load:" + clause, d.str("what", what));
                    fine = false;
                }
                else if (accepted)
                {
                    sink.viol("C09:" + clause + "-accepted:" + (useCtlLoader ? "control::PlannerDataStorage" : "PlannerDataStorage"),
                              d.str("what", "load() returned true").u("loaded_vertices", pdx->numVertices()).u("loaded_edges", pdx->numEdges()));
                    fine = false;
                }
                else if (g_cap.n() == e0)
                    ++rejectedSilently;  // returned false without a log line: the return value is the report; observation only
            }
            long b1 = allocBytes();
            if (b0 >= 0 && b1 > b0) ++leakLoads, leakBytes += b1 - b0;
            return fine;
        };

        // truncation: fault enumeration
        {
            bool exhaustive;
            size_t budget = a.thorough() ? 1200 : 400;
            if (ctl && s1.nv > 60) budget /= 2;  // control::PlannerData::decoupleFromPlanner is quadratic in the vertex count
            std::vector<size_t> lens = truncationLengths(rng, img.size(), budget, exhaustive);
            for (size_t len : lens)
            {
                sink.count("c09_truncation_offsets");
                sink.count("c09_pd_truncation_offsets");
                if (!corrupt(img.substr(0, len), w, ctl, "truncation", J().u("truncated_to", len))) break;
            }
            sink.count(exhaustive ? "c09_streams_truncated_exhaustively" : "c09_streams_truncated_strided");
        }
        // wrong marker
        {
            long at = findMagic(img, ctl ? "MCDP" : "MADP");
            if (at < 0) sink.inconclusive("marker-not-located");
            else
                for (auto &s : damagedMarkers(img, at))
                {
                    sink.count("c09_wrong_marker_loads");
                    if (!corrupt(s, w, ctl, "wrong-marker", J().i("marker_offset", at))) break;
                }
            // wrong marker AND an absurd length field behind it (a file that is not a planner-data archive at all): the
            // layout after the marker is vertex_count, edge_count, signature length (8 bytes each)
            if (at >= 0 && img.size() >= (size_t)at + 32 && sizeof(std::uint_fast32_t) == 8)
            {
                std::string s = img;
                s[at] ^= (char)0xff;
                const uint64_t huge = 1ULL << 62;
                memcpy(&s[at + 24], &huge, 8);
                sink.count("c09_wrong_marker_loads");
                sink.count("c09_wrong_marker_oversized_length_loads");
                corrupt(s, w, ctl, "wrong-marker-with-oversized-length-field", J().i("marker_offset", at).str("note", "marker damaged and the signature length field set to 2^62"));
            }
        }
        // stream written for a space with a different signature
        {
            Made f = foreignSpace(rng, w.sig, true);
            if (!f.sp) sink.inconclusive("no-foreign-space");
            else
                try
                {
                    World wf;
                    wf.m = f;
                    std::vector<int> fs;
                    f.sp->computeSignature(fs);
                    if (ctl)
                    {
                        // same control-space structure on the foreign state space: only the state signature differs
                        Rng r2(rng.u64());
                        wf.cs = makeControlSpace(r2, f.sp, ckind);
                        std::vector<int> fcs;
                        wf.cs->computeSignature(fcs);
                        wf.siC = makeSiC(f.sp, wf.cs);
                        wf.si = wf.siC;
                    }
                    else
                    {
                        wf.si = std::make_shared<ob::SpaceInformation>(f.sp);
                        wf.si->setup();
                    }
                    sink.count("c09_foreign_signature_loads");
                    corrupt(img, wf, ctl, "foreign-signature", J().str("loader_space", f.cls).str("loader_signature", sigStr(fs)));
                }
                catch (ompl::Exception &)
                {
                    sink.inconclusive("foreign-space-information-setup-threw");
                }
            if (ctl)
            {
                // same state space, control space with a different signature
                for (int tries = 0; tries < 6; ++tries)
                {
                    World wc;
                    wc.m = w.m, wc.t = w.t;
                    wc.cs = makeControlSpace(rng, w.m.sp, (int)rng.ui(3), tries % 2);
                    std::vector<int> fcs;
                    wc.cs->computeSignature(fcs);
                    if (fcs == csig) continue;
                    try
                    {
                        wc.siC = makeSiC(w.m.sp, wc.cs);
                    }
                    catch (ompl::Exception &)
                    {
                        continue;
                    }
                    wc.si = wc.siC;
                    sink.count("c09_foreign_signature_loads");
                    sink.count("c09_foreign_control_signature_loads");
                    corrupt(img, wc, true, "foreign-signature", J().str("loader_control_signature", sigStr(fcs)));
                    break;
                }
            }
        }
        sink.count("c09_error_path_loads_leaking", leakLoads);
        sink.count("c09_error_path_leaked_bytes", leakBytes);
        sink.count("c09_pd_rejections_without_log_line", rejectedSilently);
        });
        uint64_t h = hmix(hashStr(std::string(ctl ? "k4" : "k3") + w.m.cls + sigStr(w.sig)), hashBytes(img.data(), img.size()));
        sink.noteCase(h, s1.nv > 0);
        sink.sample(J().str("kind", ctl ? "control-planner-data" : "planner-data").str("space", w.m.cls).str("signature", sigStr(w.sig)).u("vertices", s1.nv).u("edges", s1.ne)
                        .u("starts", s1.starts.size()).u("goals", s1.goals.size()).u("removed_vertices", gs.removedV).u("removed_edges", gs.removedE).u("stream_bytes", img.size()));
    }
}

// =========================================================================================================
int main(int argc, char **argv)
{
    Args a = parseArgs(argc, argv);
    if (a.prop != "C09")
    {
        fprintf(stderr, "h_storage does not serve %s\n", a.prop.c_str());
        return 2;
    }
    ompl::msg::useOutputHandler(&g_cap);
    ompl::msg::setLogLevel(ompl::msg::LOG_NONE);
    atexit(rmtmpdir);
    Sink sink(a);
    long total = (long)((a.thorough() ? 8000 : 1280) * a.scale);
    // case kinds in a fixed rotation of 16: 3x state round trips, 2x partial copies, 4x StateStorage, 5x geometric, 2x control
    static const int rota[16] = {0, 3, 2, 1, 3, 4, 2, 0, 3, 2, 1, 3, 4, 2, 0, 3};
    for (long c = 0; c < total; ++c)
    {
        if (!mine(a, c) || !sink.wanted(c)) continue;
        sink.begin(c);
        Rng rng(caseSeed(a, c));
        ompl::RNG::setSeed(caseSeed(a, c, 1) % 1000000000 + 1);
        // shards own c % nshards, so rotate by c / 16 as well: every shard sees every kind
        int kind = rota[(c + c / 16) % 16];
        auto t0 = std::chrono::steady_clock::now();
        switch (kind)
        {
            case 0: k0::run(sink, rng, c); break;
            case 1: k1::run(sink, rng, c); break;
            case 2: k2::run(sink, rng, a, c); break;
            case 3: k34::run(sink, rng, a, c, false); break;
            default: k34::run(sink, rng, a, c, true); break;
        }
        double ms = std::chrono::duration<double, std::milli>(std::chrono::steady_clock::now() - t0).count();
        sink.maxstat("c09_max_case_ms_kind" + std::to_string(kind), ms);  // timing statistics only (not part of any verdict)
        sink.count("c09_ms_kind" + std::to_string(kind), (long long)ms);
    }
    sink.done();
    ompl::msg::noOutputHandler();
    return 0;
}
