// Engine h_spaces: oracles over a zoo of state spaces (leaf spaces, wrappers, random nested weighted compounds).
//   C06 metric laws of StateSpace::distance
//   C07 interpolation: endpoints, bounds, aliasing, re-parameterisation, constant speed
//   C08 enforceBounds, state samplers, valid-state samplers
// Violations are attributed to the deepest space whose own call reproduces them on the corresponding sub-states.
#include "common.h"
#include <ompl/base/spaces/RealVectorStateSpace.h>
#include <ompl/base/spaces/SO2StateSpace.h>
#include <ompl/base/spaces/SO3StateSpace.h>
#include <ompl/base/spaces/SE2StateSpace.h>
#include <ompl/base/spaces/SE3StateSpace.h>
#include <ompl/base/spaces/TimeStateSpace.h>
#include <ompl/base/spaces/DiscreteStateSpace.h>
#include <ompl/base/spaces/DubinsStateSpace.h>
#include <ompl/base/spaces/ReedsSheppStateSpace.h>
#include <ompl/base/spaces/WrapperStateSpace.h>
#include <ompl/base/spaces/special/TorusStateSpace.h>
#include <ompl/base/spaces/special/SphereStateSpace.h>
#include <ompl/base/spaces/special/MobiusStateSpace.h>
#include <ompl/base/spaces/special/KleinBottleStateSpace.h>
#include <ompl/base/SpaceInformation.h>
#include <ompl/base/StateValidityChecker.h>
#include <ompl/base/samplers/UniformValidStateSampler.h>
#include <ompl/base/samplers/GaussianValidStateSampler.h>
#include <ompl/base/samplers/ObstacleBasedValidStateSampler.h>
#include <ompl/base/samplers/BridgeTestValidStateSampler.h>
#include <ompl/base/samplers/MaximizeClearanceValidStateSampler.h>
#include <ompl/base/samplers/MinimumClearanceValidStateSampler.h>
#include <ompl/util/Console.h>
#include <ompl/util/RandomNumbers.h>
#include <ompl/util/Exception.h>
#include <algorithm>
#include <climits>
#include <memory>

using namespace vf;
namespace ob = ompl::base;
using State = ob::State;

static const double PI = 3.14159265358979323846;  // == boost::math::double_constants::pi as a double
static const double DEPS = std::numeric_limits<double>::epsilon();

// =====================================================================================================
// Zoo: a descriptor tree mirroring the OMPL space tree
// =====================================================================================================
enum Kind
{
    K_RV, K_SO2, K_SO3, K_TIME, K_DISC, K_SE2, K_SE3, K_TORUS, K_SPHERE, K_MOBIUS, K_KLEIN, K_DUBINS, K_RS,
    K_COMPOUND, K_WRAPPER
};
static const char *CLS[] = {"RealVectorStateSpace", "SO2StateSpace", "SO3StateSpace", "TimeStateSpace",
                            "DiscreteStateSpace", "SE2StateSpace", "SE3StateSpace", "TorusStateSpace",
                            "SphereStateSpace", "MobiusStateSpace", "KleinBottleStateSpace", "DubinsStateSpace",
                            "ReedsSheppStateSpace", "CompoundStateSpace", "WrapperStateSpace"};

struct Params
{
    double radius = 1;
    bool sym = false;
};
using Registry = std::map<const ob::StateSpace *, Params>;

struct Node;
using NodeP = std::shared_ptr<Node>;
struct Node
{
    Kind kind;
    ob::StateSpacePtr sp;
    std::vector<NodeP> kids;
    std::vector<double> w;
    std::vector<double> lo, hi;  // RV, bounded TIME
    bool bounded = true;         // TIME
    int dlo = 0, dhi = 0;        // DISC
    double radius = 1;           // SPHERE radius, DUBINS/RS rho
    bool sym = false;
    // derived
    bool hasDisc = false, hasUnbTime = false, hasDubins = false, hasSO2 = false, hasSO3 = false;
    bool geodesic = false;  // named in the C07 statement as following its own geodesic
    bool plainSum = false;  // distance() is CompoundStateSpace::distance (weighted sum) / pure forwarding (wrapper)
    int depth = 0, height = 0;
    size_t nleaves = 1;
    std::string sig;
    mutable std::vector<State *> scratch;
    State *tmp(size_t i) const
    {
        while (scratch.size() <= i) scratch.push_back(sp->allocState());
        return scratch[i];
    }
    const char *cls() const { return CLS[kind]; }
    bool composite() const { return !kids.empty(); }
    ~Node()
    {
        for (auto *s : scratch) sp->freeState(s);
    }
};

static inline State *sub(const Node &n, State *s, size_t i)
{
    if (n.kind == K_WRAPPER) return s->as<ob::WrapperStateSpace::StateType>()->getState();
    return s->as<ob::CompoundState>()->components[i];
}
static inline const State *sub(const Node &n, const State *s, size_t i)
{
    if (n.kind == K_WRAPPER) return s->as<ob::WrapperStateSpace::StateType>()->getState();
    return s->as<ob::CompoundState>()->components[i];
}
static inline double &so2v(State *s) { return s->as<ob::SO2StateSpace::StateType>()->value; }
static inline double so2v(const State *s) { return s->as<ob::SO2StateSpace::StateType>()->value; }
static inline double *rvv(State *s) { return s->as<ob::RealVectorStateSpace::StateType>()->values; }
static inline const double *rvv(const State *s) { return s->as<ob::RealVectorStateSpace::StateType>()->values; }
static inline double &timev(State *s) { return s->as<ob::TimeStateSpace::StateType>()->position; }
static inline double timev(const State *s) { return s->as<ob::TimeStateSpace::StateType>()->position; }
static inline int &discv(State *s) { return s->as<ob::DiscreteStateSpace::StateType>()->value; }
static inline int discv(const State *s) { return s->as<ob::DiscreteStateSpace::StateType>()->value; }

static std::string fmtg(double v)
{
    char b[32];
    snprintf(b, sizeof b, "%.4g", v);
    return b;
}

static NodeP describe(const ob::StateSpacePtr &sp, const Registry &reg, int depth = 0)
{
    auto n = std::make_shared<Node>();
    n->sp = sp;
    n->depth = depth;
    auto pit = reg.find(sp.get());
    if (pit != reg.end())
    {
        n->radius = pit->second.radius;
        n->sym = pit->second.sym;
    }
    ob::StateSpace *p = sp.get();
    bool comp = false;
    if (auto *w = dynamic_cast<ob::WrapperStateSpace *>(p))
    {
        n->kind = K_WRAPPER;
        n->kids.push_back(describe(w->getSpace(), reg, depth + 1));
        n->w.push_back(1.0);
    }
    else if (dynamic_cast<ob::DubinsStateSpace *>(p)) n->kind = K_DUBINS, comp = true;
    else if (dynamic_cast<ob::ReedsSheppStateSpace *>(p)) n->kind = K_RS, comp = true;
    else if (dynamic_cast<ob::SE2StateSpace *>(p)) n->kind = K_SE2, comp = true;
    else if (dynamic_cast<ob::SE3StateSpace *>(p)) n->kind = K_SE3, comp = true;
    else if (dynamic_cast<ob::TorusStateSpace *>(p)) n->kind = K_TORUS, comp = true;
    else if (dynamic_cast<ob::SphereStateSpace *>(p)) n->kind = K_SPHERE, comp = true;
    else if (dynamic_cast<ob::MobiusStateSpace *>(p)) n->kind = K_MOBIUS, comp = true;
    else if (dynamic_cast<ob::KleinBottleStateSpace *>(p)) n->kind = K_KLEIN, comp = true;
    else if (dynamic_cast<ob::CompoundStateSpace *>(p)) n->kind = K_COMPOUND, comp = true;
    else if (auto *rv = dynamic_cast<ob::RealVectorStateSpace *>(p))
    {
        n->kind = K_RV;
        n->lo = rv->getBounds().low;
        n->hi = rv->getBounds().high;
    }
    else if (dynamic_cast<ob::SO2StateSpace *>(p)) n->kind = K_SO2;
    else if (dynamic_cast<ob::SO3StateSpace *>(p)) n->kind = K_SO3;
    else if (auto *t = dynamic_cast<ob::TimeStateSpace *>(p))
    {
        n->kind = K_TIME;
        n->bounded = t->isBounded();
        if (n->bounded)
        {
            n->lo = {t->getMinTimeBound()};
            n->hi = {t->getMaxTimeBound()};
        }
    }
    else if (auto *d = dynamic_cast<ob::DiscreteStateSpace *>(p))
    {
        n->kind = K_DISC;
        n->dlo = d->getLowerBound();
        n->dhi = d->getUpperBound();
    }
    else
    {
        fprintf(stderr, "h_spaces: unknown space class\n");
        exit(2);
    }
    if (comp)
    {
        auto *c = static_cast<ob::CompoundStateSpace *>(p);
        for (unsigned i = 0; i < c->getSubspaceCount(); ++i)
        {
            n->kids.push_back(describe(c->getSubspace(i), reg, depth + 1));
            n->w.push_back(c->getSubspaceWeight(i));
        }
    }
    // derived flags and signature
    Node &N = *n;
    switch (N.kind)
    {
        case K_RV:
            N.geodesic = true;
            N.sig = "R" + std::to_string(N.lo.size()) + "[";
            for (size_t i = 0; i < N.lo.size(); ++i) N.sig += (i ? ";" : "") + fmtg(N.lo[i]) + "," + fmtg(N.hi[i]);
            N.sig += "]";
            break;
        case K_SO2: N.geodesic = true, N.hasSO2 = true, N.sig = "SO2"; break;
        case K_SO3: N.geodesic = true, N.hasSO3 = true, N.sig = "SO3"; break;
        case K_TIME:
            N.geodesic = true;
            N.hasUnbTime = !N.bounded;
            N.sig = N.bounded ? "Time[" + fmtg(N.lo[0]) + "," + fmtg(N.hi[0]) + "]" : "TimeUnbounded";
            break;
        case K_DISC:
            N.hasDisc = true;
            N.sig = "Disc[" + std::to_string(N.dlo) + "," + std::to_string(N.dhi) + "]";
            break;
        default:
        {
            N.nleaves = 0;
            bool allGeo = true;
            std::string inner;
            for (size_t i = 0; i < N.kids.size(); ++i)
            {
                const Node &k = *N.kids[i];
                N.hasDisc |= k.hasDisc, N.hasUnbTime |= k.hasUnbTime, N.hasDubins |= k.hasDubins;
                N.hasSO2 |= k.hasSO2, N.hasSO3 |= k.hasSO3;
                allGeo &= k.geodesic;
                N.nleaves += k.nleaves;
                N.height = std::max(N.height, k.height + 1);
                inner += (i ? ", " : "") + (N.kind == K_WRAPPER ? std::string() : fmtg(N.w[i]) + "*") + k.sig;
            }
            N.plainSum = N.kind == K_COMPOUND || N.kind == K_SE2 || N.kind == K_SE3 || N.kind == K_WRAPPER;
            N.geodesic = (N.kind == K_SE2 || N.kind == K_SE3 || N.kind == K_TORUS) ||
                         ((N.kind == K_COMPOUND || N.kind == K_WRAPPER) && allGeo);
            if (N.kind == K_DUBINS || N.kind == K_RS) N.hasDubins = true;
            static const char *SHORT[] = {"", "", "", "", "", "SE2", "SE3", "Torus", "Sphere", "Mobius", "Klein",
                                          "Dubins", "ReedsShepp", "Compound", "Wrapper"};
            N.sig = SHORT[N.kind];
            if (N.kind == K_SPHERE || N.kind == K_DUBINS || N.kind == K_RS) N.sig += "(r=" + fmtg(N.radius) + (N.sym ? ",sym" : "") + ")";
            N.sig += "{" + inner + "}";
        }
    }
    return n;
}

// ---- space builders ---------------------------------------------------------------------------------
static void randBound(Rng &r, double &lo, double &hi, double wmin, double wmax)
{
    double w = r.logUni(wmin, wmax);
    switch (r.ui(4))
    {
        case 0: lo = -w, hi = w; break;                              // symmetric
        case 1: lo = -r.uni(1, 3) * w, hi = lo + w; break;           // negative range
        case 2: lo = r.uni(0, 2) * w, hi = lo + w; break;            // positive range
        default: lo = -r.u01() * w, hi = lo + w; break;              // straddling zero
    }
}
// variant 0 generic, 1 one zero-width dimension, 2 huge (about 1e6 wide) dimensions
static ob::StateSpacePtr mkRV(Rng &r, int variant, int dim)
{
    auto s = std::make_shared<ob::RealVectorStateSpace>(dim);
    ob::RealVectorBounds b(dim);
    for (int i = 0; i < dim; ++i) randBound(r, b.low[i], b.high[i], 1e-2, 1e2);
    if (variant == 1)
    {
        if (dim < 2)
        {
            s = std::make_shared<ob::RealVectorStateSpace>(2);
            b.resize(2);
            randBound(r, b.low[1], b.high[1], 1e-2, 1e2);
            dim = 2;
        }
        int z = (int)r.ui(dim);
        static const double V[] = {0.0, 1.0, -2.5, 1e6, -1e-3};
        b.low[z] = b.high[z] = V[r.ui(5)];
    }
    if (variant == 2)
        for (int i = 0; i < dim; ++i)
            if (i == 0 || r.coin(0.6))
            {
                if (r.coin(0.6)) b.low[i] = -1e6 * r.uni(0.5, 1), b.high[i] = 1e6 * r.uni(0.5, 1);
                else if (r.coin()) b.low[i] = -1e6, b.high[i] = 1e6;
                else b.low[i] = -2e6 * r.u01() - 1e6, b.high[i] = b.low[i] + 1e6;
            }
    s->setBounds(b);
    return s;
}
static ob::RealVectorBounds poseBounds(Rng &r, int dim)
{
    ob::RealVectorBounds b(dim);
    for (int i = 0; i < dim; ++i) randBound(r, b.low[i], b.high[i], 1, 20);
    return b;
}
enum ZooKind
{
    Z_RV, Z_RVZERO, Z_RVHUGE, Z_SO2, Z_SO3, Z_SE2, Z_SE3, Z_TIME, Z_TIMEUNB, Z_DISC, Z_TORUS, Z_SPHERE, Z_MOBIUS,
    Z_KLEIN, Z_DUBINS, Z_DUBINSSYM, Z_RS, Z_WRAPPER, Z_COMPOUND, Z_COUNT
};
static const char *ZNAME[] = {"RealVector", "RealVectorZeroWidth", "RealVectorHuge", "SO2", "SO3", "SE2", "SE3", "Time",
                              "TimeUnbounded", "Discrete", "Torus", "Sphere", "Mobius", "KleinBottle", "Dubins",
                              "DubinsSymmetric", "ReedsShepp", "Wrapper", "Compound"};

static ob::StateSpacePtr mkCompound(Rng &r, int depthLeft, Registry &reg, bool top);

static ob::StateSpacePtr mkZoo(Rng &r, int z, Registry &reg, int maxDim = 8)
{
    switch (z)
    {
        case Z_RV: return mkRV(r, 0, r.range(1, maxDim));
        case Z_RVZERO: return mkRV(r, 1, r.range(2, std::max(2, maxDim)));
        case Z_RVHUGE: return mkRV(r, 2, r.range(1, maxDim));
        case Z_SO2: return std::make_shared<ob::SO2StateSpace>();
        case Z_SO3: return std::make_shared<ob::SO3StateSpace>();
        case Z_SE2:
        {
            auto s = std::make_shared<ob::SE2StateSpace>();
            s->setBounds(poseBounds(r, 2));
            if (r.coin(0.3)) s->setSubspaceWeight(1, r.logUni(1e-2, 1e2));
            return s;
        }
        case Z_SE3:
        {
            auto s = std::make_shared<ob::SE3StateSpace>();
            s->setBounds(poseBounds(r, 3));
            if (r.coin(0.3)) s->setSubspaceWeight(1, r.logUni(1e-2, 1e2));
            return s;
        }
        case Z_TIME:
        {
            auto s = std::make_shared<ob::TimeStateSpace>();
            double lo, hi;
            randBound(r, lo, hi, 1e-2, 1e3);
            s->setBounds(lo, hi);
            return s;
        }
        case Z_TIMEUNB: return std::make_shared<ob::TimeStateSpace>();
        case Z_DISC:
        {
            int lo, hi;
            switch (r.ui(5))
            {
                case 0: lo = -3, hi = 7; break;
                case 1: lo = -r.range(5, 40), hi = lo + r.range(1, 4); break;  // negative range
                case 2: lo = 0, hi = 1; break;
                case 3: lo = -1000000, hi = 1000000; break;
                default: lo = r.range(-50, 50), hi = lo + r.range(1, 200); break;
            }
            return std::make_shared<ob::DiscreteStateSpace>(lo, hi);
        }
        case Z_TORUS: return std::make_shared<ob::TorusStateSpace>(r.uni(1, 3), r.uni(0.2, 0.9));
        case Z_SPHERE:
        {
            double rad = r.coin(0.2) ? 1.0 : r.logUni(0.5, 5.0);
            auto s = std::make_shared<ob::SphereStateSpace>(rad);
            reg[s.get()].radius = rad;
            return s;
        }
        case Z_MOBIUS: return std::make_shared<ob::MobiusStateSpace>(r.uni(0.2, 3.0), 1.0);
        case Z_KLEIN: return std::make_shared<ob::KleinBottleStateSpace>();
        case Z_DUBINS:
        case Z_DUBINSSYM:
        {
            double rho = r.logUni(0.2, 3.0);
            auto s = std::make_shared<ob::DubinsStateSpace>(rho, z == Z_DUBINSSYM);
            s->setBounds(poseBounds(r, 2));
            reg[s.get()].radius = rho;
            reg[s.get()].sym = z == Z_DUBINSSYM;
            return s;
        }
        case Z_RS:
        {
            double rho = r.logUni(0.2, 3.0);
            auto s = std::make_shared<ob::ReedsSheppStateSpace>(rho);
            s->setBounds(poseBounds(r, 2));
            reg[s.get()].radius = rho;
            return s;
        }
        case Z_WRAPPER:
        {
            int in = r.coin(0.3) ? Z_COMPOUND : (int)r.ui(Z_WRAPPER);
            return std::make_shared<ob::WrapperStateSpace>(mkZoo(r, in, reg, 4));
        }
        default: return mkCompound(r, 3, reg, true);
    }
}

static int pickLeafKind(Rng &r)
{
    // cumulative percentages; the spaces with known defects are kept rare so that most compounds are clean
    static const std::pair<int, int> T[] = {{Z_RV, 24},     {Z_SO2, 16},   {Z_SO3, 11},    {Z_SE2, 8},      {Z_SE3, 6},
                                            {Z_TIME, 5},    {Z_TIMEUNB, 3}, {Z_DISC, 8},   {Z_TORUS, 4},    {Z_RVHUGE, 3},
                                            {Z_RVZERO, 2},  {Z_SPHERE, 2}, {Z_MOBIUS, 2},  {Z_KLEIN, 2},    {Z_DUBINS, 1},
                                            {Z_DUBINSSYM, 1}, {Z_RS, 2}};
    int x = (int)r.ui(100), acc = 0;
    for (auto &e : T)
    {
        acc += e.second;
        if (x < acc) return e.first;
    }
    return Z_RV;
}
static double pickWeight(Rng &r)
{
    double x = r.u01();
    if (x < 0.15) return 0.0;
    if (x < 0.40) return 1.0;
    if (x < 0.50) return r.coin() ? 1e-3 : 1e3;
    // positive but far below machine epsilon (a weight is a weight: the component still separates states); kept <= 1e-18 so
    // that its contribution stays below the comparison tolerance of the extent clause even for the 1e6-wide boxes (the
    // library's extent leaves components with a weight below epsilon out)
    if (x < 0.56) return r.logUni(1e-30, 1e-18);
    return r.logUni(1e-3, 1e3);
}
static ob::StateSpacePtr mkCompound(Rng &r, int depthLeft, Registry &reg, bool top)
{
    auto c = std::make_shared<ob::CompoundStateSpace>();
    int n = top ? r.range(2, 5) : r.range(1, 3);
    int pos = (int)r.ui(n);  // this component certainly has positive weight (setup() rejects zero extent)
    for (int i = 0; i < n; ++i)
    {
        ob::StateSpacePtr k;
        if (depthLeft > 1 && r.coin(top ? 0.45 : 0.3)) k = mkCompound(r, depthLeft - 1, reg, false);
        else k = mkZoo(r, pickLeafKind(r), reg, 3);
        // only non-compound spaces are wrapped inside a compound: StateSpace::setup() of the enclosing compound
        // down-casts every component with isCompound() to CompoundStateSpace, which a wrapper forwards (probe: C06 case 0)
        if (r.coin(0.12) && !k->isCompound()) k = std::make_shared<ob::WrapperStateSpace>(k);
        double w = pickWeight(r);
        if (i == pos && w < 1e-3) w = r.logUni(1e-3, 1e3);
        c->addSubspace(k, w);
    }
    if (r.coin(0.3)) c->lock();
    return c;
}

struct Zoo
{
    Registry reg;
    NodeP root;
    int z = 0;
};
// kind by case index so that every kind is covered evenly; compounds get extra slots
static int zooKindOfCase(long c)
{
    static const int SLOT[] = {Z_RV, Z_RVZERO, Z_RVHUGE, Z_SO2, Z_SO3, Z_SE2, Z_SE3, Z_TIME, Z_TIMEUNB, Z_DISC, Z_TORUS,
                               Z_SPHERE, Z_MOBIUS, Z_KLEIN, Z_DUBINS, Z_DUBINSSYM, Z_RS, Z_WRAPPER, Z_COMPOUND,
                               Z_COMPOUND, Z_COMPOUND, Z_COMPOUND, Z_COMPOUND};
    return SLOT[c % (long)(sizeof(SLOT) / sizeof(int))];
}
// Z_PROBE_WRAPPED_COMPOUND: Compound{R^2, Wrapper{SE2}} - a wrapper around a compound-type space as a component
static const int Z_PROBE_WRAPPED_COMPOUND = 1000;
static bool buildZoo(Zoo &zoo, Rng &r, int z, Sink &sink)
{
    zoo.z = z;
    try
    {
        ob::StateSpacePtr sp;
        if (z == Z_PROBE_WRAPPED_COMPOUND)
        {
            auto c = std::make_shared<ob::CompoundStateSpace>();
            c->addSubspace(mkRV(r, 0, 2), 1.0);
            c->addSubspace(std::make_shared<ob::WrapperStateSpace>(mkZoo(r, Z_SE2, zoo.reg)), 1.0);
            sp = c;
        }
        else
            sp = mkZoo(r, z, zoo.reg);
        sp->setup();
        zoo.root = describe(sp, zoo.reg);
    }
    catch (const std::exception &e)
    {
        sink.inconclusive("space-setup-threw");
        return false;
    }
    return true;
}

// =====================================================================================================
// State helpers and adversarial generators
// =====================================================================================================
static void toReals(const Node &n, const State *s, std::vector<double> &out)
{
    switch (n.kind)
    {
        case K_RV:
            for (size_t i = 0; i < n.lo.size(); ++i) out.push_back(rvv(s)[i]);
            break;
        case K_SO2: out.push_back(so2v(s)); break;
        case K_SO3:
        {
            auto *q = s->as<ob::SO3StateSpace::StateType>();
            out.push_back(q->x), out.push_back(q->y), out.push_back(q->z), out.push_back(q->w);
            break;
        }
        case K_TIME: out.push_back(timev(s)); break;
        case K_DISC: out.push_back(discv(s)); break;
        default:
            for (size_t i = 0; i < n.kids.size(); ++i) toReals(*n.kids[i], sub(n, s, i), out);
    }
}
static std::vector<double> reals(const Node &n, const State *s)
{
    std::vector<double> v;
    toReals(n, s, v);
    return v;
}
// range of every coordinate of toReals (for normalised validity predicates)
static void coordRanges(const Node &n, std::vector<double> &lo, std::vector<double> &hi)
{
    switch (n.kind)
    {
        case K_RV:
            for (size_t i = 0; i < n.lo.size(); ++i) lo.push_back(n.lo[i]), hi.push_back(n.hi[i]);
            break;
        case K_SO2: lo.push_back(-PI), hi.push_back(PI); break;
        case K_SO3:
            for (int i = 0; i < 4; ++i) lo.push_back(-1), hi.push_back(1);
            break;
        case K_TIME:
            if (n.bounded) lo.push_back(n.lo[0]), hi.push_back(n.hi[0]);
            else lo.push_back(-1), hi.push_back(1);
            break;
        case K_DISC: lo.push_back(n.dlo), hi.push_back(n.dhi); break;
        default:
            for (auto &k : n.kids) coordRanges(*k, lo, hi);
    }
}

static double wrapPi(double v)
{
    v = std::fmod(v, 2.0 * PI);
    if (v < -PI) v += 2.0 * PI;
    else if (v >= PI) v -= 2.0 * PI;
    if (!(v < PI)) v = std::nextafter(PI, 0.0);
    return v;
}
static double so2dist(double a, double b)
{
    double d = std::fabs(a - b);
    return d > PI ? 2.0 * PI - d : d;
}
static double ulpOf(double v) { return std::nextafter(std::fabs(v), INFINITY) - std::fabs(v); }

struct Qt
{
    double x, y, z, w;
};
static Qt qmul(const Qt &a, const Qt &b)
{
    return {a.w * b.x + a.x * b.w + a.y * b.z - a.z * b.y, a.w * b.y + a.y * b.w + a.z * b.x - a.x * b.z,
            a.w * b.z + a.z * b.w + a.x * b.y - a.y * b.x, a.w * b.w - a.x * b.x - a.y * b.y - a.z * b.z};
}
static Qt qnormalize(Qt q)
{
    double n = std::sqrt(q.x * q.x + q.y * q.y + q.z * q.z + q.w * q.w);
    if (n == 0) return {0, 0, 0, 1};
    return {q.x / n, q.y / n, q.z / n, q.w / n};
}
static Qt qrand(Rng &r) { return qnormalize({r.gauss(), r.gauss(), r.gauss(), r.gauss()}); }
static Qt qaxis(Rng &r, double angle)
{
    double ax = r.gauss(), ay = r.gauss(), az = r.gauss(), n = std::sqrt(ax * ax + ay * ay + az * az);
    if (n < 1e-9) ax = 1, ay = az = 0, n = 1;
    double s = std::sin(angle / 2) / n;
    return {ax * s, ay * s, az * s, std::cos(angle / 2)};
}
static Qt getQ(const State *s)
{
    auto *q = s->as<ob::SO3StateSpace::StateType>();
    return {q->x, q->y, q->z, q->w};
}
static void setQ(State *s, const Qt &q)
{
    auto *p = s->as<ob::SO3StateSpace::StateType>();
    p->x = q.x, p->y = q.y, p->z = q.z, p->w = q.w;
}
static double qdot(const Qt &a, const Qt &b) { return a.x * b.x + a.y * b.y + a.z * b.z + a.w * b.w; }

static double so2Special(Rng &r)
{
    static const double V[] = {-PI, std::nextafter(-PI, 0.0), -PI + 1e-12, -PI + 1e-6, std::nextafter(PI, 0.0), PI - 1e-12,
                               PI - 1e-6, 0.0, 1e-9, -1e-9, 0.5 * PI, -0.5 * PI, 3.0, -3.0, 1.0, -1.0};
    return V[r.ui(sizeof(V) / sizeof(double))];
}
static double so2Plus(Rng &r)
{
    static const double V[] = {std::nextafter(PI, 0.0), PI - 1e-12, PI - 1e-6};
    return V[r.ui(3)];
}
static double so2Minus(Rng &r)
{
    static const double V[] = {-PI, std::nextafter(-PI, 0.0), -PI + 1e-12, -PI + 1e-6};
    return V[r.ui(4)];
}
static double genCoord(Rng &r, double lo, double hi)
{
    if (!(lo < hi)) return lo;
    switch (r.ui(8))
    {
        case 0: return lo;
        case 1: return hi;
        case 2: return lo + (hi - lo) * 1e-9;
        case 3: return std::min(hi, std::max(lo, lo + (hi - lo) * 0.5));
        default: return std::min(hi, std::max(lo, r.uni(lo, hi)));
    }
}
static double genTimeUnb(Rng &r)
{
    static const double V[] = {0.0, 1.0, -1.0, 1e3, -1e3, 1e-9, 0.5};
    return r.coin(0.5) ? V[r.ui(7)] : r.uni(-100, 100);
}

// one in-bounds state (mix of uniform and special values per leaf)
static void genState(const Node &n, State *s, Rng &r)
{
    switch (n.kind)
    {
        case K_RV:
        {
            bool corner = r.coin(0.15);
            for (size_t i = 0; i < n.lo.size(); ++i)
                rvv(s)[i] = corner ? (r.coin() ? n.lo[i] : n.hi[i]) : genCoord(r, n.lo[i], n.hi[i]);
            break;
        }
        case K_SO2: so2v(s) = r.coin(0.5) ? wrapPi(r.uni(-PI, PI)) : so2Special(r); break;
        case K_SO3:
        {
            Qt q;
            switch (r.ui(10))
            {
                case 0: q = {0, 0, 0, 1}; break;
                case 1: q = {1, 0, 0, 0}; break;
                case 2: q = {0, 1, 0, 0}; break;
                case 3: q = qnormalize({r.gauss(), r.gauss(), r.gauss(), 0}); break;  // half-turn
                case 4: q = qaxis(r, r.logUni(1e-9, 1e-2)); break;                      // tiny rotation
                default: q = qrand(r);
            }
            if (r.coin(0.3)) q = {-q.x, -q.y, -q.z, -q.w};
            setQ(s, q);
            break;
        }
        case K_TIME: timev(s) = n.bounded ? genCoord(r, n.lo[0], n.hi[0]) : genTimeUnb(r); break;
        case K_DISC:
        {
            uint64_t m = r.ui(5);
            discv(s) = m == 0 ? n.dlo : m == 1 ? n.dhi : n.dlo + (int)r.ui((uint64_t)(n.dhi - n.dlo) + 1);
            break;
        }
        default:
            for (size_t i = 0; i < n.kids.size(); ++i) genState(*n.kids[i], sub(n, s, i), r);
    }
}

// b = a moved by a tiny amount (nearly coincident); stays in bounds
static void perturbLeaf(const Node &n, const State *a, State *b, Rng &r)
{
    n.sp->copyState(b, a);
    static const double E[] = {0, 1e-15, 1e-12, 1e-9, 1e-7};
    double e = E[r.ui(5)];
    switch (n.kind)
    {
        case K_RV:
        case K_TIME:
        {
            size_t dim = n.kind == K_RV ? n.lo.size() : 1;
            size_t i = r.ui(dim);
            double &v = n.kind == K_RV ? rvv(b)[i] : timev(b);
            double d = std::max(ulpOf(v), e * std::max(1.0, std::fabs(v)));
            if (n.kind == K_TIME && !n.bounded)
            {
                v += r.coin() ? d : -d;
                break;
            }
            double lo = n.lo[i], hi = n.hi[i];
            if (r.coin() && v + d <= hi) v += d;
            else if (v - d >= lo) v -= d;
            else if (v + d <= hi) v += d;
            break;
        }
        case K_SO2:
        {
            double v = so2v(b), d = std::max(ulpOf(v == 0 ? 1e-300 : v), e);
            so2v(b) = wrapPi(r.coin() ? v + d : v - d);
            break;
        }
        case K_SO3:
        {
            static const double A[] = {1e-12, 1e-9, 1e-7, 1e-5, 8e-5, 1e-4};
            setQ(b, qnormalize(qmul(getQ(a), qaxis(r, A[r.ui(6)]))));
            break;
        }
        default: break;  // DISC: copy
    }
}

enum Rel
{
    R_INDEP, R_COPY, R_TINY, R_SEAM, R_ANTI, R_COUNT
};
// generates the pair (a,b) in relation rel; every leaf follows the relation with probability 0.7
static void genPair(const Node &n, State *a, State *b, int rel, Rng &r)
{
    if ((n.kind == K_DUBINS || n.kind == K_RS) && r.coin(0.12))
    {
        // b straight ahead of a with the same heading (collinear triples come from T_BETWEEN)
        genState(n, a, r);
        n.sp->copyState(b, a);
        const Node &rv = *n.kids[0];
        double x = n.radius * r.logUni(1e-3, 3.0), th = so2v(sub(n, a, 1));
        double *pb = rvv(sub(n, b, 0));
        double nx = pb[0] + x * std::cos(th), ny = pb[1] + x * std::sin(th);
        if (nx >= rv.lo[0] && nx <= rv.hi[0] && ny >= rv.lo[1] && ny <= rv.hi[1]) pb[0] = nx, pb[1] = ny;
        return;
    }
    if (n.composite())
    {
        for (size_t i = 0; i < n.kids.size(); ++i) genPair(*n.kids[i], sub(n, a, i), sub(n, b, i), rel, r);
        return;
    }
    if (!r.coin(0.7))
    {
        static const int ALT[] = {R_INDEP, R_COPY, R_TINY};
        rel = ALT[r.ui(3)];
    }
    switch (rel)
    {
        case R_COPY:
            genState(n, a, r);
            n.sp->copyState(b, a);
            return;
        case R_TINY:
            genState(n, a, r);
            perturbLeaf(n, a, b, r);
            return;
        case R_SEAM:
            switch (n.kind)
            {
                case K_SO2:
                    so2v(a) = so2Plus(r), so2v(b) = so2Minus(r);
                    if (r.coin()) std::swap(so2v(a), so2v(b));
                    return;
                case K_RV:
                    for (size_t i = 0; i < n.lo.size(); ++i)
                    {
                        bool up = r.coin();
                        rvv(a)[i] = up ? n.lo[i] : n.hi[i], rvv(b)[i] = up ? n.hi[i] : n.lo[i];
                    }
                    return;
                case K_TIME:
                    if (n.bounded)
                    {
                        timev(a) = n.lo[0], timev(b) = n.hi[0];
                        return;
                    }
                    break;
                case K_DISC: discv(a) = n.dlo, discv(b) = n.dhi; return;
                default: break;
            }
            /* fall through: SO3 and unbounded time use the antipodal relation */
        case R_ANTI:
            if (n.kind == K_SO2)
            {
                static const double E[] = {0, 0, 0, 1e-12, -1e-12, 1e-9, -1e-9, 1e-7, -1e-7, 1e-6, -1e-6, 2e-6, -2e-6, 1e-3, -1e-3};
                genState(n, a, r);
                so2v(b) = wrapPi(so2v(a) + PI + E[r.ui(sizeof(E) / sizeof(double))]);
                return;
            }
            if (n.kind == K_SO3)
            {
                genState(n, a, r);
                Qt qa = getQ(a), qb;
                static const double E[] = {0, 0, 2e-9, -2e-9, 2e-7, -2e-7, 1e-6, -1e-6, 4e-6, 1e-4, -1e-4};
                uint64_t m = r.ui(4);
                if (m == 0) qb = {-qa.x, -qa.y, -qa.z, -qa.w};                                     // same rotation
                else if (m == 1) qb = qnormalize(qmul({-qa.x, -qa.y, -qa.z, -qa.w}, qaxis(r, r.logUni(1e-9, 1e-3))));
                else qb = qnormalize(qmul(qa, qaxis(r, PI + E[r.ui(sizeof(E) / sizeof(double))])));  // dot ~ 0
                setQ(b, qb);
                return;
            }
            /* fall through */
        default:
            genState(n, a, r);
            genState(n, b, r);
    }
}

enum TRel
{
    T_INDEP, T_BETWEEN, T_NEAR_A, T_NEAR_B, T_FAR, T_COUNT
};
static void genThird(const Node &n, const State *a, const State *b, State *c, int trel, Rng &r)
{
    if (n.composite())
    {
        for (size_t i = 0; i < n.kids.size(); ++i) genThird(*n.kids[i], sub(n, a, i), sub(n, b, i), sub(n, c, i), trel, r);
        return;
    }
    if (!r.coin(0.75)) trel = T_INDEP;
    switch (trel)
    {
        case T_NEAR_A: perturbLeaf(n, a, c, r); return;
        case T_NEAR_B: perturbLeaf(n, b, c, r); return;
        case T_BETWEEN:
        {
            double s = r.coin(0.4) ? 0.5 : r.u01();
            switch (n.kind)
            {
                case K_RV:
                    for (size_t i = 0; i < n.lo.size(); ++i)
                        rvv(c)[i] = std::min(n.hi[i], std::max(n.lo[i], rvv(a)[i] + (rvv(b)[i] - rvv(a)[i]) * s));
                    return;
                case K_TIME:
                {
                    double v = timev(a) + (timev(b) - timev(a)) * s;
                    if (n.bounded) v = std::min(n.hi[0], std::max(n.lo[0], v));
                    timev(c) = v;
                    return;
                }
                case K_SO2:
                {
                    double d = so2v(b) - so2v(a);
                    if (d > PI) d -= 2 * PI;
                    else if (d < -PI) d += 2 * PI;
                    so2v(c) = wrapPi(so2v(a) + d * s);
                    return;
                }
                case K_DISC: discv(c) = (int)std::floor(discv(a) + (discv(b) - (double)discv(a)) * s + 0.5); return;
                default: break;
            }
            break;
        }
        case T_FAR:
            if (n.kind == K_SO2)
            {
                so2v(c) = wrapPi(so2v(a) + PI * r.uni(0.4, 1.0) * (r.coin() ? 1 : -1));
                return;
            }
            if (n.kind == K_RV)
            {
                for (size_t i = 0; i < n.lo.size(); ++i)
                    rvv(c)[i] = (rvv(a)[i] - n.lo[i] > n.hi[i] - rvv(a)[i]) ? n.lo[i] : n.hi[i];
                return;
            }
            break;
        default: break;
    }
    genState(n, c, r);
}

// b = a with exactly one chart coordinate displaced by a clearly resolvable amount, in a component reached through
// positive weights only (DESIGN 2.4 "strict positivity"). Returns false when no such displacement exists.
static bool separate(const Node &n, const State *a, State *b, Rng &r)
{
    n.sp->copyState(b, a);
    switch (n.kind)
    {
        case K_RV:
        case K_TIME:
        {
            if (n.kind == K_TIME && !n.bounded)
            {
                timev(b) += r.logUni(1e-6, 1e-2) * (r.coin() ? 1 : -1);
                return true;
            }
            size_t dim = n.kind == K_RV ? n.lo.size() : 1;
            std::vector<size_t> ok;
            for (size_t i = 0; i < dim; ++i)
                if (n.lo[i] < n.hi[i]) ok.push_back(i);
            if (ok.empty()) return false;
            size_t i = r.pick(ok);
            double &v = n.kind == K_RV ? rvv(b)[i] : timev(b);
            double d = (n.hi[i] - n.lo[i]) * r.logUni(1e-6, 1e-2);
            v = (v + d <= n.hi[i]) ? v + d : v - d;
            return true;
        }
        case K_SO2: so2v(b) = wrapPi(so2v(b) + PI * r.logUni(1e-6, 1e-2) * (r.coin() ? 1 : -1)); return true;
        case K_SO3:
        {
            double dist = r.logUni(4.5e-4, 1.6e-2);  // >= 10 x the declared SO(3) resolution
            setQ(b, qnormalize(qmul(getQ(a), qaxis(r, 2 * dist))));
            return true;
        }
        case K_DISC: discv(b) = discv(b) < n.dhi ? discv(b) + 1 : discv(b) - 1; return n.dlo < n.dhi;
        case K_SPHERE:
        {
            // move phi (kid 1, [0,pi]) by >= 1e-5 rad: resolvable by the float evaluation, independent of the poles
            double &phi = rvv(sub(n, b, 1))[0];
            double d = PI * r.logUni(1e-5, 1e-2);
            phi = (phi + d <= PI) ? phi + d : phi - d;
            return true;
        }
        case K_DUBINS:
        case K_RS:
        {
            // coincidence threshold of the Dubins family is 1e-6 (in units of rho): stay >= 1e-4
            if (r.coin())
            {
                const Node &rv = *n.kids[0];
                double &x = rvv(sub(n, b, 0))[0];
                double d = std::min(rv.hi[0] - rv.lo[0], std::max(1.0, n.radius)) * r.logUni(1e-4, 1e-2);
                x = (x + d <= rv.hi[0]) ? x + d : x - d;
            }
            else
                so2v(sub(n, b, 1)) = wrapPi(so2v(sub(n, b, 1)) + r.logUni(1e-4, 1e-2) * (r.coin() ? 1 : -1));
            return true;
        }
        default:
        {
            std::vector<size_t> ok;
            for (size_t i = 0; i < n.kids.size(); ++i)
                if (n.w[i] > 0) ok.push_back(i);
            if (ok.empty()) return false;
            size_t i = r.pick(ok);
            return separate(*n.kids[i], sub(n, a, i), sub(n, b, i), r);
        }
    }
}

// finite but wild input for enforceBounds
static void genWild(const Node &n, State *s, Rng &r)
{
    switch (n.kind)
    {
        case K_RV:
        case K_TIME:
        {
            size_t dim = n.kind == K_RV ? n.lo.size() : 1;
            for (size_t i = 0; i < dim; ++i)
            {
                double lo = n.bounded ? n.lo[i] : -1, hi = n.bounded ? n.hi[i] : 1, v;
                switch (r.ui(10))
                {
                    case 0: v = lo; break;
                    case 1: v = hi; break;
                    case 2: v = std::nextafter(hi, INFINITY); break;
                    case 3: v = std::nextafter(lo, -INFINITY); break;
                    case 4: v = hi + 1; break;
                    case 5: v = (r.coin() ? 1 : -1) * 1e12; break;
                    case 6: v = (r.coin() ? 1 : -1) * r.logUni(1e-3, 1e12); break;
                    case 7: v = lo - 10 * (hi - lo) * r.u01(); break;
                    default: v = genCoord(r, lo, hi);
                }
                (n.kind == K_RV ? rvv(s)[i] : timev(s)) = v;
            }
            break;
        }
        case K_SO2:
        {
            double v;
            switch (r.ui(10))
            {
                case 0: v = PI; break;
                case 1: v = -PI; break;
                case 2: v = std::nextafter(PI, 4.0); break;
                case 3: v = std::nextafter(-PI, -4.0); break;
                case 4: v = (r.coin() ? 3 : -3) * PI; break;
                case 5: v = so2Special(r) + 2 * PI * (double)((long)r.ui(2000001) - 1000000); break;
                case 6: v = r.uni(-PI, PI) + 2 * PI * (double)((long)r.ui(2000001) - 1000000); break;
                case 7: v = (r.coin() ? 1 : -1) * 2 * PI * 1e6; break;
                case 8: v = (r.coin() ? 1 : -1) * PI * (double)r.range(1, 1000); break;
                default: v = so2Special(r);
            }
            so2v(s) = v;
            break;
        }
        case K_SO3:
        {
            Qt q = qrand(r);
            double f;
            switch (r.ui(10))
            {
                case 0: q = {0, 0, 0, 0}, f = 1; break;
                case 1: f = r.logUni(1e-8, 1e8); break;
                case 2: f = 1e-8; break;
                case 3: f = 1e8; break;
                case 4: f = 1 + (r.coin() ? 1 : -1) * r.logUni(1e-10, 1e-6); break;  // around both renormalisation thresholds
                case 5: f = r.logUni(5e-4, 2e-3); break;                             // around the nrmsq < 1e-6 switch
                case 6: q = {r.uni(-2, 2), r.uni(-2, 2), r.uni(-2, 2), r.uni(-2, 2)}, f = 1; break;
                default: f = 1;
            }
            setQ(s, {q.x * f, q.y * f, q.z * f, q.w * f});
            break;
        }
        case K_DISC:
        {
            switch (r.ui(7))
            {
                case 0: discv(s) = n.dlo - 1; break;
                case 1: discv(s) = n.dhi + 1; break;
                case 2: discv(s) = INT_MIN; break;
                case 3: discv(s) = INT_MAX; break;
                case 4: discv(s) = (int)((long long)r.ui(4000000001ULL) - 2000000000LL); break;
                default: discv(s) = n.dlo + (int)r.ui((uint64_t)(n.dhi - n.dlo) + 1);
            }
            break;
        }
        default:
            for (size_t i = 0; i < n.kids.size(); ++i) genWild(*n.kids[i], sub(n, s, i), r);
    }
}

// ---- bounds, with the tolerance policy of DESIGN 2.4 --------------------------------------------------
// RealVector / Time: satisfiesBounds has an absolute machine-epsilon margin; additionally 4 ulp of the magnitude of the
// dimension's bounds are allowed. headingOnly: Dubins / Reeds-Shepp interpolants are judged on the heading (DESIGN C07).
// owner = deepest space with a sampler class of its own that contains the offending leaf.
struct Oob
{
    const Node *leaf = nullptr, *owner = nullptr;
};
static bool inBounds(const Node &n, const State *s, bool headingOnly, Oob *o = nullptr, const Node *owner = nullptr)
{
    if (n.kind == K_TORUS || n.kind == K_SPHERE || n.kind == K_KLEIN) owner = &n;
    auto fail = [&]() {
        if (o) o->leaf = &n, o->owner = owner ? owner : &n;
        return false;
    };
    switch (n.kind)
    {
        case K_RV:
        case K_TIME:
        {
            if (n.kind == K_TIME && !n.bounded) return std::isfinite(timev(s)) ? true : fail();
            size_t dim = n.kind == K_RV ? n.lo.size() : 1;
            for (size_t i = 0; i < dim; ++i)
            {
                double v = n.kind == K_RV ? rvv(s)[i] : timev(s);
                double slack = DEPS + 4 * DEPS * std::max(std::fabs(n.lo[i]), std::fabs(n.hi[i]));
                if (!(v >= n.lo[i] - slack && v <= n.hi[i] + slack)) return fail();
            }
            return true;
        }
        case K_SO2:
        case K_SO3:
        case K_DISC: return n.sp->satisfiesBounds(s) ? true : fail();
        case K_DUBINS:
        case K_RS:
            if (headingOnly) return inBounds(*n.kids[1], sub(n, s, 1), headingOnly, o, owner);
            /* fall through */
        default:
            for (size_t i = 0; i < n.kids.size(); ++i)
                if (!inBounds(*n.kids[i], sub(n, s, i), headingOnly, o, owner)) return false;
            return true;
    }
}
// ---- tolerances (DESIGN 2.4) --------------------------------------------------------------------------
static double sane(double d) { return std::isfinite(d) ? std::fabs(d) : 0.0; }
// absolute slack of one distance evaluation in n beyond rounding: declared resolutions of the leaf spaces
static double slack(const Node &n, const State *x, const State *y)
{
    switch (n.kind)
    {
        case K_SO3: return 1e-4;
        case K_SPHERE: return 1e-3 * n.radius;
        case K_DUBINS:
        case K_RS:
        {
            double d = std::max(sane(n.sp->distance(x, y)), sane(n.sp->distance(y, x)));
            return 1e-5 * n.radius * (1 + d / n.radius);
        }
        case K_RV:
        case K_SO2:
        case K_TIME:
        case K_DISC:
        case K_TORUS: return 0;
        default:
        {
            double s = 0;
            for (size_t i = 0; i < n.kids.size(); ++i)
                if (n.w[i] > 0 && (n.kids[i]->hasSO3 || n.kids[i]->hasDubins || n.kids[i]->kind == K_SPHERE || n.kids[i]->composite()))
                    s += n.w[i] * slack(*n.kids[i], sub(n, x, i), sub(n, y, i));
            return s;
        }
    }
}
static double extentOf(const Node &n)
{
    double e = n.sp->getMaximumExtent();
    return std::isfinite(e) ? e : 0;
}
static double tolD(const Node &n, const State *x, const State *y, double dmag)
{
    return 1e-9 * (1 + std::max(extentOf(n), sane(dmag))) + slack(n, x, y);
}
// resolution of the integer-valued leaves seen through the weights (re-parameterisation clause)
static double discSlack(const Node &n)
{
    if (n.kind == K_DISC) return 1;
    double s = 0;
    for (size_t i = 0; i < n.kids.size(); ++i)
        if (n.kids[i]->hasDisc) s += (n.kind == K_WRAPPER ? 1.0 : n.w[i]) * discSlack(*n.kids[i]);
    return s;
}

// ---- attribution --------------------------------------------------------------------------------------
struct Ev
{
    bool viol = false;
    double excess = 0, tol = 0;
    bool skipped = false;
};
struct Attr
{
    const Node *n;
    const State *a, *b, *c;
};
// f(node, a, b, c) -> Ev evaluates one clause inside `node`. The violation found in n is passed down to the deepest
// component that violates the same clause on its own sub-states (or, under a weighted sum, explains half of the excess).
template <class F>
static Attr attribute(const Node &n, const State *a, const State *b, const State *c, double parentExcess, const F &f,
                      bool (*sumRule)(const Node &) = nullptr)
{
    // sumRule(n)==false: the clause was decided component by component in n, only a component's own violation counts
    bool half = n.plainSum && std::isfinite(parentExcess) && (!sumRule || sumRule(n));
    int best = -1;
    double bestScore = -1;
    Ev bestEv;
    for (size_t i = 0; i < n.kids.size(); ++i)
    {
        const Node &k = *n.kids[i];
        Ev e = f(k, a ? sub(n, a, i) : nullptr, b ? sub(n, b, i) : nullptr, c ? sub(n, c, i) : nullptr);
        bool resp = e.viol || (half && e.excess > 0 && n.w[i] * e.excess >= 0.5 * parentExcess);
        if (!resp) continue;
        double score = (e.viol ? 1e300 : 0) + n.w[i] * sane(e.excess);
        if (score > bestScore) bestScore = score, best = (int)i, bestEv = e;
    }
    if (best >= 0)
    {
        size_t i = (size_t)best;
        return attribute(*n.kids[i], a ? sub(n, a, i) : nullptr, b ? sub(n, b, i) : nullptr, c ? sub(n, c, i) : nullptr, bestEv.excess, f, sumRule);
    }
    return {&n, a, b, c};
}
static J witness(const Node &top, const Attr &at)
{
    J j;
    j.str("space", at.n->sig);
    if (at.n != &top) j.str("top_space", top.sig.substr(0, 400));
    if (at.a) j.arr("a", reals(*at.n, at.a));
    if (at.b) j.arr("b", reals(*at.n, at.b));
    if (at.c) j.arr("c", reals(*at.n, at.c));
    return j;
}
struct StateSet
{
    const Node &n;
    std::vector<State *> v;
    StateSet(const Node &node, size_t k) : n(node)
    {
        for (size_t i = 0; i < k; ++i) v.push_back(n.sp->allocState());
    }
    ~StateSet()
    {
        for (auto *s : v) n.sp->freeState(s);
    }
    State *operator[](size_t i) { return v[i]; }
};
struct Counters
{
    std::map<const char *, long long> m;  // keyed by the address of the literal (cheap); merged by name on flush
    void add(const char *k, long long n = 1) { m[k] += n; }
    void flush(Sink &s)
    {
        for (auto &kv : m) s.count(kv.first, kv.second);
    }
};
static uint64_t caseHash(const Args &a, long c, const Node &n) { return hmix(hashStr(n.sig), caseSeed(a, c)); }

// =====================================================================================================
// C06 metric laws
// =====================================================================================================
namespace c06
{
    struct D6
    {
        double ab, ba, bc, cb, ac, ca, aa;
        double mx() const { return std::max({sane(ab), sane(ba), sane(bc), sane(cb), sane(ac), sane(ca)}); }
    };
    static D6 dist6(const Node &n, const State *a, const State *b, const State *c)
    {
        D6 d;
        const ob::StateSpace &S = *n.sp;
        d.ab = S.distance(a, b), d.ba = S.distance(b, a), d.bc = S.distance(b, c), d.cb = S.distance(c, b);
        d.ac = S.distance(a, c), d.ca = S.distance(c, a), d.aa = S.distance(a, a);
        return d;
    }
    static double tol3(const Node &n, const State *a, const State *b, const State *c, double dmag)
    {
        double s = 0;
        if (n.hasSO3 || n.hasDubins || n.kind == K_SPHERE || n.composite())
            s = std::max({slack(n, a, b), slack(n, b, c), slack(n, a, c)});
        return 1e-9 * (1 + std::max(extentOf(n), sane(dmag))) + s;
    }
    enum Clause
    {
        NEGATIVE, SELF, SUM, SYMMETRY, EXTENT, TRIANGLE, POSITIVITY, REPEQ, ZEROEQ
    };
    // REPEQ and ZEROEQ are the two other faces of "strictly positive between states that are not equal":
    //  REPEQ  (a,b) are two representations of the same point built exactly by the harness (quaternion q and -q, everything
    //         else bit-identical): the distance must vanish and equalStates must hold;
    //  ZEROEQ a leaf component at distance exactly 0 must be equalStates (SO2 pairs straddling the seam are exempt, DESIGN 2.4).
    static const char *CNAME[] = {"negative", "self-distance", "compound-sum", "symmetry", "extent", "triangle", "positivity",
                                  "positivity", "positivity"};
    static const char *CDETAIL[] = {"", "", "", "", "", "", "clearly separated pair at distance 0",
                                    "antipodal identification: b is a with the quaternion(s) negated exactly (same rotation), "
                                    "everything else bit-identical; distance must be <= tol and equalStates true",
                                    "a component at distance exactly 0 whose states are not equalStates (distance 0 between unequal states)"};

    // leaf-level law d == 0 => equalStates; counts the leaf pairs at distance 0 it examined and the exempt seam pairs
    static bool zeroEqWalk(const Node &n, const State *x, const State *y, long *examined, long *seamExempt)
    {
        if (n.composite())
        {
            bool v = false;
            for (size_t i = 0; i < n.kids.size(); ++i) v |= zeroEqWalk(*n.kids[i], sub(n, x, i), sub(n, y, i), examined, seamExempt);
            return v;
        }
        const ob::StateSpace &S = *n.sp;
        if (!(S.distance(x, y) == 0 || S.distance(y, x) == 0)) return false;
        if (examined) ++*examined;
        if (S.equalStates(x, y) && S.equalStates(y, x)) return false;
        if (n.kind == K_SO2 && std::fabs(so2v(x) - so2v(y)) > PI)
        {
            if (seamExempt) ++*seamExempt;
            return false;
        }
        return true;
    }

    static Ev eval(const Node &n, int cl, const State *a, const State *b, const State *c)
    {
        Ev e;
        const ob::StateSpace &S = *n.sp;
        switch (cl)
        {
            case NEGATIVE:
            {
                D6 d = dist6(n, a, b, c);
                for (double v : {d.ab, d.ba, d.bc, d.cb, d.ac, d.ca, d.aa})
                    if (!(v >= 0)) e.viol = true, e.excess = std::isnan(v) ? 1 : std::max(e.excess, -v);
                break;
            }
            case SELF:
            {
                double d = std::max({S.distance(a, a), S.distance(b, b), S.distance(c, c)});
                e.excess = d, e.tol = tol3(n, a, a, a, 0);
                e.viol = !(d <= e.tol);
                break;
            }
            case SUM:
            {
                if (!n.plainSum) break;
                double d = S.distance(a, b), sum = 0;
                for (size_t i = 0; i < n.kids.size(); ++i) sum += n.w[i] * n.kids[i]->sp->distance(sub(n, a, i), sub(n, b, i));
                e.excess = std::fabs(d - sum), e.tol = 1e-9 * (1 + std::max(extentOf(n), sane(d)));
                e.viol = !(e.excess <= e.tol);
                break;
            }
            case SYMMETRY:
            {
                if (!S.hasSymmetricDistance()) break;
                D6 d = dist6(n, a, b, c);
                e.excess = std::max({std::fabs(d.ab - d.ba), std::fabs(d.bc - d.cb), std::fabs(d.ac - d.ca)});
                e.tol = tol3(n, a, b, c, d.mx());
                e.viol = !(e.excess <= e.tol);
                break;
            }
            case EXTENT:
            {
                double ext = S.getMaximumExtent();
                // an unbounded time component has the documented placeholder extent 1: no upper bound is claimed
                if (n.hasUnbTime || !std::isfinite(ext)) break;
                D6 d = dist6(n, a, b, c);
                e.excess = d.mx() - ext, e.tol = tol3(n, a, b, c, d.mx());
                e.viol = !(e.excess <= e.tol);
                break;
            }
            case TRIANGLE:
            {
                if (!S.isMetricSpace()) break;
                D6 d = dist6(n, a, b, c);
                e.excess = std::max({d.ac - d.ab - d.bc, d.ab - d.ac - d.cb, d.bc - d.ba - d.ac, d.ca - d.cb - d.ba,
                                     d.ba - d.bc - d.ca, d.cb - d.ca - d.ab});
                e.tol = tol3(n, a, b, c, d.mx());
                e.viol = !(e.excess <= e.tol);
                break;
            }
            case POSITIVITY:
            {
                // (a,b) differ in exactly one clearly displaced coordinate; a component whose sub-states coincide is
                // not "separated" and is skipped by the caller through equalStates
                if (S.equalStates(a, b)) break;
                double d1 = S.distance(a, b), d2 = S.distance(b, a);
                e.viol = !(d1 > 0) || !(d2 > 0);
                e.excess = e.viol ? 1 : 0;
                break;
            }
            case REPEQ:
            {
                double d = std::max(S.distance(a, b), S.distance(b, a));
                e.excess = std::isnan(d) ? 1 : d, e.tol = tolD(n, a, b, d);
                e.viol = !(d <= e.tol) || !S.equalStates(a, b) || !S.equalStates(b, a);
                if (e.viol && e.excess == 0) e.excess = 1;
                break;
            }
            case ZEROEQ:
                e.viol = zeroEqWalk(n, a, b, nullptr, nullptr);
                e.excess = e.viol ? 1 : 0;
                break;
        }
        return e;
    }

    static void report(Sink &sink, const Node &top, int cl, const Ev &e, const State *a, const State *b, const State *c,
                       const char *note = nullptr)
    {
        bool boolean = cl == NEGATIVE || cl >= POSITIVITY;
        Attr at = attribute(top, a, b, c, boolean ? INFINITY : e.excess,
                            [cl](const Node &k, const State *x, const State *y, const State *z) { return eval(k, cl, x, y, z); });
        J j = witness(top, at);
        Ev le = eval(*at.n, cl, at.a, at.b, at.c);
        const ob::StateSpace &S = *at.n->sp;
        j.num("excess", le.excess).num("tol", le.tol).num("d_ab", S.distance(at.a, at.b)).num("d_ba", S.distance(at.b, at.a));
        if (at.c) j.num("d_bc", S.distance(at.b, at.c)).num("d_ac", S.distance(at.a, at.c));
        j.num("extent", S.getMaximumExtent()).b("isMetricSpace", S.isMetricSpace()).b("hasSymmetricDistance", S.hasSymmetricDistance());
        if (cl >= POSITIVITY) j.str("case", CDETAIL[cl]).b("equalStates_ab", S.equalStates(at.a, at.b)).b("equalStates_ba", S.equalStates(at.b, at.a));
        if (note) j.str("how", note);
        sink.viol(std::string("C06:") + CNAME[cl] + ":" + at.n->cls(), j);
    }

    // negates the quaternion of SO3 leaves exactly (each with probability 1/2, at least one); false if there is none
    static bool negateQuaternions(const Node &n, State *s, Rng &r, bool &any, bool force)
    {
        if (n.kind == K_SO3)
        {
            if (force || !any || r.coin())
            {
                auto *q = s->as<ob::SO3StateSpace::StateType>();
                q->x = -q->x, q->y = -q->y, q->z = -q->z, q->w = -q->w;
                any = true;
            }
            return true;
        }
        bool has = false;
        for (size_t i = 0; i < n.kids.size(); ++i)
            if (n.kids[i]->hasSO3) has |= negateQuaternions(*n.kids[i], sub(n, s, i), r, any, force);
        return has;
    }

    struct LoopStats
    {
        long done = 0;
        double worstTri = 0;
    };
    // The clause loop over generated triples of one (described) space. history != nullptr: second phase after the space was
    // re-parameterised behind its back (own counters, corner-heavy generator, the note goes into every witness).
    static LoopStats loop(Sink &sink, Counters &cnt, const Node &n, Rng &rng, long iters, const char *history)
    {
        LoopStats ls;
        StateSet st(n, 5);
        State *a = st[0], *b = st[1], *cc = st[2], *b2 = st[3], *y = st[4];
        auto smp = n.sp->allocStateSampler();
        double ext = extentOf(n);
        // margin statistic only over spaces without a Mobius / Klein component (their sub-tolerance violations would dominate it)
        bool glued = n.sig.find("Mobius") != std::string::npos || n.sig.find("Klein") != std::string::npos;
        for (long it = 0; it < iters; ++it)
        {
            int rel, trel = (int)rng.ui(T_COUNT);
            double x = rng.u01();
            bool viaSampler = false;
            if (history)
            {
                // opposite corners reach the extent of the enlarged space
                if (x < 0.55) rel = R_SEAM;
                else if (x < 0.80) rel = R_INDEP;
                else rel = R_INDEP, viaSampler = true;
            }
            else if (x < 0.30) rel = R_INDEP;
            else if (x < 0.38) rel = R_COPY;
            else if (x < 0.50) rel = R_TINY;
            else if (x < 0.72) rel = R_SEAM;
            else if (x < 0.90) rel = R_ANTI;
            else rel = R_INDEP, viaSampler = true;
            if (viaSampler)
            {
                smp->sampleUniform(a);
                double dist = (ext > 0 ? ext : 1) * rng.logUni(1e-9, 10);
                if (n.hasDisc) dist = std::min(dist, 1e9);
                switch (rng.ui(3))
                {
                    case 0: smp->sampleUniform(b); break;
                    case 1: smp->sampleUniformNear(b, a, dist); break;
                    default: smp->sampleGaussian(b, a, dist);
                }
                if (!history) cnt.add("c06_pairs_from_samplers");
            }
            else
                genPair(n, a, b, rel, rng);
            genThird(n, a, b, cc, trel, rng);
            if (!n.sp->satisfiesBounds(a) || !n.sp->satisfiesBounds(b) || !n.sp->satisfiesBounds(cc))
            {
                cnt.add(viaSampler ? "c06_skipped_sampler_state_out_of_bounds" : "c06_skipped_generated_state_out_of_bounds");
                continue;
            }
            ++ls.done;
            if (!history)
            {
                static const char *RN[] = {"c06_pairs_independent", "c06_pairs_coincident", "c06_pairs_nearly_coincident",
                                           "c06_pairs_seam_or_corner", "c06_pairs_antipodal"};
                if (!viaSampler) cnt.add(RN[rel]);
                static const char *TN[] = {"c06_triples_independent", "c06_triples_collinear", "c06_triples_near_a",
                                           "c06_triples_near_b", "c06_triples_far"};
                cnt.add(TN[trel]);
            }
            bool bad = false;
            for (int cl = NEGATIVE; cl <= TRIANGLE && !bad; ++cl)
            {
                Ev e = eval(n, cl, a, b, cc);
                if (e.viol)
                {
                    report(sink, n, cl, e, a, b, cc, history);
                    bad = true;  // abandon this triple: later clauses would report consequences
                }
                else if (cl == TRIANGLE && e.tol > 0 && !glued)
                    ls.worstTri = std::max(ls.worstTri, e.excess / e.tol);
            }
            if (bad) continue;
            if (history)
            {
                if (!n.hasUnbTime) cnt.add("c06_history_extent_checks", 6);
                if (n.plainSum) cnt.add("c06_history_compound_sum_checks");
            }
            else
            {
                if (n.plainSum) cnt.add("c06_compound_sum_checks");
                if (n.sp->hasSymmetricDistance()) cnt.add("c06_symmetry_checks", 3);
                if (n.sp->isMetricSpace()) cnt.add("c06_triangle_checks", 6);
                if (!n.hasUnbTime) cnt.add("c06_extent_checks", 6);
            }
            // nested weighted sums are checked at every level, not only at the root
            if (n.composite() && n.height > 1)
            {
                std::function<void(const Node &, const State *, const State *)> walk = [&](const Node &k, const State *x, const State *y) {
                    for (size_t i = 0; i < k.kids.size(); ++i)
                    {
                        const Node &q = *k.kids[i];
                        if (!q.composite()) continue;
                        if (q.plainSum)
                        {
                            Ev e = eval(q, SUM, sub(k, x, i), sub(k, y, i), nullptr);
                            cnt.add(history ? "c06_history_compound_sum_checks" : "c06_compound_sum_checks");
                            if (e.viol) report(sink, q, SUM, e, sub(k, x, i), sub(k, y, i), nullptr, history);
                        }
                        walk(q, sub(k, x, i), sub(k, y, i));
                    }
                };
                walk(n, a, b);
            }
            // statistic (not a verdict, DESIGN 2.4): unequal states at distance exactly zero at the root
            if (!n.sp->equalStates(a, b) && n.sp->distance(a, b) == 0) cnt.add("c06_stat_unequal_states_at_distance_zero");
            // distance exactly 0 => equalStates, leaf by leaf: on the generated pair ...
            {
                long examined = 0, seam = 0;
                bool v = zeroEqWalk(n, a, b, &examined, &seam);
                // ... and on pairs the library produces itself: interpolate(a,b,1) against b (SO3 returns -b when a.b < 0),
                // interpolate(a,b,0) against a
                n.sp->interpolate(a, b, 1.0, y);
                bool v1 = !v && zeroEqWalk(n, y, b, &examined, &seam);
                if (v1) report(sink, n, ZEROEQ, Ev{true, 1, 0, false}, y, b, nullptr, "a = interpolate(from, to = b, 1.0)");
                n.sp->interpolate(a, b, 0.0, y);
                bool v0 = !v && !v1 && zeroEqWalk(n, y, a, &examined, &seam);
                if (v0) report(sink, n, ZEROEQ, Ev{true, 1, 0, false}, y, a, nullptr, "a = interpolate(from = b, to, 0.0)");
                if (v) report(sink, n, ZEROEQ, Ev{true, 1, 0, false}, a, b, nullptr, history);
                cnt.add("c06_zero_distance_leaf_pairs_examined", examined);
                cnt.add("c06_stat_seam_pairs_at_distance_zero_exempt", seam);
                cnt.add("c06_library_produced_pairs_checked", 2);
                if (v || v1 || v0) continue;
            }
            // antipodal identification: b2 = a with quaternion(s) negated exactly
            if (n.hasSO3)
            {
                n.sp->copyState(b2, a);
                bool any = false;
                negateQuaternions(n, b2, rng, any, rng.coin(0.3));
                cnt.add("c06_antipodal_identification_checks");
                Ev e = eval(n, REPEQ, a, b2, nullptr);
                if (e.viol)
                {
                    report(sink, n, REPEQ, e, a, b2, nullptr, history);
                    continue;
                }
            }
            // strict positivity on a clearly separated pair
            if (separate(n, a, b2, rng) && n.sp->satisfiesBounds(b2))
            {
                if (!history) cnt.add("c06_positivity_checks");
                Ev e = eval(n, POSITIVITY, a, b2, nullptr);
                if (e.viol) report(sink, n, POSITIVITY, e, a, b2, nullptr, history);
            }
        }
        return ls;
    }

    // ---- re-parameterisation history ----------------------------------------------------------------------------
    // After setup(): enlarge the bounds of a RealVector / Time / Discrete component by a factor 3..10 or raise a subspace
    // weight, directly on the component (the enclosing wrappers / compounds are not told), optionally setup() again.
    // getMaximumExtent() and distance() of every enclosing space must describe the space as it is now.
    struct Target
    {
        Node *n;
        int underWrapper;  // number of WrapperStateSpace nodes above the target
    };
    static void collectTargets(Node &n, const Node *parent, int wrappers, std::vector<Target> &bounds, std::vector<Target> &weights,
                               std::vector<Target> *dims = nullptr)
    {
        bool fixedChart = parent && (parent->kind == K_SPHERE || parent->kind == K_MOBIUS || parent->kind == K_KLEIN);
        if (!fixedChart && (n.kind == K_RV || (n.kind == K_TIME && n.bounded) || n.kind == K_DISC)) bounds.push_back({&n, wrappers});
        if (n.kind == K_COMPOUND || n.kind == K_SE2 || n.kind == K_SE3) weights.push_back({&n, wrappers});
        // a RealVector space that is the root or a member of a generic compound / wrapper may grow a dimension (the typed
        // compounds - SE(2), SE(3), Dubins ... - own the layout of their R^n part)
        if (dims && n.kind == K_RV && (!parent || parent->kind == K_COMPOUND || parent->kind == K_WRAPPER)) dims->push_back({&n, wrappers});
        for (auto &k : n.kids) collectTargets(*k, &n, wrappers + (n.kind == K_WRAPPER ? 1 : 0), bounds, weights, dims);
    }
    // addDimension() on a RealVector component after setup(); the new dimension is wider than anything the space had, so that the
    // extent reported before it would be wrong now. The documentation asks for a second setup().
    static std::string mutateDim(Rng &r, const Target &t)
    {
        Node &n = *t.n;
        double wmax = 0;
        for (size_t i = 0; i < n.lo.size(); ++i) wmax = std::max(wmax, n.hi[i] - n.lo[i]);
        if (!(wmax > 0)) wmax = 1;
        double width = std::min(1e7, wmax * r.uni(3, 10)), lo = -width * r.u01();
        n.sp->as<ob::RealVectorStateSpace>()->addDimension(lo, lo + width);
        return "RealVectorStateSpace::addDimension(" + fmtg(lo) + ", " + fmtg(lo + width) + ") on " + n.sig;
    }
    static void grow(Rng &r, double &lo, double &hi)
    {
        double w = hi - lo, f = r.uni(3, 10);
        if (!(w > 0)) w = 1;
        switch (r.ui(3))
        {
            case 0: lo -= 0.5 * (f - 1) * w, hi += 0.5 * (f - 1) * w; break;
            case 1: hi += (f - 1) * w; break;
            default: lo -= (f - 1) * w;
        }
    }
    static std::string mutate(Rng &r, const Target &t, bool weight)
    {
        Node &n = *t.n;
        if (weight)
        {
            auto *c = n.sp->as<ob::CompoundStateSpace>();
            size_t i = r.ui(n.kids.size());
            double w = n.w[i] > 0 ? std::min(1e4, n.w[i] * r.uni(3, 10)) : r.uni(1, 10);
            c->setSubspaceWeight((unsigned)i, w);
            return std::string(n.cls()) + "::setSubspaceWeight(" + std::to_string(i) + ", " + fmtg(n.w[i]) + " -> " + fmtg(w) + ")";
        }
        switch (n.kind)
        {
            case K_RV:
            {
                ob::RealVectorBounds b(n.lo.size());
                b.low = n.lo, b.high = n.hi;
                size_t forced = r.ui(n.lo.size());
                for (size_t i = 0; i < n.lo.size(); ++i)
                    if (i == forced || r.coin(0.6)) grow(r, b.low[i], b.high[i]);
                n.sp->as<ob::RealVectorStateSpace>()->setBounds(b);
                return "RealVectorStateSpace::setBounds(enlarged " + n.sig + ")";
            }
            case K_TIME:
            {
                double lo = n.lo[0], hi = n.hi[0];
                grow(r, lo, hi);
                n.sp->as<ob::TimeStateSpace>()->setBounds(lo, hi);
                return "TimeStateSpace::setBounds(enlarged " + n.sig + ")";
            }
            default:
            {
                double lo = n.dlo, hi = n.dhi;
                grow(r, lo, hi);
                n.sp->as<ob::DiscreteStateSpace>()->setBounds((int)std::floor(lo), (int)std::ceil(hi));
                return "DiscreteStateSpace::setBounds(enlarged " + n.sig + ")";
            }
        }
    }

    void runCase(Sink &sink, const Args &args, long c)
    {
        Rng rng(caseSeed(args, c));
        ompl::RNG::setSeed(caseSeed(args, c, 1) % 1000000000 + 1);
        Zoo zoo;
        int z = zooKindOfCase(c);
        // case 0 is the probe for a wrapped compound-type component (UBSan watches StateSpace::setup())
        if (!buildZoo(zoo, rng, c == 0 ? Z_PROBE_WRAPPED_COMPOUND : z, sink)) return;
        NodeP root = zoo.root;
        const Node &n = *root;
        Counters cnt;
        sink.count(std::string("c06_cases_") + ZNAME[z]);
        if (n.kind == K_COMPOUND)
        {
            sink.count("c06_compound_height_" + std::to_string(std::min(n.height, 4)));
            bool zero = false;
            for (double w : n.w) zero |= w == 0;
            if (zero) sink.count("c06_compound_with_zero_weight");
        }
        long iters = (n.hasDubins ? 300 : 2000);
        if (n.nleaves > 6) iters = iters * 6 / (long)n.nleaves;
        LoopStats ls = loop(sink, cnt, n, rng, iters, nullptr);
        cnt.add("c06_triples", ls.done);
        cnt.add("c06_distance_evaluations", ls.done * 30);

        // second phase: the same space after a re-parameterisation history
        std::vector<Target> bt, wt, dt;
        collectTargets(*root, nullptr, 0, bt, wt, &dt);
        long hdone = 0;
        std::string hist;
        if (!bt.empty() || !wt.empty())
        {
            double extBefore = n.sp->getMaximumExtent();
            int nmut = rng.coin(0.3) ? 2 : 1;
            bool underWrapper = false, didWeight = false, didBounds = false, didDim = false;
            for (int m = 0; m < nmut; ++m)
            {
                if (!dt.empty() && rng.coin(0.25))
                {
                    const Target &t = rng.pick(dt);
                    hist += (m ? "; " : "") + mutateDim(rng, t);
                    underWrapper |= t.underWrapper > 0;
                    didDim = true;
                }
                else
                {
                    bool weight = bt.empty() || (!wt.empty() && rng.coin(0.35));
                    const Target &t = weight ? rng.pick(wt) : rng.pick(bt);
                    hist += (m ? "; " : "") + mutate(rng, t, weight);
                    underWrapper |= t.underWrapper > 0;
                    (weight ? didWeight : didBounds) = true;
                }
                // the descriptor of the mutated node is refreshed below; a second mutation uses the fresh tree
                root = describe(n.sp, zoo.reg);
                bt.clear(), wt.clear(), dt.clear();
                collectTargets(*root, nullptr, 0, bt, wt, &dt);
            }
            // a changed dimension needs the second setup() (documented); bounds / weights are live either way
            bool resetup = didDim || rng.coin(0.35);
            if (didDim) cnt.add("c06_history_cases_dimension_added");
            if (resetup)
            {
                n.sp->setup();
                root = describe(n.sp, zoo.reg);
            }
            hist = "history: setup(); " + hist + (resetup ? "; setup() again" : "; no second setup()");
            const Node &h = *root;
            long hiters = (z == Z_WRAPPER || z == Z_COMPOUND) ? 300 : 120;
            if (h.hasDubins) hiters /= 3;
            if (h.nleaves > 6) hiters = hiters * 6 / (long)h.nleaves;
            hdone = loop(sink, cnt, h, rng, std::max(20L, hiters), hist.c_str()).done;
            cnt.add("c06_history_cases");
            cnt.add("c06_history_triples", hdone);
            if (didBounds) cnt.add("c06_history_cases_bounds_enlarged");
            if (didWeight) cnt.add("c06_history_cases_weight_raised");
            cnt.add(resetup ? "c06_history_cases_second_setup" : "c06_history_cases_no_second_setup");
            if (underWrapper) cnt.add(resetup ? "c06_history_cases_target_under_wrapper_second_setup" : "c06_history_cases_target_under_wrapper_no_second_setup");
            if (h.kind == K_WRAPPER) cnt.add("c06_history_cases_wrapper_root");
            if (h.kind == K_COMPOUND) cnt.add("c06_history_cases_compound_root");
            if (h.sp->getMaximumExtent() > extBefore * (1 + 1e-12)) cnt.add("c06_history_cases_extent_grew");
        }
        cnt.flush(sink);
        bool glued = n.sig.find("Mobius") != std::string::npos || n.sig.find("Klein") != std::string::npos;
        if (!glued) sink.maxstat("c06_triangle_worst_excess_over_tol_when_held", ls.worstTri);
        sink.noteCase(caseHash(args, c, n), ls.done >= 50);
        sink.sample(J().str("space", n.sig.substr(0, 300)).str("kind", ZNAME[z]).i("triples", ls.done).i("history_triples", hdone).str("history", hist.substr(0, 300))
                        .b("isMetricSpace", n.sp->isMetricSpace()).b("hasSymmetricDistance", n.sp->hasSymmetricDistance()));
    }
}  // namespace c06

// =====================================================================================================
// C07 interpolation
// =====================================================================================================
namespace c07
{
    enum Clause
    {
        ENDPOINT0, ENDPOINT1, BOUNDS, ALIAS_FROM, ALIAS_TO, REPARAM, SPEED
    };
    static const char *CNAME[] = {"endpoint0", "endpoint1", "bounds", "alias-from", "alias-to", "reparam", "constant-speed"};
    struct P
    {
        double t = 0.5, s = 0.5, u = 0.5;
    };

    static double mirrorV(double v) { return v > 0.0 ? PI - v : -PI - v; }
    // leaf by leaf: is (a,b) within 1e-6 of a locus where the shortest curve is not unique?
    static bool nearCut(const Node &n, const State *a, const State *b)
    {
        switch (n.kind)
        {
            case K_SO2: return std::fabs(so2dist(so2v(a), so2v(b)) - PI) < 1e-6;
            case K_SO3: return std::fabs(qdot(getQ(a), getQ(b))) < 1e-6;
            case K_KLEIN:
            {
                double du = std::fabs(rvv(sub(n, a, 0))[0] - rvv(sub(n, b, 0))[0]);
                double v1 = so2v(sub(n, a, 1)), v2 = so2v(sub(n, b, 1));
                return std::fabs(du - 0.5 * PI) < 1e-6 || std::fabs(so2dist(v1, v2) - PI) < 1e-6 ||
                       std::fabs(so2dist(v1, wrapPi(mirrorV(v2))) - PI) < 1e-6 || std::fabs(so2dist(wrapPi(mirrorV(v1)), v2) - PI) < 1e-6;
            }
            case K_DUBINS:
            case K_RS:
            {
                // below 10 x DUBINS_EPS / RS_EPS (in units of rho) the family treats two poses as coincident and
                // connects them by a straight stub whatever their lateral offset: below the declared resolution
                const double *pa = rvv(sub(n, a, 0)), *pb = rvv(sub(n, b, 0));
                return std::hypot(pa[0] - pb[0], pa[1] - pb[1]) / n.radius < 1e-5 && so2dist(so2v(sub(n, a, 1)), so2v(sub(n, b, 1))) < 1e-5;
            }
            case K_RV:
            case K_TIME:
            case K_DISC: return false;
            default:
                for (size_t i = 0; i < n.kids.size(); ++i)
                    if (nearCut(*n.kids[i], sub(n, a, i), sub(n, b, i))) return true;
                return false;
        }
    }

    static Ev eval(const Node &n, int cl, const State *a, const State *b, const P &p)
    {
        Ev e;
        const ob::StateSpace &S = *n.sp;
        State *o = n.tmp(0), *o2 = n.tmp(1), *m = n.tmp(2);
        switch (cl)
        {
            case ENDPOINT0:
            case ENDPOINT1:
            {
                const State *ref = cl == ENDPOINT0 ? a : b;
                S.interpolate(a, b, cl == ENDPOINT0 ? 0.0 : 1.0, o);
                if (S.equalStates(ref, o)) break;
                e.excess = S.distance(ref, o);
                e.tol = tolD(n, ref, o, e.excess);
                e.viol = !(e.excess <= e.tol);
                break;
            }
            case BOUNDS:
                S.interpolate(a, b, p.t, o);
                e.viol = !inBounds(n, o, true);
                e.excess = e.viol;
                break;
            case ALIAS_FROM:
            case ALIAS_TO:
            {
                S.interpolate(a, b, p.t, o);
                if (cl == ALIAS_FROM)
                {
                    S.copyState(o2, a);
                    S.interpolate(o2, b, p.t, o2);
                }
                else
                {
                    S.copyState(o2, b);
                    S.interpolate(a, o2, p.t, o2);
                }
                e.excess = S.distance(o, o2);
                e.tol = tolD(n, o, o2, e.excess);
                e.viol = !S.equalStates(o, o2) || !(e.excess <= e.tol);
                break;
            }
            case REPARAM:
            {
                if (n.kind != K_DUBINS && n.kind != K_RS && n.hasDubins)
                {
                    // components are interpolated independently: decide the Dubins-type components on lengths and the
                    // rest point-wise, component by component
                    for (size_t i = 0; i < n.kids.size(); ++i)
                    {
                        Ev k = eval(*n.kids[i], cl, sub(n, a, i), sub(n, b, i), p);
                        if (k.viol && !e.viol) e = k;
                        e.skipped |= k.skipped;
                    }
                    break;
                }
                if (nearCut(n, a, b))
                {
                    e.skipped = true;
                    break;
                }
                S.interpolate(a, b, p.s, m);
                if (!inBounds(n, m, false))  // the intermediate point must itself be an in-bounds state
                {
                    e.skipped = true;
                    break;
                }
                if (n.kind == K_DUBINS || n.kind == K_RS)
                {
                    double L = S.distance(a, b), rest = S.distance(m, b);
                    e.excess = rest - (1 - p.s) * L;
                    if (!(n.kind == K_DUBINS && n.sym)) e.excess = std::fabs(e.excess);  // symmetric Dubins: <= only
                    e.tol = 1e-9 * (1 + std::max(extentOf(n), L)) + 1e-5 * n.radius * (1 + L / n.radius);
                    e.viol = !(e.excess <= e.tol);
                    break;
                }
                if (nearCut(n, m, b))
                {
                    e.skipped = true;
                    break;
                }
                S.interpolate(m, b, p.u, o);
                S.interpolate(a, b, p.s + (1 - p.s) * p.u, o2);
                if (!inBounds(n, o, false) || !inBounds(n, o2, false))
                {
                    e.skipped = true;  // an out-of-bounds interpolant is the bounds clause's business
                    break;
                }
                e.excess = S.distance(o, o2);
                e.tol = tolD(n, o, o2, std::max(e.excess, sane(S.distance(a, b)))) + discSlack(n);
                e.viol = !(e.excess <= e.tol);
                break;
            }
            case SPEED:
            {
                if (!n.geodesic) break;
                S.interpolate(a, b, p.t, o);
                if (!inBounds(n, o, false))
                {
                    e.skipped = true;
                    break;
                }
                double L = S.distance(a, b), d = S.distance(a, o);
                e.excess = std::fabs(d - p.t * L);
                e.tol = tolD(n, a, b, L);
                e.viol = !(e.excess <= e.tol);
                break;
            }
        }
        return e;
    }

    static void report(Sink &sink, const Node &top, int cl, const Ev &e, const State *a, const State *b, const P &p)
    {
        bool boolean = cl == BOUNDS;
        // re-parameterisation in a tree with a Dubins-type component is decided component by component
        bool (*rule)(const Node &) = cl == REPARAM ? +[](const Node &q) { return !q.hasDubins; } : nullptr;
        Attr at = attribute(top, a, b, nullptr, boolean ? INFINITY : e.excess,
                            [cl, &p](const Node &k, const State *x, const State *y, const State *) { return eval(k, cl, x, y, p); }, rule);
        const Node &k = *at.n;
        J j = witness(top, at);
        Ev le = eval(k, cl, at.a, at.b, p);
        j.num("t", p.t).num("excess", le.excess).num("tol", le.tol).num("d_ab", k.sp->distance(at.a, at.b));
        if (cl == REPARAM) j.num("s", p.s).num("u", p.u);
        State *o = k.tmp(3);
        double tt = cl == ENDPOINT0 ? 0.0 : cl == ENDPOINT1 ? 1.0 : cl == REPARAM ? p.s : p.t;
        k.sp->interpolate(at.a, at.b, tt, o);
        j.arr("interpolant", reals(k, o)).num("interpolant_t", tt).b("interpolant_satisfiesBounds", k.sp->satisfiesBounds(o));
        sink.viol(std::string("C07:") + CNAME[cl] + ":" + k.cls(), j);
    }

    static double pickT(Rng &r)
    {
        switch (r.ui(10))
        {
            // the end points themselves belong to [0,1]: aliasing, bounds and re-parameterisation are checked there too
            case 8: return 0.0;
            case 9: return 1.0;
            case 0: return 0.5;
            case 1:
            {
                int nd = r.range(2, 100);
                return (double)r.range(1, nd - 1) / nd;
            }
            case 2: return std::nextafter(1.0, 0.0);
            case 3: return r.coin() ? DEPS : std::nextafter(0.0, 1.0);
            case 4: return r.coin() ? 0.25 : 0.75;
            default: return r.u01();
        }
    }
    static bool bitwiseSame(const Node &n, const State *x, const State *y)
    {
        auto p = reals(n, x), q = reals(n, y);
        return p.size() == q.size() && (p.empty() || memcmp(p.data(), q.data(), p.size() * sizeof(double)) == 0);
    }

    void runCase(Sink &sink, const Args &args, long c)
    {
        Rng rng(caseSeed(args, c));
        ompl::RNG::setSeed(caseSeed(args, c, 1) % 1000000000 + 1);
        Zoo zoo;
        int z = zooKindOfCase(c);
        if (!buildZoo(zoo, rng, z, sink)) return;
        const Node &n = *zoo.root;
        const ob::StateSpace &S = *n.sp;
        Counters cnt;
        sink.count(std::string("c07_cases_") + ZNAME[z]);
        StateSet st(n, 4);
        State *a = st[0], *b = st[1], *o = st[2], *o2 = st[3];
        auto smp = n.sp->allocStateSampler();
        long iters = (n.hasDubins ? 200 : 1000);
        if (n.nleaves > 6) iters = iters * 6 / (long)n.nleaves;
        double ext = extentOf(n);
        long done = 0;
        double worstSpeed = 0, worstRep = 0;
        for (long it = 0; it < iters; ++it)
        {
            int rel;
            double x = rng.u01();
            bool viaSampler = false;
            if (x < 0.30) rel = R_INDEP;
            else if (x < 0.36) rel = R_COPY;
            else if (x < 0.46) rel = R_TINY;
            else if (x < 0.74) rel = R_SEAM;
            else if (x < 0.90) rel = R_ANTI;
            else rel = R_INDEP, viaSampler = true;
            if (viaSampler)
            {
                smp->sampleUniform(a);
                double dist = (ext > 0 ? ext : 1) * rng.logUni(1e-9, 10);
                if (n.hasDisc) dist = std::min(dist, 1e9);
                if (rng.coin()) smp->sampleUniform(b);
                else smp->sampleUniformNear(b, a, dist);
            }
            else
                genPair(n, a, b, rel, rng);
            if (!S.satisfiesBounds(a) || !S.satisfiesBounds(b))
            {
                cnt.add(viaSampler ? "c07_skipped_sampler_state_out_of_bounds" : "c07_skipped_generated_state_out_of_bounds");
                continue;
            }
            ++done;
            static const char *RN[] = {"c07_pairs_independent", "c07_pairs_coincident", "c07_pairs_nearly_coincident",
                                       "c07_pairs_seam_or_corner", "c07_pairs_antipodal"};
            cnt.add(viaSampler ? "c07_pairs_from_samplers" : RN[rel]);
            P p;
            bool bad = false;
            auto check = [&](int cl) {
                Ev e = eval(n, cl, a, b, p);
                if (e.viol)
                {
                    report(sink, n, cl, e, a, b, p);
                    bad = true;
                }
                return e;
            };
            check(ENDPOINT0);
            if (!bad) check(ENDPOINT1);
            cnt.add("c07_endpoint_checks", 2);
            // several t per pair; a violated pair is abandoned (later clauses would report consequences)
            for (int k = 0; k < 3 && !bad; ++k)
            {
                p.t = pickT(rng);
                check(BOUNDS);
                cnt.add("c07_bounds_checks");
                if (bad) break;
                check(ALIAS_FROM);
                if (bad) break;
                check(ALIAS_TO);
                cnt.add("c07_alias_checks", 2);
                if (bad) break;
                // statistic: bitwise agreement of the aliased calls
                S.interpolate(a, b, p.t, o);
                S.copyState(o2, a);
                S.interpolate(o2, b, p.t, o2);
                if (!bitwiseSame(n, o, o2)) cnt.add("c07_stat_alias_not_bitwise");
                if (n.geodesic)
                {
                    Ev e = check(SPEED);
                    if (!e.skipped) cnt.add("c07_constant_speed_checks");
                    if (!e.viol && e.tol > 0) worstSpeed = std::max(worstSpeed, e.excess / e.tol);
                }
            }
            for (int k = 0; k < 2 && !bad; ++k)
            {
                p.s = pickT(rng), p.u = pickT(rng);
                Ev e = check(REPARAM);
                if (e.skipped) cnt.add("c07_reparam_skipped_cut_locus_or_out_of_bounds_midpoint");
                else cnt.add("c07_reparam_checks");
                if (!e.viol && !e.skipped && e.tol > 0) worstRep = std::max(worstRep, e.excess / e.tol);
                if (!e.skipped && !e.viol && n.hasDubins && (n.kind == K_DUBINS || n.kind == K_RS))
                {
                    // statistic only: point-wise agreement for the Dubins family (word ties)
                    State *m = n.tmp(2);
                    S.interpolate(a, b, p.s, m);
                    S.interpolate(m, b, p.u, o);
                    S.interpolate(a, b, p.s + (1 - p.s) * p.u, o2);
                    if (!(S.distance(o, o2) <= 1e-4 * (1 + S.distance(a, b)))) cnt.add("c07_stat_dubins_pointwise_reparam_differs");
                }
            }
        }
        cnt.add("c07_pairs", done);
        cnt.flush(sink);
        sink.maxstat("c07_speed_worst_excess_over_tol_when_held", worstSpeed);
        sink.maxstat("c07_reparam_worst_excess_over_tol_when_held", worstRep);
        sink.noteCase(caseHash(args, c, n), done >= 50);
        sink.sample(J().str("space", n.sig.substr(0, 300)).str("kind", ZNAME[z]).i("pairs", done).b("geodesic_clause_applies", n.geodesic));
    }
}  // namespace c07

// =====================================================================================================
// C08 enforceBounds, samplers, valid-state samplers
// =====================================================================================================
namespace c08
{
    enum Clause
    {
        ENF_CHANGED, ENF_NOT_INB, ENF_NOT_IDEM
    };
    static const char *CNAME[] = {"enforce-changed-inbounds", "enforce-not-inbounds", "enforce-not-idempotent"};

    static Ev eval(const Node &n, int cl, const State *s)
    {
        Ev e;
        const ob::StateSpace &S = *n.sp;
        State *s2 = n.tmp(0), *s3 = n.tmp(1);
        S.copyState(s2, s);
        S.enforceBounds(s2);
        switch (cl)
        {
            case ENF_CHANGED:
                e.excess = S.distance(s, s2);
                e.tol = tolD(n, s, s2, e.excess);
                e.viol = !S.equalStates(s, s2) || !(e.excess <= e.tol);
                break;
            case ENF_NOT_INB:
                e.viol = !inBounds(n, s2, false);
                break;
            case ENF_NOT_IDEM:
                S.copyState(s3, s2);
                S.enforceBounds(s3);
                e.viol = !S.equalStates(s2, s3);
                break;
        }
        if (e.viol && e.excess == 0) e.excess = 1;
        return e;
    }
    static void report(Sink &sink, const Node &top, int cl, const State *s)
    {
        Attr at = attribute(top, s, nullptr, nullptr, INFINITY,
                            [cl](const Node &k, const State *x, const State *, const State *) { return eval(k, cl, x); });
        const Node &k = *at.n;
        J j;
        j.str("space", k.sig);
        if (&k != &top) j.str("top_space", top.sig.substr(0, 400));
        j.arr("input", reals(k, at.a));
        State *s2 = k.tmp(2);
        k.sp->copyState(s2, at.a);
        k.sp->enforceBounds(s2);
        j.arr("after_enforceBounds", reals(k, s2)).b("satisfiesBounds_after", k.sp->satisfiesBounds(s2));
        k.sp->enforceBounds(s2);
        j.arr("after_second_enforceBounds", reals(k, s2));
        sink.viol(std::string("C08:") + CNAME[cl] + ":" + k.cls(), j);
    }

    static double pickDistance(Rng &r, double ext, bool hasDisc)
    {
        static const double ABS[] = {0, 1e-12, 1e-9, 1e-6, 1e-3, 1, 10};
        static const double REL[] = {1e-3, 0.1, 1, 10, 100};
        double e = ext > 0 ? ext : 1, d;
        switch (r.ui(3))
        {
            case 0: d = ABS[r.ui(7)]; break;
            case 1: d = e * REL[r.ui(5)]; break;
            default: d = e * r.logUni(1e-12, 100);
        }
        // DiscreteStateSampler converts the distance to int: distances >= 2^31 are exercised only by the dedicated
        // probe case (case 0), see probeDiscreteHugeDistance
        if (hasDisc) d = std::min(d, 1e9);
        return d;
    }

    static std::string g_history;  // bound changes made after the samplers in use were allocated (empty: none)
    static std::string shiftBounds(Rng &r, Node &n)
    {
        auto move = [&](double &lo, double &hi) {
            double w = hi - lo;
            if (!(w > 0)) w = 1;
            double shift = (r.coin() ? 1 : -1) * (w * r.uni(1.5, 4) + 1), scale = r.uni(0.3, 2);
            lo += shift;
            hi = lo + w * scale;
        };
        switch (n.kind)
        {
            case K_RV:
            {
                ob::RealVectorBounds b(n.lo.size());
                b.low = n.lo, b.high = n.hi;
                size_t forced = r.ui(n.lo.size());
                for (size_t i = 0; i < n.lo.size(); ++i)
                    if (i == forced || r.coin(0.6)) move(b.low[i], b.high[i]);
                n.sp->as<ob::RealVectorStateSpace>()->setBounds(b);
                return "RealVectorStateSpace::setBounds(moved " + n.sig + ")";
            }
            case K_TIME:
            {
                double lo = n.lo[0], hi = n.hi[0];
                move(lo, hi);
                n.sp->as<ob::TimeStateSpace>()->setBounds(lo, hi);
                return "TimeStateSpace::setBounds(moved " + n.sig + ")";
            }
            default:
            {
                double lo = n.dlo, hi = n.dhi;
                move(lo, hi);
                n.sp->as<ob::DiscreteStateSpace>()->setBounds((int)std::floor(lo), (int)std::ceil(hi));
                return "DiscreteStateSpace::setBounds(moved " + n.sig + ")";
            }
        }
    }
    static void sampleOob(Sink &sink, const Node &top, const char *clause, const char *samplerKind, const Oob &oob, const State *out,
                          const State *centre, double dist)
    {
        std::string subject = strcmp(samplerKind, "subspace") == 0 ? "SubspaceStateSampler" : oob.owner->cls();
        J j;
        j.str("space", top.sig.substr(0, 400)).str("sampler", samplerKind).str("offending_leaf", oob.leaf->sig).arr("output", reals(top, out));
        if (centre) j.arr("centre", reals(top, centre)).num("distance_or_stddev", dist);
        if (!g_history.empty()) j.str("after", g_history.substr(0, 300));
        sink.viol(std::string("C08:") + clause + ":" + subject, j);
    }

    // ---- space cases: enforceBounds + default / compound / wrapper / subspace samplers -----------------------
    static void spaceCase(Sink &sink, const Args &args, long c, Rng &rng, int z)
    {
        Zoo zoo;
        if (!buildZoo(zoo, rng, z, sink)) return;
        const Node &n = *zoo.root;
        const ob::StateSpace &S = *n.sp;
        Counters cnt;
        sink.count(std::string("c08_cases_") + ZNAME[z]);
        StateSet st(n, 3);
        State *s = st[0], *ctr = st[1], *out = st[2];
        double ext = extentOf(n);
        const char *skind = n.kind == K_WRAPPER ? "wrapper" : n.kind == K_COMPOUND ? "compound" : "default";
        auto smp = S.allocStateSampler();
        // subspace samplers for up to two components of a compound-type root
        struct SubS
        {
            ob::StateSamplerPtr smp;
            const Node *sub;
        };
        std::vector<SubS> subs;
        if (n.kind != K_WRAPPER && n.composite())
        {
            // wrapped components cannot be addressed by name from outside their wrapper
            std::vector<const Node *> ok;
            std::function<void(const Node &)> walk = [&](const Node &k) {
                for (auto &q : k.kids)
                {
                    if (q->kind == K_WRAPPER) continue;
                    ok.push_back(q.get());
                    walk(*q);
                }
            };
            walk(n);
            for (int k = 0; k < 2 && !ok.empty(); ++k)
            {
                const Node *q = rng.pick(ok);
                try
                {
                    subs.push_back({S.allocSubspaceStateSampler(q->sp.get()), q});
                }
                catch (const std::exception &)
                {
                    sink.inconclusive("subspace-sampler-alloc-threw");
                }
            }
        }
        long iters = n.hasDubins ? 600 : 1200;
        if (n.nleaves > 6) iters = iters * 6 / (long)n.nleaves;
        // one round over the (described) space with the samplers allocated above; the second round runs after the bounds of
        // some components were moved (second == true), with the very same sampler objects
        auto round = [&](const Node &n, long iters, bool second) {
        const ob::StateSpace &S = *n.sp;
        double ext = extentOf(n);
        (void)second;
        for (long it = 0; it < iters; ++it)
        {
            // (A) in-bounds input: unchanged
            if (rng.coin(0.8)) genState(n, s, rng);
            else smp->sampleUniform(s);
            if (S.satisfiesBounds(s))
            {
                cnt.add("c08_enforce_inbounds_inputs");
                if (eval(n, ENF_CHANGED, s).viol) report(sink, n, ENF_CHANGED, s);
            }
            // (B) finite wild input: in bounds afterwards, idempotent
            genWild(n, s, rng);
            cnt.add("c08_enforce_wild_inputs");
            if (eval(n, ENF_NOT_INB, s).viol) report(sink, n, ENF_NOT_INB, s);
            else if (eval(n, ENF_NOT_IDEM, s).viol) report(sink, n, ENF_NOT_IDEM, s);
            // (C) samplers of the space
            Oob oob;
            smp->sampleUniform(out);
            cnt.add("c08_sample_uniform");
            if (!S.satisfiesBounds(out) && !inBounds(n, out, false, &oob)) sampleOob(sink, n, "sample-uniform-oob", skind, oob, out, nullptr, 0);
            genState(n, ctr, rng);
            if (!S.satisfiesBounds(ctr)) continue;
            double d = pickDistance(rng, ext, n.hasDisc);
            if (d == 0) cnt.add("c08_zero_distance_calls");
            if (ext > 0 && d >= 10 * ext) cnt.add("c08_distance_ge_10_extents_calls");
            smp->sampleUniformNear(out, ctr, d);
            cnt.add("c08_sample_near");
            if (!S.satisfiesBounds(out) && !inBounds(n, out, false, &oob)) sampleOob(sink, n, "sample-near-oob", skind, oob, out, ctr, d);
            d = pickDistance(rng, ext, n.hasDisc);
            smp->sampleGaussian(out, ctr, d);
            cnt.add("c08_sample_gaussian");
            if (!S.satisfiesBounds(out) && !inBounds(n, out, false, &oob)) sampleOob(sink, n, "sample-gaussian-oob", skind, oob, out, ctr, d);
            if (n.kind == K_WRAPPER) cnt.add("c08_wrapper_sampler_calls", 3);
            if (n.kind == K_COMPOUND) cnt.add("c08_compound_sampler_calls", 3);
            // (D) subspace samplers write only their part: start from an in-bounds state
            for (auto &ss : subs)
            {
                d = pickDistance(rng, ext, n.hasDisc);
                S.copyState(out, ctr);
                switch (rng.ui(3))
                {
                    case 0:
                        ss.smp->sampleUniform(out);
                        if (!S.satisfiesBounds(out) && !inBounds(n, out, false, &oob)) sampleOob(sink, n, "sample-uniform-oob", "subspace", oob, out, nullptr, 0);
                        break;
                    case 1:
                        ss.smp->sampleUniformNear(out, ctr, d);
                        if (!S.satisfiesBounds(out) && !inBounds(n, out, false, &oob)) sampleOob(sink, n, "sample-near-oob", "subspace", oob, out, ctr, d);
                        break;
                    default:
                        ss.smp->sampleGaussian(out, ctr, d);
                        if (!S.satisfiesBounds(out) && !inBounds(n, out, false, &oob)) sampleOob(sink, n, "sample-gaussian-oob", "subspace", oob, out, ctr, d);
                }
                cnt.add("c08_subspace_sampler_calls");
            }
        }
        };
        round(n, iters, false);
        // second phase: bounds of RealVector / Time / Discrete components are moved (shifted by more than their width, rescaled)
        // directly on the component; samplers allocated before must follow the bounds as they are now
        std::string moved;
        NodeP root2;
        {
            std::vector<c06::Target> bt, wt;
            c06::collectTargets(*zoo.root, nullptr, 0, bt, wt);
            if (!bt.empty())
            {
                int nmut = rng.coin(0.3) ? 2 : 1;
                for (int m = 0; m < nmut; ++m)
                {
                    const c06::Target &t = rng.pick(bt);
                    moved += (m ? "; " : "") + shiftBounds(rng, *t.n);
                    root2 = describe(zoo.root->sp, zoo.reg);
                    bt.clear(), wt.clear();
                    c06::collectTargets(*root2, nullptr, 0, bt, wt);
                    if (bt.empty()) break;
                }
                if (rng.coin(0.35))
                {
                    zoo.root->sp->setup();
                    root2 = describe(zoo.root->sp, zoo.reg);
                    moved += "; setup() again";
                }
                g_history = moved;
                round(*root2, std::max(30L, iters / 6), true);
                g_history.clear();
                cnt.add("c08_moved_bounds_cases");
            }
        }
        cnt.flush(sink);
        sink.noteCase(caseHash(args, c, n), iters >= 50);
        sink.sample(J().str("space", n.sig.substr(0, 300)).str("kind", ZNAME[z]).i("iterations", iters).i("subspace_samplers", (long long)subs.size()));
    }

    // ---- valid-state samplers ---------------------------------------------------------------------------
    struct Pred
    {
        int mode = 0;  // 0 all valid, 1 all invalid, 2 disc obstacle, 3 thin heading-dependent slab, 4 random cells
        const Node *n = nullptr;
        std::vector<double> lo, hi;
        double c0 = 0.5, c1 = 0.5, R = 0.2, w = 0.02, p = 0.5;
        uint64_t salt = 0;
        mutable std::vector<double> buf;
        double z(size_t i) const
        {
            double rg = hi[i] - lo[i];
            return rg > 0 ? (buf[i] - lo[i]) / rg : 0.0;
        }
        bool valid(const State *s, double &clr) const
        {
            buf.clear();
            toReals(*n, s, buf);
            size_t k = buf.size();
            switch (mode)
            {
                case 0: clr = 1; return true;
                case 1: clr = -1; return false;
                case 2:
                {
                    double dx = z(0) - c0, dy = k > 1 ? z(1) - c1 : 0;
                    clr = std::sqrt(dx * dx + dy * dy) - R;
                    return clr > 0;
                }
                case 3:
                {
                    double dx = std::fabs(z(0) - c0), h = std::fabs(z(k - 1) - 0.5);
                    clr = dx - w;
                    return !(dx < w && (k == 1 || h < 0.3));
                }
                default:
                {
                    uint64_t h = salt;
                    for (size_t i = 0; i < std::min<size_t>(k, 3); ++i) h = hmix(h, (uint64_t)(long)std::floor(z(i) * 8));
                    double u = (h >> 11) * (1.0 / 9007199254740992.0);
                    clr = p - u;
                    return u < p;
                }
            }
        }
    };
    struct Chk : ob::StateValidityChecker
    {
        const Pred &P;
        Chk(ob::SpaceInformation *si, const Pred &p) : ob::StateValidityChecker(si), P(p) {}
        bool isValid(const State *s) const override
        {
            double d;
            return P.valid(s, d);
        }
        bool isValid(const State *s, double &dist) const override { return P.valid(s, dist); }
        double clearance(const State *s) const override
        {
            double d;
            P.valid(s, d);
            return d;
        }
    };

    static void validCase(Sink &sink, const Args &args, long c, Rng &rng)
    {
        // spaces: everything in the zoo; the cheap and typical ones more often
        static const int ZS[] = {Z_RV, Z_SE2, Z_SE2, Z_SE3, Z_SO2, Z_TORUS, Z_COMPOUND, Z_COMPOUND, Z_DUBINS, Z_RS, Z_WRAPPER,
                                 Z_RVZERO, Z_RVHUGE, Z_SO3, Z_TIME, Z_DISC, Z_SPHERE, Z_MOBIUS, Z_KLEIN, Z_DUBINSSYM};
        // An unbounded time component is left out here: its "uniform" sampler is the constant 0, sampleUniformNear is
        // unclamped, and the motion check inside ObstacleBasedValidStateSampler then walks |dt| / 0.01 (up to 1e11) steps.
        int z = 0;
        Zoo zoo;
        for (int attempt = 0;; ++attempt)
        {
            z = ZS[rng.ui(sizeof(ZS) / sizeof(int))];
            zoo = Zoo();
            if (!buildZoo(zoo, rng, z, sink)) return;
            if (!zoo.root->hasUnbTime) break;
            if (attempt >= 20)
            {
                sink.inconclusive("no-space-without-unbounded-time");
                return;
            }
        }
        const Node &n = *zoo.root;
        Counters cnt;
        sink.count(std::string("c08_valid_cases_") + ZNAME[z]);
        Pred P;
        P.n = &n;
        coordRanges(n, P.lo, P.hi);
        P.mode = (int)rng.ui(5);
        P.c0 = rng.uni(0.2, 0.8), P.c1 = rng.uni(0.2, 0.8), P.R = rng.uni(0.05, 0.45), P.w = rng.logUni(0.003, 0.06), P.p = rng.uni(0.15, 0.85);
        P.salt = rng.u64();
        auto si = std::make_shared<ob::SpaceInformation>(n.sp);
        si->setStateValidityChecker(std::make_shared<Chk>(si.get(), P));
        if (rng.coin(0.3)) si->setStateValidityCheckingResolution(rng.logUni(0.005, 0.2));
        try
        {
            si->setup();
        }
        catch (const std::exception &)
        {
            sink.inconclusive("spaceinformation-setup-threw");
            return;
        }
        struct VS
        {
            const char *cls;
            ob::ValidStateSamplerPtr s;
            bool viaInterpolation;
        };
        auto mn = std::make_shared<ob::MinimumClearanceValidStateSampler>(si.get());
        mn->setMinimumObstacleClearance(rng.coin(0.3) ? 0.0 : rng.uni(0.0, 0.1));
        auto mx = std::make_shared<ob::MaximizeClearanceValidStateSampler>(si.get());
        mx->setNrImproveAttempts((unsigned)rng.range(0, 5));
        auto ga = std::make_shared<ob::GaussianValidStateSampler>(si.get());
        if (rng.coin()) ga->setStdDev(extentOf(n) * rng.logUni(1e-3, 1.0));
        std::vector<VS> V = {{"UniformValidStateSampler", std::make_shared<ob::UniformValidStateSampler>(si.get()), false},
                             {"GaussianValidStateSampler", ga, false},
                             {"ObstacleBasedValidStateSampler", std::make_shared<ob::ObstacleBasedValidStateSampler>(si.get()), true},
                             {"BridgeTestValidStateSampler", std::make_shared<ob::BridgeTestValidStateSampler>(si.get()), true},
                             {"MaximizeClearanceValidStateSampler", mx, false},
                             {"MinimumClearanceValidStateSampler", mn, false}};
        StateSet st(n, 2);
        State *out = st[0], *near = st[1];
        double ext = extentOf(n);
        long calls = 0, okc = 0;
        int rounds = n.hasDubins ? 40 : 120;
        static const char *OKN[] = {"c08_valid_ok_uniform", "c08_valid_ok_gaussian", "c08_valid_ok_obstacle_based", "c08_valid_ok_bridge_test",
                                    "c08_valid_ok_max_clearance", "c08_valid_ok_min_clearance"};
        for (size_t vi = 0; vi < V.size(); ++vi)
        {
            VS &v = V[vi];
            v.s->setNrAttempts((unsigned)rng.range(1, 25));
            bool dead = false;
            for (int k = 0; k < rounds && !dead; ++k)
            {
                bool r, nearCall = k % 2;
                double d = 0;
                if (nearCall)
                {
                    genState(n, near, rng);
                    if (!n.sp->satisfiesBounds(near)) continue;
                    d = pickDistance(rng, ext, n.hasDisc);
                    r = v.s->sampleNear(out, near, d);
                }
                else
                    r = v.s->sample(out);
                ++calls;
                cnt.add(nearCall ? "c08_valid_sampleNear_calls" : "c08_valid_sample_calls");
                if (!r) continue;
                ++okc;
                cnt.add(OKN[vi]);
                double clr;
                Oob oob;
                auto wit = [&]() {
                    J j;
                    j.str("space", n.sig.substr(0, 400)).str("sampler", v.cls).i("predicate_mode", P.mode).str("call", nearCall ? "sampleNear" : "sample");
                    j.arr("returned", reals(n, out)).b("predicate_valid", P.valid(out, clr)).b("satisfiesBounds", n.sp->satisfiesBounds(out));
                    if (nearCall) j.arr("near", reals(n, near)).num("distance", d);
                    if (oob.leaf) j.str("offending_leaf", oob.leaf->sig);
                    return j;
                };
                if (!P.valid(out, clr))
                {
                    sink.viol(std::string("C08:valid-sampler-invalid:") + v.cls, wit());
                    dead = true;
                }
                // samplers that return interpolants are judged like interpolants (Dubins family: heading only)
                else if (!n.sp->satisfiesBounds(out) && !inBounds(n, out, v.viaInterpolation, &oob))
                {
                    // the offending component names the root cause (the underlying state sampler or, for the two
                    // samplers that return interpolants, the space whose interpolate produced it); sampler in the witness
                    sink.viol(std::string("C08:valid-sampler-oob:") + oob.owner->cls(), wit());
                    dead = true;
                }
            }
        }
        static const char *PN[] = {"c08_valid_cases_pred_all_valid", "c08_valid_cases_pred_all_invalid", "c08_valid_cases_pred_disc",
                                   "c08_valid_cases_pred_slab", "c08_valid_cases_pred_random"};
        cnt.add(PN[P.mode]);
        cnt.add("c08_valid_sampler_successes", okc);
        cnt.flush(sink);
        sink.noteCase(caseHash(args, c, n) ^ (uint64_t)P.mode, calls >= 50);
        sink.sample(J().str("space", n.sig.substr(0, 300)).str("kind", "valid-state samplers").i("predicate_mode", P.mode).i("calls", calls).i("successes", okc), 5);
    }

    // ---- probe: distance >= 2^31 reaching a DiscreteStateSampler inside a compound (UBSan is the monitor) ----
    // compound {1e3 * R^6[-1e6,1e6], 1e3 * Discrete[-3,7]}; distance = 100 x extent, the largest of the stated range
    static void probeDiscreteHugeDistance(Sink &sink, const Args &args, long c, Rng &rng)
    {
        Zoo zoo;
        auto rv = std::make_shared<ob::RealVectorStateSpace>(6);
        rv->setBounds(-1e6, 1e6);
        auto comp = std::make_shared<ob::CompoundStateSpace>();
        comp->addSubspace(rv, 1e3);
        comp->addSubspace(std::make_shared<ob::DiscreteStateSpace>(-3, 7), 1e3);
        comp->setup();
        zoo.root = describe(comp, zoo.reg);
        const Node &n = *zoo.root;
        StateSet st(n, 2);
        auto smp = n.sp->allocStateSampler();
        double ext = extentOf(n);
        long calls = 0;
        for (int k = 0; k < 20; ++k)
        {
            genState(n, st[1], rng);
            discv(sub(n, st[1], 1)) = 5;  // fixed so that the first overflowing expression (and the sanitizer key) is always the same
            for (double f : {1.0, 10.0, 100.0})
            {
                Oob oob;
                smp->sampleUniformNear(st[0], st[1], f * ext);
                ++calls;
                if (!inBounds(n, st[0], false, &oob)) sampleOob(sink, n, "sample-near-oob", "compound", oob, st[0], st[1], f * ext);
                smp->sampleGaussian(st[0], st[1], f * ext);
                ++calls;
                if (!inBounds(n, st[0], false, &oob)) sampleOob(sink, n, "sample-gaussian-oob", "compound", oob, st[0], st[1], f * ext);
            }
        }
        sink.count("c08_probe_discrete_huge_distance_calls", calls);
        sink.noteCase(caseHash(args, c, n), true);
    }

    void runCase(Sink &sink, const Args &args, long c)
    {
        Rng rng(caseSeed(args, c));
        ompl::RNG::setSeed(caseSeed(args, c, 1) % 1000000000 + 1);
        if (c == 0) return probeDiscreteHugeDistance(sink, args, c, rng);
        // 23 space slots (same rotation as C06/C07) + 7 valid-state-sampler slots
        long slot = c % 30;
        if (slot < 23) spaceCase(sink, args, c, rng, zooKindOfCase(slot));
        else validCase(sink, args, c, rng);
    }
}  // namespace c08

// =====================================================================================================
int main(int argc, char **argv)
{
    Args a = parseArgs(argc, argv);
    ompl::msg::setLogLevel(ompl::msg::LOG_NONE);
    Sink sink(a);
    long total;
    void (*fn)(Sink &, const Args &, long);
    if (a.prop == "C06") total = a.thorough() ? 23 * 5000 : 23 * 1000, fn = c06::runCase;
    else if (a.prop == "C07") total = a.thorough() ? 23 * 4000 : 23 * 800, fn = c07::runCase;
    else if (a.prop == "C08") total = a.thorough() ? 30 * 4000 : 30 * 800, fn = c08::runCase;
    else
    {
        fprintf(stderr, "h_spaces does not serve %s\n", a.prop.c_str());
        return 2;
    }
    total = (long)(total * a.scale);
    for (long c = 0; c < total; ++c)
    {
        if (!mine(a, c) || !sink.wanted(c)) continue;
        sink.begin(c);
        fn(sink, a, c);
    }
    sink.done();
    return 0;
}
