// Engine h_motion: motion validators and car-like curves.
//   C05 motion validators (Discrete / Dubins / ReedsShepp / Dubins3D) vs a reference model built from
//       validSegmentCount + interpolate + a recording validity predicate; state-list helpers of SpaceInformation
//   C14 Dubins / Reeds-Shepp distance and interpolation vs an independent geometric six-word solver and a
//       vehicle-model polyline oracle
#include "common.h"
#include <ompl/base/SpaceInformation.h>
#include <ompl/base/DiscreteMotionValidator.h>
#include <ompl/base/spaces/RealVectorStateSpace.h>
#include <ompl/base/spaces/SO2StateSpace.h>
#include <ompl/base/spaces/SO3StateSpace.h>
#include <ompl/base/spaces/SE2StateSpace.h>
#include <ompl/base/spaces/SE3StateSpace.h>
#include <ompl/base/spaces/DiscreteStateSpace.h>
#include <ompl/base/spaces/DubinsStateSpace.h>
#include <ompl/base/spaces/ReedsSheppStateSpace.h>
#include <ompl/base/spaces/OwenStateSpace.h>
#include <ompl/base/spaces/VanaStateSpace.h>
#include <ompl/base/spaces/VanaOwenStateSpace.h>
#include <ompl/base/spaces/Dubins3DMotionValidator.h>
#include <ompl/util/Console.h>
#include <algorithm>
#include <unordered_map>

using namespace vf;
namespace ob = ompl::base;

static const double PI = 3.14159265358979323846;
static const double TWO_PI = 2 * PI;

// =====================================================================================================
// generic leaf walkers (own state generation: no dependence on the library's RNG)
// =====================================================================================================
template <class F>
static void forLeaves(const ob::StateSpace *sp, ob::State *s, F &&f)
{
    if (sp->isCompound())
    {
        auto *c = sp->as<ob::CompoundStateSpace>();
        auto *cs = s->as<ob::CompoundState>();
        for (unsigned i = 0; i < c->getSubspaceCount(); ++i) forLeaves(c->getSubspace(i).get(), cs->components[i], f);
    }
    else
        f(sp, s);
}
template <class F>
static void forLeaves2(const ob::StateSpace *sp, ob::State *s, ob::State *t, F &&f)
{
    if (sp->isCompound())
    {
        auto *c = sp->as<ob::CompoundStateSpace>();
        auto *cs = s->as<ob::CompoundState>();
        auto *ct = t->as<ob::CompoundState>();
        for (unsigned i = 0; i < c->getSubspaceCount(); ++i)
            forLeaves2(c->getSubspace(i).get(), cs->components[i], ct->components[i], f);
    }
    else
        f(sp, s, t);
}

static void randomQuat(Rng &rng, ob::SO3StateSpace::StateType *q)
{
    double x, y, z, w, n;
    do
    {
        x = rng.gauss(), y = rng.gauss(), z = rng.gauss(), w = rng.gauss();
        n = std::sqrt(x * x + y * y + z * z + w * w);
    } while (n < 1e-3);
    q->x = x / n, q->y = y / n, q->z = z / n, q->w = w / n;
}

static void randomLeaf(Rng &rng, const ob::StateSpace *sp, ob::State *s)
{
    switch (sp->getType())
    {
        case ob::STATE_SPACE_REAL_VECTOR:
        {
            auto *rv = sp->as<ob::RealVectorStateSpace>();
            auto &b = rv->getBounds();
            for (unsigned i = 0; i < rv->getDimension(); ++i)
                s->as<ob::RealVectorStateSpace::StateType>()->values[i] = rng.uni(b.low[i], b.high[i]);
            break;
        }
        case ob::STATE_SPACE_SO2:
            s->as<ob::SO2StateSpace::StateType>()->value = rng.uni(-PI, PI);
            break;
        case ob::STATE_SPACE_SO3:
            randomQuat(rng, s->as<ob::SO3StateSpace::StateType>());
            break;
        case ob::STATE_SPACE_DISCRETE:
        {
            auto *d = sp->as<ob::DiscreteStateSpace>();
            s->as<ob::DiscreteStateSpace::StateType>()->value = rng.range(d->getLowerBound(), d->getUpperBound());
            break;
        }
        default:
            fprintf(stderr, "h_motion: unsupported leaf space type %d\n", (int)sp->getType());
            exit(2);
    }
}
static void randomState(Rng &rng, const ob::StateSpace *sp, ob::State *s)
{
    forLeaves(sp, s, [&](const ob::StateSpace *l, ob::State *ls) { randomLeaf(rng, l, ls); });
}
static double wrapPi(double v)
{
    v = std::remainder(v, TWO_PI);  // [-pi, pi]
    if (v >= PI) v = -PI;
    return v;
}

// =====================================================================================================
// C05
// =====================================================================================================
namespace c05
{
    enum Kind
    {
        K_RN,
        K_SO2,
        K_SO3,
        K_SE2,
        K_SE3,
        K_COMPOUND,
        K_DUBINS,
        K_DUBINS_SYM,
        K_RS,
        K_OWEN,
        K_VANA,
        K_VANAOWEN
    };
    static const char *KNAME[] = {"Rn",     "SO2",       "SO3",        "SE2",  "SE3",  "Compound",
                                  "Dubins", "DubinsSym", "ReedsShepp", "Owen", "Vana", "VanaOwen"};
    // weighted table, length coprime to the usual 16 shards
    static const Kind TABLE[] = {K_RN,     K_RN,         K_RN,   K_SO2,      K_SO3,  K_SE2,    K_SE3,  K_COMPOUND, K_COMPOUND,
                                 K_DUBINS, K_DUBINS_SYM, K_RS,   K_OWEN,     K_VANA, K_VANAOWEN, K_RN, K_SE2,      K_COMPOUND,
                                 K_DUBINS, K_RS,         K_SE3,  K_DUBINS_SYM, K_SO3};
    static const int NTABLE = sizeof(TABLE) / sizeof(TABLE[0]);

    static ob::RealVectorBounds randomBounds(Rng &rng, unsigned n, double scale = 1.0)
    {
        ob::RealVectorBounds b(n);
        for (unsigned i = 0; i < n; ++i)
        {
            double lo = rng.uni(-5, 0) * scale, ext = rng.logUni(0.5, 10) * scale;
            b.setLow(i, lo);
            b.setHigh(i, lo + ext);
        }
        return b;
    }

    static ob::StateSpacePtr randomComponent(Rng &rng, int depth, std::string &desc)
    {
        int k = rng.range(0, depth > 0 ? 6 : 5);
        switch (k)
        {
            case 0:
            case 1:
            {
                unsigned n = rng.range(1, 3);
                auto s = std::make_shared<ob::RealVectorStateSpace>(n);
                s->setBounds(randomBounds(rng, n));
                desc += "R" + std::to_string(n);
                return s;
            }
            case 2:
                desc += "SO2";
                return std::make_shared<ob::SO2StateSpace>();
            case 3:
                desc += "SO3";
                return std::make_shared<ob::SO3StateSpace>();
            case 4:
            {
                auto s = std::make_shared<ob::SE2StateSpace>();
                s->setBounds(randomBounds(rng, 2));
                desc += "SE2";
                return s;
            }
            case 5:
            {
                int lo = rng.range(-3, 3);
                desc += "Disc";
                return std::make_shared<ob::DiscreteStateSpace>(lo, lo + rng.range(1, 9));
            }
            default:
            {
                auto c = std::make_shared<ob::CompoundStateSpace>();
                int n = rng.range(2, 3);
                desc += "(";
                for (int i = 0; i < n; ++i)
                {
                    if (i) desc += "*";
                    c->addSubspace(randomComponent(rng, depth - 1, desc), rng.logUni(0.1, 10));
                }
                desc += ")";
                return c;
            }
        }
    }

    struct World
    {
        Kind kind;
        ob::StateSpacePtr sp;
        ob::SpaceInformationPtr si;
        std::string desc, vname;
        double cost = 1;  // relative cost of one interpolation
        bool is3d = false;
    };

    static World makeWorld(Rng &rng, Kind kind)
    {
        World w;
        w.kind = kind;
        w.vname = "DiscreteMotionValidator";
        switch (kind)
        {
            case K_RN:
            {
                unsigned n = rng.range(1, 6);
                auto s = std::make_shared<ob::RealVectorStateSpace>(n);
                s->setBounds(randomBounds(rng, n));
                w.sp = s;
                w.desc = "R" + std::to_string(n);
                break;
            }
            case K_SO2:
                w.sp = std::make_shared<ob::SO2StateSpace>();
                w.desc = "SO2";
                break;
            case K_SO3:
                w.sp = std::make_shared<ob::SO3StateSpace>();
                w.desc = "SO3";
                w.cost = 2;
                break;
            case K_SE2:
            {
                auto s = std::make_shared<ob::SE2StateSpace>();
                s->setBounds(randomBounds(rng, 2));
                w.sp = s;
                w.desc = "SE2";
                w.cost = 2;
                break;
            }
            case K_SE3:
            {
                auto s = std::make_shared<ob::SE3StateSpace>();
                s->setBounds(randomBounds(rng, 3));
                w.sp = s;
                w.desc = "SE3";
                w.cost = 3;
                break;
            }
            case K_COMPOUND:
            {
                auto c = std::make_shared<ob::CompoundStateSpace>();
                int n = rng.range(2, 4);
                bool anyPositive = false;
                w.desc = "Compound[";
                for (int i = 0; i < n; ++i)
                {
                    if (i) w.desc += "*";
                    double wt = rng.coin(0.1) ? 0.0 : rng.logUni(0.1, 10);
                    if (i == n - 1 && !anyPositive && wt == 0.0) wt = 1.0;
                    anyPositive = anyPositive || wt > 0;
                    c->addSubspace(randomComponent(rng, 1, w.desc), wt);
                }
                w.desc += "]";
                c->lock();
                w.sp = c;
                w.cost = 4;
                break;
            }
            case K_DUBINS:
            case K_DUBINS_SYM:
            {
                double rho = rng.logUni(0.1, 3);
                auto s = std::make_shared<ob::DubinsStateSpace>(rho, kind == K_DUBINS_SYM);
                s->setBounds(randomBounds(rng, 2));
                w.sp = s;
                w.desc = std::string(kind == K_DUBINS_SYM ? "DubinsSym" : "Dubins");
                w.vname = "DubinsMotionValidator";
                w.cost = 10;
                break;
            }
            case K_RS:
            {
                double rho = rng.logUni(0.1, 3);
                auto s = std::make_shared<ob::ReedsSheppStateSpace>(rho);
                s->setBounds(randomBounds(rng, 2));
                w.sp = s;
                w.desc = "ReedsShepp";
                w.vname = "ReedsSheppMotionValidator";
                w.cost = 20;
                break;
            }
            case K_OWEN:
            {
                auto s = std::make_shared<ob::OwenStateSpace>(rng.logUni(0.2, 2), rng.uni(0.2, 0.7));
                s->setBounds(randomBounds(rng, 3, 2.0));
                w.sp = s;
                w.desc = "Owen";
                w.vname = "Dubins3DMotionValidator";
                w.cost = 40;
                w.is3d = true;
                break;
            }
            case K_VANA:
            {
                auto s = std::make_shared<ob::VanaStateSpace>(rng.logUni(0.2, 2), rng.uni(0.2, 0.7));
                s->setBounds(randomBounds(rng, 3, 2.0));
                w.sp = s;
                w.desc = "Vana";
                w.vname = "Dubins3DMotionValidator";
                w.cost = 400;
                w.is3d = true;
                break;
            }
            case K_VANAOWEN:
            {
                auto s = std::make_shared<ob::VanaOwenStateSpace>(rng.logUni(0.2, 2), rng.uni(0.2, 0.7));
                s->setBounds(randomBounds(rng, 3, 2.0));
                w.sp = s;
                w.desc = "VanaOwen";
                w.vname = "Dubins3DMotionValidator";
                w.cost = 400;
                w.is3d = true;
                break;
            }
        }
        w.si = std::make_shared<ob::SpaceInformation>(w.sp);
        return w;
    }

    // ---- validity predicates: pure functions of the state ------------------------------------------------
    struct Pred
    {
        enum Mode
        {
            ALL_VALID,
            FORBID,
            HALFSPACE,
            BALL_OUT,  // invalid inside the ball around anchor
            BALL_IN,   // valid only inside the ball around anchor
            HASH
        } mode = ALL_VALID;
        const ob::StateSpace *sp = nullptr;
        std::vector<const ob::State *> forb;
        std::vector<double> w;
        double c = 0;
        const ob::State *anchor = nullptr;
        double r = 0;
        uint64_t salt = 0;
        unsigned permille = 0;
        mutable std::vector<double> reals;
        mutable std::vector<unsigned char> ser;
        const char *name() const
        {
            static const char *N[] = {"all-valid", "forbid", "halfspace", "ball-out", "ball-in", "hash"};
            return N[mode];
        }
        bool eval(const ob::State *s) const
        {
            switch (mode)
            {
                case ALL_VALID:
                    return true;
                case FORBID:
                    for (auto *f : forb)
                        if (sp->equalStates(s, f)) return false;
                    return true;
                case HALFSPACE:
                {
                    sp->copyToReals(reals, s);
                    double v = 0;
                    for (size_t i = 0; i < reals.size() && i < w.size(); ++i) v += w[i] * reals[i];
                    return v <= c;
                }
                case BALL_OUT:
                    return sp->distance(anchor, s) > r;
                case BALL_IN:
                    return sp->distance(anchor, s) <= r;
                case HASH:
                {
                    ser.resize(sp->getSerializationLength());
                    sp->serialize(ser.data(), s);
                    return splitmix(hashBytes(ser.data(), ser.size()) ^ salt) % 1000 >= permille;
                }
            }
            return true;
        }
    };

    // ---- recorder of the states passed to the validity checker ------------------------------------------
    struct Recorder
    {
        const ob::StateSpace *sp = nullptr;
        bool on = false;
        std::unordered_map<std::string, int> index;  // serialized reference point -> least grid index
        std::vector<unsigned> stamp;
        unsigned callId = 0;
        long q = 0, off = 0, dup = 0, startQ = 0;  // per call
        std::vector<ob::State *> offStates;         // clones of off-grid queries of the current call
        std::string buf;
        std::string key(const ob::State *s)
        {
            buf.resize(sp->getSerializationLength());
            sp->serialize(&buf[0], s);
            return buf;
        }
        void begin()
        {
            ++callId;
            q = off = dup = startQ = 0;
            clearOff();
            on = true;
        }
        void end() { on = false; }
        void clearOff()
        {
            for (auto *s : offStates) sp->freeState(s);
            offStates.clear();
        }
        void note(const ob::State *s)
        {
            ++q;
            auto it = index.find(key(s));
            if (it == index.end())
            {
                ++off;
                if (offStates.size() < 64) offStates.push_back(sp->cloneState(s));
                return;
            }
            if (it->second == 0) ++startQ;
            if (stamp[it->second] == callId) ++dup;
            stamp[it->second] = callId;
        }
    };

    struct Ctx
    {
        Sink &sink;
        World &w;
        Rng &rng;
        const ob::StateSpace *sp;
        ob::SpaceInformation *si;
        const ob::MotionValidator *mv;
        ob::State *a, *b;
        unsigned nd, M;                // M = max(nd,1); pt(M) = b
        std::vector<ob::State *> P;    // P[0]=a copy, P[j]=interpolate(a,b,j/nd), P[M]=b copy
        Recorder rec;
        const Pred *pred = nullptr;
        ob::State *lv, *junk, *ref, *a2, *b2;
        double extent;
        bool abandoned = false;  // a clause about the validator already fired for this case
        std::string base;        // witness description
    };

    static std::vector<double> realsOf(const ob::StateSpace *sp, const ob::State *s)
    {
        std::vector<double> r;
        sp->copyToReals(r, s);
        return r;
    }

    static J witness(Ctx &x, const Pred &p)
    {
        J j;
        j.str("space", x.w.desc).str("validator", x.w.vname).num("resolution", x.sp->getLongestValidSegmentFraction())
            .i("factor", x.sp->getValidSegmentCountFactor()).i("nd", x.nd).arr("a", realsOf(x.sp, x.a))
            .arr("b", realsOf(x.sp, x.b)).str("pred", p.name());
        return j;
    }

    static bool sameBytes(Ctx &x, const ob::State *s, const ob::State *t)
    {
        std::string k1 = x.rec.key(s);
        std::string k2 = x.rec.key(t);
        return k1 == k2;
    }

    // returns true when every off-grid query of the last call equals (equalStates) some reference point
    static bool offgridExplained(Ctx &x)
    {
        for (auto *s : x.rec.offStates)
        {
            bool found = false;
            for (auto *p : x.P)
                if (x.sp->equalStates(s, p))
                {
                    found = true;
                    break;
                }
            if (!found) return false;
        }
        return x.rec.off <= (long)x.rec.offStates.size();
    }

    static void checkCounters(Ctx &x, const Pred &p, const char *form, bool r, unsigned v0, unsigned i0)
    {
        unsigned v1 = x.mv->getValidMotionCount(), i1 = x.mv->getInvalidMotionCount();
        unsigned dv = v1 - v0, di = i1 - i0;
        x.sink.count("c05_counter_checks");
        bool ok = (dv + di == 1) && (r ? dv == 1 : di == 1);
        if (!ok)
            x.sink.viol("C05:counters:" + x.w.vname,
                        witness(x, p).str("form", form).b("returned", r).i("valid_delta", dv).i("invalid_delta", di)
                            .b("end_state_valid", p.eval(x.b)));
    }

    enum LvMode
    {
        LV_OWN,
        LV_NULL,
        LV_ALIAS_A,
        LV_ALIAS_B
    };

    // one call of the lastValid form + all its clauses. firstBad = least j in 1..M with invalid pt(j), 0 if none.
    static bool runLastValidForm(Ctx &x, const Pred &p, unsigned firstBad, LvMode mode, bool &conclusive)
    {
        const double SENT = -7.25;
        const ob::State *s1 = x.a, *s2 = x.b;
        ob::State *store = x.lv;
        if (mode == LV_OWN) x.sp->copyState(x.lv, x.junk);
        if (mode == LV_NULL) store = nullptr;
        if (mode == LV_ALIAS_A)
        {
            x.sp->copyState(x.a2, x.a);
            s1 = store = x.a2;
        }
        if (mode == LV_ALIAS_B)
        {
            x.sp->copyState(x.b2, x.b);
            s2 = store = x.b2;
        }
        const ob::State *before = mode == LV_OWN ? x.junk : mode == LV_ALIAS_A ? x.a : x.b;
        std::pair<ob::State *, double> last(store, SENT);
        unsigned v0 = x.mv->getValidMotionCount(), i0 = x.mv->getInvalidMotionCount();
        x.rec.begin();
        bool r = x.si->checkMotion(s1, s2, last);
        x.rec.end();
        static const char *FN[] = {"lastValid", "lastValid-null", "lastValid-alias-s1", "lastValid-alias-s2"};
        const char *form = FN[mode];
        x.sink.count("c05_calls");
        x.sink.count("c05_queries", x.rec.q);
        x.sink.count("c05_queries_offgrid", x.rec.off);
        x.sink.count("c05_queries_dup", x.rec.dup);
        checkCounters(x, p, form, r, v0, i0);
        bool expected = firstBad == 0;
        conclusive = true;
        if (r != expected)
        {
            if (x.rec.off > 0 && !offgridExplained(x))
            {
                x.sink.inconclusive("c05-offgrid-query");
                conclusive = false;
                return r;
            }
            x.sink.viol("C05:verdict:" + x.w.vname,
                        witness(x, p).str("form", form).b("returned", r).b("expected", expected).i("first_invalid_j", firstBad));
            x.abandoned = true;
            return r;
        }
        if (r)
        {
            x.sink.count("c05_untouched_checks");
            bool touched = last.second != SENT || last.first != store;
            if (!touched && store && !sameBytes(x, store, before)) touched = true;
            if (touched)
            {
                x.sink.viol("C05:lastvalid-touched-on-success:" + x.w.vname,
                            witness(x, p).str("form", form).num("fraction_after", last.second));
                x.abandoned = true;
            }
            return r;
        }
        // failure: fraction, state, prefix
        double f = last.second;
        x.sink.count("c05_lastvalid_checks");
        if (!(f >= 0.0 && f < 1.0))
        {
            std::string key = "C05:fraction-range:" + x.w.vname;
            if (x.nd == 0) key += ":zero-segments";
            x.sink.viol(key, witness(x, p).str("form", form).num("fraction", f).i("first_invalid_j", firstBad));
            if (x.nd != 0) x.abandoned = true;
            return r;
        }
        // prefix: all grid points with j/nd <= f valid, the next one invalid
        {
            long idx = (long)std::floor(f * (double)x.nd) - 1;
            if (idx < 0) idx = 0;
            while (idx + 1 <= (long)x.M && (double)(idx + 1) / (double)x.nd <= f) ++idx;
            // idx = largest j with j/nd <= f  (nd>=1 here since f is finite and in range)
            bool ok = (unsigned)idx + 1 == firstBad;  // p_0..p_idx valid (firstBad > idx) and p_{idx+1} invalid
            if (!ok)
            {
                x.sink.viol("C05:lastvalid-prefix:" + x.w.vname, witness(x, p).str("form", form).num("fraction", f)
                                                                      .i("largest_j_le_f", idx).i("first_invalid_j", firstBad));
                x.abandoned = true;
                return r;
            }
        }
        if (store)
        {
            x.sink.count("c05_lastvalid_state_checks");
            if (last.first != store)
            {
                x.sink.viol("C05:lastvalid-state:" + x.w.vname, witness(x, p).str("form", form).str("what", "pointer replaced"));
                x.abandoned = true;
                return r;
            }
            x.sp->interpolate(x.a, x.b, f, x.ref);
            if (!x.sp->equalStates(x.ref, store))
            {
                double d = x.sp->distance(x.ref, store);
                if (!(d <= 1e-9 * (1 + x.extent)))
                {
                    x.sink.viol("C05:lastvalid-state:" + x.w.vname,
                                witness(x, p).str("form", form).num("fraction", f).num("distance_to_reference", d)
                                    .arr("returned", realsOf(x.sp, store)).arr("reference", realsOf(x.sp, x.ref)));
                    x.abandoned = true;
                    return r;
                }
            }
            // the other input must not have been modified
            if (mode == LV_ALIAS_A && !sameBytes(x, x.b, s2)) x.sink.viol("C05:lastvalid-state:" + x.w.vname, witness(x, p).str("what", "s2 modified"));
        }
        return r;
    }

    static void checkPred(Ctx &x, const Pred &p, bool extraForms)
    {
        if (x.abandoned) return;
        x.pred = &p;
        if (!p.eval(x.a))
        {
            x.sink.count("c05_skipped_start_invalid");
            return;
        }
        unsigned firstBad = 0;
        for (unsigned j = 1; j <= x.M; ++j)
            if (!p.eval(x.P[j]))
            {
                firstBad = j;
                break;
            }
        bool expected = firstBad == 0;
        x.sink.count("c05_preds");
        x.sink.count(expected ? "c05_expected_valid" : "c05_expected_invalid");
        x.sink.count(std::string("c05_pred_") + p.name());
        if (!expected && firstBad == x.M) x.sink.count("c05_first_invalid_is_end");
        if (!expected && firstBad == 1 && x.M > 1) x.sink.count("c05_first_invalid_is_p1");
        if (!expected && firstBad + 1 == x.M) x.sink.count("c05_first_invalid_is_last_interior");

        // form 1: checkMotion(a,b)
        unsigned v0 = x.mv->getValidMotionCount(), i0 = x.mv->getInvalidMotionCount();
        x.rec.begin();
        bool r1 = x.si->checkMotion(x.a, x.b);
        x.rec.end();
        x.sink.count("c05_calls");
        x.sink.count("c05_queries", x.rec.q);
        x.sink.count("c05_queries_offgrid", x.rec.off);
        x.sink.count("c05_queries_dup", x.rec.dup);
        x.sink.maxstat("c05_max_queries_over_nd_plus1", (double)x.rec.q / (double)(x.nd + 1));
        checkCounters(x, p, "plain", r1, v0, i0);
        bool concl1 = true;
        if (r1 != expected)
        {
            if (x.rec.off > 0 && !offgridExplained(x))
            {
                x.sink.inconclusive("c05-offgrid-query");
                concl1 = false;
            }
            else
            {
                x.sink.viol("C05:verdict:" + x.w.vname, witness(x, p).str("form", "plain").b("returned", r1)
                                                             .b("expected", expected).i("first_invalid_j", firstBad));
                x.abandoned = true;
                return;
            }
        }
        // form 2: checkMotion(a,b,lastValid)
        bool concl2 = true;
        bool r2 = runLastValidForm(x, p, firstBad, LV_OWN, concl2);
        if (x.abandoned) return;
        if ((!concl1 || !concl2) && r1 != r2)
        {
            x.sink.viol("C05:forms-disagree:" + x.w.vname, witness(x, p).b("plain", r1).b("lastValid", r2));
            x.abandoned = true;
            return;
        }
        x.sink.count("c05_form_agreement_checks");
        if (extraForms)
        {
            bool c;
            runLastValidForm(x, p, firstBad, LV_NULL, c);
            if (!x.abandoned) runLastValidForm(x, p, firstBad, LV_ALIAS_A, c);
            if (!x.abandoned) runLastValidForm(x, p, firstBad, LV_ALIAS_B, c);
            x.sink.count("c05_alias_rounds");
        }
    }

    // ---- pair generation ---------------------------------------------------------------------------------
    enum PairType
    {
        PT_RANDOM,
        PT_IDENTICAL,
        PT_NEAR,
        PT_KSEG,
        PT_BOUNDS,
        PT_SEAM,
        PT_ANTIPODAL,
        PT_N
    };
    static const char *PTNAME[] = {"random", "identical", "near", "ksegments", "bound-to-bound", "seam", "antipodal"};

    static void quatMul(const ob::SO3StateSpace::StateType *a, double rx, double ry, double rz, double rw,
                        ob::SO3StateSpace::StateType *out)
    {
        double x = a->w * rx + a->x * rw + a->y * rz - a->z * ry;
        double y = a->w * ry - a->x * rz + a->y * rw + a->z * rx;
        double z = a->w * rz + a->x * ry - a->y * rx + a->z * rw;
        double w = a->w * rw - a->x * rx - a->y * ry - a->z * rz;
        double n = std::sqrt(x * x + y * y + z * z + w * w);
        out->x = x / n, out->y = y / n, out->z = z / n, out->w = w / n;
    }

    static void makePair(Ctx &x, PairType pt)
    {
        Rng &rng = x.rng;
        const ob::StateSpace *sp = x.sp;
        randomState(rng, sp, x.a);
        randomState(rng, sp, x.b);
        double lvs = sp->getLongestValidSegmentLength();
        switch (pt)
        {
            case PT_RANDOM:
                break;
            case PT_IDENTICAL:
                sp->copyState(x.b, x.a);
                break;
            case PT_NEAR:
            {
                // b = a displaced by a fraction of one valid segment in every leaf
                double frac = rng.coin(0.3) ? rng.logUni(1e-12, 1) : rng.uni(0, 1.5);
                forLeaves2(sp, x.a, x.b, [&](const ob::StateSpace *l, ob::State *la, ob::State *lb) {
                    double step = frac * l->getLongestValidSegmentLength();
                    switch (l->getType())
                    {
                        case ob::STATE_SPACE_REAL_VECTOR:
                        {
                            auto *rv = l->as<ob::RealVectorStateSpace>();
                            unsigned n = rv->getDimension();
                            auto *va = la->as<ob::RealVectorStateSpace::StateType>()->values;
                            auto *vb = lb->as<ob::RealVectorStateSpace::StateType>()->values;
                            for (unsigned i = 0; i < n; ++i)
                            {
                                double v = va[i] + rng.uni(-1, 1) * step / std::sqrt((double)n);
                                vb[i] = std::min(std::max(v, rv->getBounds().low[i]), rv->getBounds().high[i]);
                            }
                            break;
                        }
                        case ob::STATE_SPACE_SO2:
                            lb->as<ob::SO2StateSpace::StateType>()->value =
                                wrapPi(la->as<ob::SO2StateSpace::StateType>()->value + rng.uni(-1, 1) * step);
                            break;
                        case ob::STATE_SPACE_SO3:
                        {
                            double ang = rng.uni(0, 1) * step, ax = rng.gauss(), ay = rng.gauss(), az = rng.gauss();
                            double n = std::sqrt(ax * ax + ay * ay + az * az) + 1e-300, s = std::sin(ang / 2);
                            quatMul(la->as<ob::SO3StateSpace::StateType>(), s * ax / n, s * ay / n, s * az / n,
                                    std::cos(ang / 2), lb->as<ob::SO3StateSpace::StateType>());
                            break;
                        }
                        default:
                            l->copyState(lb, la);
                            break;
                    }
                });
                break;
            }
            case PT_KSEG:
            {
                double d0 = sp->distance(x.a, x.b);
                int k = rng.range(1, 6);
                double t = d0 > 0 ? k * lvs / d0 : 2;
                if (rng.coin(0.5)) t *= 1 + rng.range(-4, 4) * 1.1e-16;
                if (t < 1)
                {
                    sp->interpolate(x.a, x.b, t, x.ref);
                    sp->copyState(x.b, x.ref);
                }
                break;
            }
            case PT_BOUNDS:
                forLeaves2(sp, x.a, x.b, [&](const ob::StateSpace *l, ob::State *la, ob::State *lb) {
                    if (l->getType() == ob::STATE_SPACE_REAL_VECTOR)
                    {
                        auto *rv = l->as<ob::RealVectorStateSpace>();
                        for (unsigned i = 0; i < rv->getDimension(); ++i)
                        {
                            int m = rng.range(0, 3);
                            double lo = rv->getBounds().low[i], hi = rv->getBounds().high[i];
                            la->as<ob::RealVectorStateSpace::StateType>()->values[i] = (m == 1) ? hi : lo;
                            lb->as<ob::RealVectorStateSpace::StateType>()->values[i] = (m == 1 || m == 2) ? lo : hi;
                        }
                    }
                    else if (l->getType() == ob::STATE_SPACE_DISCRETE)
                    {
                        auto *d = l->as<ob::DiscreteStateSpace>();
                        la->as<ob::DiscreteStateSpace::StateType>()->value = d->getLowerBound();
                        lb->as<ob::DiscreteStateSpace::StateType>()->value = d->getUpperBound();
                    }
                    else if (l->getType() == ob::STATE_SPACE_SO2)
                    {
                        la->as<ob::SO2StateSpace::StateType>()->value = -PI;
                        lb->as<ob::SO2StateSpace::StateType>()->value = rng.coin() ? std::nextafter(PI, 0.0) : 0.0;
                    }
                });
                break;
            case PT_SEAM:
                forLeaves2(sp, x.a, x.b, [&](const ob::StateSpace *l, ob::State *la, ob::State *lb) {
                    if (l->getType() != ob::STATE_SPACE_SO2) return;
                    static const double D[] = {0, 1e-15, 1e-12, 1e-9, 1e-6, 1e-3, 0.01, 0.3, 1.2};
                    double da = D[rng.ui(9)], db = D[rng.ui(9)];
                    double hi = da == 0 ? std::nextafter(PI, 0.0) : PI - da, lo = -PI + db;
                    bool sw = rng.coin();
                    la->as<ob::SO2StateSpace::StateType>()->value = sw ? lo : hi;
                    lb->as<ob::SO2StateSpace::StateType>()->value = sw ? hi : lo;
                });
                break;
            case PT_ANTIPODAL:
                forLeaves2(sp, x.a, x.b, [&](const ob::StateSpace *l, ob::State *la, ob::State *lb) {
                    static const double E[] = {0, 0, 1e-15, -1e-15, 1e-12, -1e-12, 1e-6, -1e-6};
                    if (l->getType() == ob::STATE_SPACE_SO2)
                    {
                        double va = la->as<ob::SO2StateSpace::StateType>()->value;
                        lb->as<ob::SO2StateSpace::StateType>()->value = wrapPi((va >= 0 ? va - PI : va + PI) + E[rng.ui(8)]);
                    }
                    else if (l->getType() == ob::STATE_SPACE_SO3)
                    {
                        double ax = rng.gauss(), ay = rng.gauss(), az = rng.gauss();
                        double n = std::sqrt(ax * ax + ay * ay + az * az) + 1e-300, ang = PI + E[rng.ui(8)];
                        double s = std::sin(ang / 2);
                        quatMul(la->as<ob::SO3StateSpace::StateType>(), s * ax / n, s * ay / n, s * az / n, std::cos(ang / 2),
                                lb->as<ob::SO3StateSpace::StateType>());
                    }
                });
                break;
            default:
                break;
        }
        if (!sp->satisfiesBounds(x.a)) sp->enforceBounds(x.a);
        if (!sp->satisfiesBounds(x.b)) sp->enforceBounds(x.b);
    }

    template <class S>
    static bool hasPath3D(const ob::StateSpace *sp, const ob::State *a, const ob::State *b)
    {
        auto *s = dynamic_cast<const S *>(sp);
        return s && s->getPath(a, b).has_value();
    }

    // ---- the state-list helpers of SpaceInformation ------------------------------------------------------
    static void checkStateList(Ctx &x, long budget)
    {
        Sink &sink = x.sink;
        Rng &rng = x.rng;
        std::vector<ob::State *> states;
        unsigned inter = x.nd >= 2 ? x.nd - 1 : 0;
        unsigned got = x.si->getMotionStates(x.a, x.b, states, inter, true, true);
        sink.count("c05_motionstates_calls");
        bool okList = got == states.size() && got == inter + 2;
        if (okList)
            for (unsigned j = 0; j < got && okList; ++j)
            {
                const ob::State *want = j == 0 ? x.a : (j == got - 1 ? x.b : x.P[j]);
                if (!x.sp->equalStates(states[j], want)) okList = false;
            }
        if (!okList)
        {
            Pred dummy;
            sink.viol("C05:statelist-extract:SpaceInformation", witness(x, dummy).i("returned", got).i("size", (long long)states.size())
                                                                       .i("requested_intermediate", inter));
            for (auto *s : states)
                if (s) x.sp->freeState(s);
            return;
        }
        unsigned n = (unsigned)states.size();
        // how many "invalid exactly at index i" predicates
        long per = std::max<long>(1, budget / std::max(1u, n));
        std::vector<unsigned> idx;
        if ((long)n <= per)
            for (unsigned i = 0; i < n; ++i) idx.push_back(i);
        else
        {
            idx = {0, 1, 2, n / 2 - 1, n / 2, n / 2 + 1, n - 3, n - 2, n - 1};
            while ((long)idx.size() < per) idx.push_back((unsigned)rng.ui(n));
        }
        auto runOne = [&](const Pred &p, unsigned cnt) {
            x.pred = &p;
            unsigned firstInv = cnt;  // cnt = none
            for (unsigned i = 0; i < cnt; ++i)
                if (!p.eval(states[i]))
                {
                    firstInv = i;
                    break;
                }
            bool expected = firstInv == cnt;
            x.rec.begin();
            bool r1 = x.si->checkMotion(states, cnt);
            x.rec.end();
            sink.count("c05_statelist_calls");
            sink.count("c05_statelist_queries", x.rec.q);
            if (r1 != expected)
                sink.viol("C05:statelist-verdict:SpaceInformation", witness(x, p).str("form", "subdivision").i("count", cnt)
                                                                           .b("returned", r1).i("first_invalid_index", expected ? -1 : (long long)firstInv));
            unsigned fi = 0xdeadbeefu;
            x.rec.begin();
            bool r2 = x.si->checkMotion(states, cnt, fi);
            x.rec.end();
            sink.count("c05_statelist_calls");
            if (r2 != expected)
                sink.viol("C05:statelist-verdict:SpaceInformation", witness(x, p).str("form", "incremental").i("count", cnt)
                                                                           .b("returned", r2).i("first_invalid_index", expected ? -1 : (long long)firstInv));
            else if (!r2 && fi != firstInv)
                sink.viol("C05:statelist-firstinvalid:SpaceInformation",
                          witness(x, p).i("count", cnt).i("returned_index", fi).i("least_invalid_index", firstInv));
            else if (r2 && fi != 0xdeadbeefu)
                sink.viol("C05:statelist-firstinvalid:SpaceInformation",
                          witness(x, p).i("count", cnt).i("returned_index", fi).str("what", "modified although the list is valid"));
            if (!expected) sink.count("c05_statelist_invalid_lists");
        };
        for (unsigned i : idx)
        {
            if (i >= n) continue;
            Pred p;
            p.mode = Pred::FORBID;
            p.sp = x.sp;
            p.forb = {states[i]};
            unsigned cnt = rng.coin(0.7) ? n : (unsigned)rng.range(0, (int)n);
            runOne(p, cnt);
        }
        {
            Pred p;  // all valid, every prefix length that is small + full
            for (unsigned cnt : {0u, 1u, 2u, 3u, n})
                if (cnt <= n) runOne(p, cnt);
        }
        for (unsigned pm : {20u, 200u})
        {
            Pred p;
            p.mode = Pred::HASH;
            p.sp = x.sp;
            p.salt = rng.u64();
            p.permille = pm;
            runOne(p, n);
            runOne(p, (unsigned)rng.range(0, (int)n));
        }
        for (auto *s : states) x.sp->freeState(s);
    }

    static void runCase(Sink &sink, const Args &args, long c)
    {
        Rng rng(caseSeed(args, c));
        Kind kind = TABLE[c % NTABLE];
        // The Dubins3D validators (Owen / Vana / VanaOwen spaces) are opt-in (--dubins3d 1): every path query of these
        // spaces static_casts its 4/5-dimensional compound state to DubinsStateSpace::StateType
        // (DubinsStateSpace.cpp:862), which UBSan's vptr check reports and, with -fno-sanitize-recover, aborts on.
        if (kind >= K_OWEN && args.get("dubins3d") != "1")
            kind = kind == K_OWEN ? K_DUBINS : kind == K_VANA ? K_RS : K_COMPOUND;
        World w = makeWorld(rng, kind);
        double res = rng.logUni(0.001, 0.3);
        unsigned factor = rng.range(1, 4);
        if (w.is3d) res = rng.logUni(0.01, 0.3);  // curves are expensive to evaluate
        w.si->setStateValidityCheckingResolution(res);
        w.sp->setValidSegmentCountFactor(factor);

        Ctx x{sink, w, rng, w.sp.get(), w.si.get(), nullptr, nullptr, nullptr, 0, 1, {}, {}, nullptr,
              nullptr, nullptr, nullptr, nullptr, nullptr, 0.0, false, ""};
        w.si->setStateValidityChecker([&x](const ob::State *s) {
            if (x.rec.on) x.rec.note(s);
            return x.pred ? x.pred->eval(s) : true;
        });
        w.si->setup();
        x.mv = w.si->getMotionValidator().get();
        // the validator under test must be the one the space installs by default
        bool okv = false;
        if (w.vname == "DiscreteMotionValidator") okv = dynamic_cast<const ob::DiscreteMotionValidator *>(x.mv) != nullptr;
        else if (w.vname == "DubinsMotionValidator") okv = dynamic_cast<const ob::DubinsMotionValidator *>(x.mv) != nullptr;
        else if (w.vname == "ReedsSheppMotionValidator") okv = dynamic_cast<const ob::ReedsSheppMotionValidator *>(x.mv) != nullptr;
        else
            okv = dynamic_cast<const ob::Dubins3DMotionValidator<ob::OwenStateSpace> *>(x.mv) ||
                  dynamic_cast<const ob::Dubins3DMotionValidator<ob::VanaStateSpace> *>(x.mv) ||
                  dynamic_cast<const ob::Dubins3DMotionValidator<ob::VanaOwenStateSpace> *>(x.mv);
        if (!okv)
        {
            fprintf(stderr, "h_motion: unexpected default motion validator for %s\n", w.desc.c_str());
            exit(2);
        }
        x.extent = w.sp->getMaximumExtent();
        x.rec.sp = x.sp;
        x.a = x.sp->allocState();
        x.b = x.sp->allocState();
        x.lv = x.sp->allocState();
        x.junk = x.sp->allocState();
        x.ref = x.sp->allocState();
        x.a2 = x.sp->allocState();
        x.b2 = x.sp->allocState();
        randomState(rng, x.sp, x.junk);
        randomState(rng, x.sp, x.lv);
        randomState(rng, x.sp, x.ref);

        PairType pt = (PairType)rng.ui(PT_N);
        if (rng.coin(0.2)) pt = PT_RANDOM;
        if (w.is3d && (pt == PT_BOUNDS || pt == PT_SEAM || pt == PT_ANTIPODAL)) pt = PT_RANDOM;
        makePair(x, pt);

        bool skip = false;
        if (w.is3d)
        {
            bool has = hasPath3D<ob::OwenStateSpace>(x.sp, x.a, x.b) || hasPath3D<ob::VanaStateSpace>(x.sp, x.a, x.b) ||
                       hasPath3D<ob::VanaOwenStateSpace>(x.sp, x.a, x.b);
            if (!has)
            {
                // no curve between the poses: the statement's reference (interpolation points) is undefined
                sink.inconclusive("c05-no-3d-path");
                skip = true;
            }
        }
        if (!skip)
        {
            x.nd = x.sp->validSegmentCount(x.a, x.b);
            // work bound: huge segment counts of expensive curves are thinned by re-drawing the resolution once
            x.M = std::max(1u, x.nd);
            x.P.resize(x.M + 1);
            x.P[0] = x.sp->cloneState(x.a);
            for (unsigned j = 1; j < x.M; ++j)
            {
                x.P[j] = x.sp->allocState();
                x.sp->interpolate(x.a, x.b, (double)j / (double)x.nd, x.P[j]);
            }
            x.P[x.M] = x.sp->cloneState(x.b);
            x.rec.stamp.assign(x.M + 1, 0);
            for (unsigned j = 0; j <= x.M; ++j) x.rec.index.emplace(x.rec.key(x.P[j]), (int)j);

            sink.count(std::string("c05_space_") + KNAME[kind]);
            sink.count(std::string("c05_validator_") + w.vname);
            sink.count(std::string("c05_pair_") + PTNAME[pt]);
            if (x.nd == 0) sink.count("c05_pairs_nd0");
            if (x.nd == 0 && !x.sp->equalStates(x.a, x.b)) sink.count("c05_pairs_nd0_distinct_states");
            if (x.nd == 1) sink.count("c05_pairs_nd1");
            if (x.nd >= 2) sink.count("c05_pairs_nd_ge2");
            sink.maxstat("c05_max_nd", x.nd);

            // budget in interpolation-equivalents
            double budget = (args.thorough() ? 270000.0 : 24000.0) / w.cost;
            long nj = (long)std::min<double>(x.M, std::max(6.0, budget / x.M));
            std::vector<unsigned> js;
            bool exhaustive = nj + 16 >= (long)x.M;
            if (exhaustive)
                for (unsigned j = 1; j <= x.M; ++j) js.push_back(j);
            else
            {
                long m = x.M;
                std::set<long> s = {1, 2, 3, m / 4, m / 2 - 1, m / 2, m / 2 + 1, (3 * m) / 4, m - 2, m - 1, m};
                while ((long)s.size() < nj + 5) s.insert(1 + (long)rng.ui(x.M));
                for (long j : s)
                    if (j >= 1 && j <= m) js.push_back((unsigned)j);
            }
            if (exhaustive && x.M >= 2) sink.count("c05_pairs_exhaustive_j");
            for (unsigned j : js)
            {
                if (x.abandoned) break;
                if (x.sp->equalStates(x.P[j], x.a))
                {
                    sink.count("c05_skipped_point_equals_start");
                    continue;
                }
                Pred p;
                p.mode = Pred::FORBID;
                p.sp = x.sp;
                p.forb = {x.P[j]};
                bool extra = j <= 2 || j + 2 >= x.M || rng.coin(0.1);
                sink.count("c05_preds_invalid_at_j");
                checkPred(x, p, extra);
            }
            // all valid
            {
                Pred p;
                checkPred(x, p, true);
            }
            // random point sets
            for (int rep = 0; rep < 2 && x.M >= 2; ++rep)
            {
                Pred p;
                p.mode = Pred::FORBID;
                p.sp = x.sp;
                int k = rng.range(2, 6);
                for (int i = 0; i < k; ++i)
                {
                    unsigned j = 1 + (unsigned)rng.ui(x.M);
                    if (!x.sp->equalStates(x.P[j], x.a)) p.forb.push_back(x.P[j]);
                }
                checkPred(x, p, rng.coin(0.3));
            }
            for (unsigned pm : {3u, 40u, 300u})
            {
                Pred p;
                p.mode = Pred::HASH;
                p.sp = x.sp;
                p.permille = pm;
                for (int tries = 0; tries < 30; ++tries)
                {
                    p.salt = rng.u64();
                    if (p.eval(x.a)) break;
                }
                checkPred(x, p, rng.coin(0.3));
            }
            // half-spaces over the real-valued chart
            {
                std::vector<double> ra = realsOf(x.sp, x.a), rb = realsOf(x.sp, x.b);
                for (int rep = 0; rep < 3; ++rep)
                {
                    Pred p;
                    p.mode = Pred::HALFSPACE;
                    p.sp = x.sp;
                    p.w.resize(ra.size());
                    double va = 0, vb = 0;
                    for (size_t i = 0; i < ra.size(); ++i)
                    {
                        p.w[i] = rng.gauss();
                        va += p.w[i] * ra[i];
                        vb += p.w[i] * rb[i];
                    }
                    if (vb < va)
                    {
                        for (auto &v : p.w) v = -v;
                        va = -va;
                        vb = -vb;
                    }
                    p.c = va + rng.uni(0.02, 1.2) * (vb - va) + 1e-12 * (1 + std::fabs(va));
                    checkPred(x, p, rng.coin(0.3));
                }
            }
            // balls (metric half-spaces)
            for (int rep = 0; rep < 2; ++rep)
            {
                Pred p;
                p.sp = x.sp;
                if (rep == 0)
                {
                    p.mode = Pred::BALL_OUT;
                    p.anchor = rng.coin() ? x.P[1 + rng.ui(x.M)] : x.junk;
                    double da = x.sp->distance(p.anchor, x.a);
                    if (!(da > 0)) continue;
                    p.r = rng.uni(0, 0.999) * da;
                }
                else
                {
                    p.mode = Pred::BALL_IN;
                    p.anchor = x.a;
                    p.r = rng.uni(0, 1.2) * x.sp->distance(x.a, x.b);
                }
                checkPred(x, p, rng.coin(0.3));
            }
            x.pred = nullptr;
            checkStateList(x, (long)(budget / 8));
            x.pred = nullptr;

            uint64_t h = hmix(hashStr(w.desc), x.nd);
            for (double v : realsOf(x.sp, x.a)) h = hmixd(h, v);
            for (double v : realsOf(x.sp, x.b)) h = hmixd(h, v);
            h = hmixd(h, res);
            sink.noteCase(h, x.nd >= 2);
            sink.sample(J().str("space", w.desc).str("validator", w.vname).num("resolution", res).i("factor", factor)
                            .str("pair", PTNAME[pt]).i("nd", x.nd).i("invalid_at_j_predicates", (long long)js.size())
                            .b("exhaustive_in_j", exhaustive));
        }
        x.rec.clearOff();
        for (auto *s : x.P) x.sp->freeState(s);
        for (auto *s : {x.a, x.b, x.lv, x.junk, x.ref, x.a2, x.b2}) x.sp->freeState(s);
        // drop the checker's reference to the stack context before the world dies
        w.si->setStateValidityChecker([](const ob::State *) { return true; });
    }
}  // namespace c05

// =====================================================================================================
// C14
// =====================================================================================================
namespace c14
{
    struct Pose
    {
        double x, y, th;
    };
    static double m2p(double v)  // [0, 2pi)
    {
        double r = std::fmod(v, TWO_PI);
        if (r < 0) r += TWO_PI;
        if (r >= TWO_PI) r = 0;
        return r;
    }
    static double angDiff(double a, double b) { return std::remainder(a - b, TWO_PI); }

    // ---- independent geometric six-word Dubins solver (unit turning radius) ------------------------------
    // Words are built from circle centres and tangent lines (not from the Shkel-Lumelsky closed forms the library uses) and every
    // candidate is certified by integrating it from the start pose: only curves that really reach the goal are admitted.
    enum Seg
    {
        SL,
        SS,
        SR
    };
    static const Seg WORDS[6][3] = {{SL, SS, SL}, {SR, SS, SR}, {SL, SS, SR}, {SR, SS, SL}, {SR, SL, SR}, {SL, SR, SL}};
    static const char *WNAME[6] = {"LSL", "RSR", "LSR", "RSL", "RLR", "LRL"};

    static Pose integrate(Pose s, const Seg *w, const double *len)
    {
        for (int i = 0; i < 3; ++i)
        {
            double v = len[i];
            switch (w[i])
            {
                case SL:
                    s.x += std::sin(s.th + v) - std::sin(s.th);
                    s.y += -std::cos(s.th + v) + std::cos(s.th);
                    s.th += v;
                    break;
                case SR:
                    s.x += -std::sin(s.th - v) + std::sin(s.th);
                    s.y += std::cos(s.th - v) - std::cos(s.th);
                    s.th -= v;
                    break;
                case SS:
                    s.x += v * std::cos(s.th);
                    s.y += v * std::sin(s.th);
                    break;
            }
        }
        return s;
    }
    static double poseErr(const Pose &a, const Pose &b)
    {
        return std::hypot(a.x - b.x, a.y - b.y) + std::fabs(angDiff(a.th, b.th));
    }

    struct RefResult
    {
        double exact = 1e300;    // shortest certified (1e-9) word
        double snapped = 1e300;  // shortest word when arcs within 1e-6 of a full turn count as zero (library resolution)
        int word = -1;
        int certified = 0, loose = 0, rejected = 0;
    };

    static void consider(RefResult &R, const Pose &s, const Pose &g, int word, double t, double p, double q)
    {
        if (!(std::isfinite(t) && std::isfinite(p) && std::isfinite(q)) || p < 0) return;
        // rounding-level snap: an arc of 2pi - 1e-12 is an arc of zero length whose sign was lost in rounding
        auto tiny = [](double a) { return (TWO_PI - a < 1e-12) ? 0.0 : a; };
        bool ccc = word >= 4;
        double L[3] = {tiny(t), ccc ? tiny(p) : p, tiny(q)};
        double len = L[0] + L[1] + L[2];
        Pose e = integrate(s, WORDS[word], L);
        double err = poseErr(e, g);
        if (err <= 1e-9 * (1 + len))
        {
            ++R.certified;
            if (len < R.exact)
            {
                R.exact = len;
                R.word = word;
            }
            if (len < R.snapped) R.snapped = len;
        }
        else if (err <= 1e-5 * (1 + len))
        {
            // reaches the goal only at the library's declared resolution (e.g. an inner tangent between circles that overlap by
            // less than 1e-6): not a witness that a shorter exact curve exists, but a length the library may legitimately report
            ++R.loose;
            if (len < R.snapped) R.snapped = len;
        }
        else
            ++R.rejected;
        // declared-resolution snap
        bool any = false;
        double S[3] = {L[0], L[1], L[2]};
        for (int i = 0; i < 3; ++i)
            if ((i != 1 || ccc) && TWO_PI - S[i] < 1e-6)
            {
                S[i] = 0;
                any = true;
            }
        if (any)
        {
            double slen = S[0] + S[1] + S[2];
            Pose e2 = integrate(s, WORDS[word], S);
            if (poseErr(e2, g) <= 1e-5 * (1 + slen) && slen < R.snapped) R.snapped = slen;
        }
    }

    // heading of a unit-speed car at point P of a circle with centre C
    static double headingOnLeft(double px, double py, double cx, double cy) { return std::atan2(px - cx, -(py - cy)); }
    static double headingOnRight(double px, double py, double cx, double cy) { return std::atan2(-(px - cx), py - cy); }

    static RefResult refDubins(const Pose &s, const Pose &g)
    {
        RefResult R;
        double lsx = s.x - std::sin(s.th), lsy = s.y + std::cos(s.th), rsx = s.x + std::sin(s.th), rsy = s.y - std::cos(s.th);
        double lgx = g.x - std::sin(g.th), lgy = g.y + std::cos(g.th), rgx = g.x + std::sin(g.th), rgy = g.y - std::cos(g.th);
        // LSL
        {
            double vx = lgx - lsx, vy = lgy - lsy, D = std::hypot(vx, vy);
            if (D < 1e-13)
                consider(R, s, g, 0, m2p(g.th - s.th), 0, 0);
            else
            {
                double phi = std::atan2(vy, vx);
                consider(R, s, g, 0, m2p(phi - s.th), D, m2p(g.th - phi));
            }
        }
        // RSR
        {
            double vx = rgx - rsx, vy = rgy - rsy, D = std::hypot(vx, vy);
            if (D < 1e-13)
                consider(R, s, g, 1, m2p(s.th - g.th), 0, 0);
            else
            {
                double phi = std::atan2(vy, vx);
                consider(R, s, g, 1, m2p(s.th - phi), D, m2p(phi - g.th));
            }
        }
        // LSR: inner tangent from the start's left circle to the goal's right circle
        {
            double vx = rgx - lsx, vy = rgy - lsy, D2 = vx * vx + vy * vy;
            if (D2 >= 4 - 1e-6)
            {
                double p = std::sqrt(std::max(D2 - 4, 0.0)), psi = std::atan2(vy, vx) + std::atan2(2.0, p);
                consider(R, s, g, 2, m2p(psi - s.th), p, m2p(psi - g.th));
            }
        }
        // RSL
        {
            double vx = lgx - rsx, vy = lgy - rsy, D2 = vx * vx + vy * vy;
            if (D2 >= 4 - 1e-6)
            {
                double p = std::sqrt(std::max(D2 - 4, 0.0)), psi = std::atan2(vy, vx) - std::atan2(2.0, p);
                consider(R, s, g, 3, m2p(s.th - psi), p, m2p(g.th - psi));
            }
        }
        // RLR / LRL: middle circle tangent to both, on either side of the centre line
        for (int word = 4; word <= 5; ++word)
        {
            double c0x = word == 4 ? rsx : lsx, c0y = word == 4 ? rsy : lsy, c1x = word == 4 ? rgx : lgx, c1y = word == 4 ? rgy : lgy;
            double vx = c1x - c0x, vy = c1y - c0y, D = std::hypot(vx, vy);
            if (D > 4 + 1e-9) continue;
            double phi = D < 1e-13 ? 0.0 : std::atan2(vy, vx), delta = std::acos(std::min(1.0, D / 4));
            for (int side = -1; side <= 1; side += 2)
            {
                double mx = c0x + 2 * std::cos(phi + side * delta), my = c0y + 2 * std::sin(phi + side * delta);
                double p1x = (c0x + mx) / 2, p1y = (c0y + my) / 2, p2x = (mx + c1x) / 2, p2y = (my + c1y) / 2;
                if (word == 4)
                {
                    double psi1 = headingOnRight(p1x, p1y, c0x, c0y), psi2 = headingOnRight(p2x, p2y, c1x, c1y);
                    consider(R, s, g, 4, m2p(s.th - psi1), m2p(psi2 - psi1), m2p(psi2 - g.th));
                }
                else
                {
                    double psi1 = headingOnLeft(p1x, p1y, c0x, c0y), psi2 = headingOnLeft(p2x, p2y, c1x, c1y);
                    consider(R, s, g, 5, m2p(psi1 - s.th), m2p(psi1 - psi2), m2p(g.th - psi2));
                }
            }
        }
        return R;
    }

    // ---- context -------------------------------------------------------------------------------------------
    using SE2 = ob::SE2StateSpace::StateType;
    struct Ctx
    {
        Sink &sink;
        double rho;
        std::shared_ptr<ob::DubinsStateSpace> D, DS;
        std::shared_ptr<ob::ReedsSheppStateSpace> RS;
        SE2 *a, *b, *p, *q;
        std::string mode;
    };
    static Pose poseOf(const SE2 *s) { return {s->getX(), s->getY(), s->getYaw()}; }
    static void setPose(SE2 *s, const Pose &p)
    {
        s->setXY(p.x, p.y);
        s->setYaw(wrapPi(p.th));
    }
    static J witness(Ctx &x, const char *space)
    {
        J j;
        j.str("space", space).num("rho", x.rho).str("mode", x.mode).arr("a", {x.a->getX(), x.a->getY(), x.a->getYaw()})
            .arr("b", {x.b->getX(), x.b->getY(), x.b->getYaw()});
        return j;
    }
    static RefResult refFor(double rho, const Pose &s, const Pose &g)
    {
        Pose s0{0, 0, s.th}, g0{(g.x - s.x) / rho, (g.y - s.y) / rho, g.th};
        return refDubins(s0, g0);
    }

    // ---- vehicle-model polyline oracle ------------------------------------------------------------------
    // which: 0 Dubins, 1 symmetric Dubins, 2 Reeds-Shepp
    static void polyline(Ctx &x, int which, double LL, int N)
    {
        static const char *SPN[] = {"DubinsStateSpace", "DubinsStateSpace", "ReedsSheppStateSpace"};
        static const char *LBL[] = {"Dubins", "DubinsSymmetric", "ReedsShepp"};
        const ob::StateSpace *S = which == 0 ? (ob::StateSpace *)x.D.get() : which == 1 ? (ob::StateSpace *)x.DS.get() : (ob::StateSpace *)x.RS.get();
        Sink &sink = x.sink;
        const double rho = x.rho, tol = 1e-5 * rho * (1 + LL / rho), tola = 1e-5;
        const double mag = std::max(std::max(std::fabs(x.a->getX()), std::fabs(x.a->getY())), std::max(std::fabs(x.b->getX()), std::fabs(x.b->getY())));
        const double tolp = 1e-9 * (1 + mag + LL);
        const double h = LL / N;
        const int maxSwitch = which == 2 ? 4 : 2;
        int nsw = 0, nfwd = 0, nback = 0;
        long hard = 0;
        double est = 0, worstHard = 0;
        int firstHardK = -1;
        S->interpolate(x.a, x.b, 0.0, x.p);
        // the curve starts at the start pose
        if (std::hypot(x.p->getX() - x.a->getX(), x.p->getY() - x.a->getY()) > tol || std::fabs(angDiff(x.p->getYaw(), x.a->getYaw())) > tol / rho)
            sink.viol(std::string("C14:end-pose:") + SPN[which], witness(x, LBL[which]).str("what", "interpolate(a,b,0) is not a"));
        SE2 *p = x.p, *q = x.q;
        for (int k = 1; k <= N; ++k)
        {
            // the last sample is the integrated end of the curve (t just below 1), not the copy of b that t = 1 returns: the gap
            // between the two is the end-pose clause, not a property of the curve's shape
            S->interpolate(x.a, x.b, k < N ? (double)k / N : std::nextafter(1.0, 0.0), q);
            double dx = q->getX() - p->getX(), dy = q->getY() - p->getY(), ds = std::hypot(dx, dy);
            double dth = angDiff(q->getYaw(), p->getYaw()), mid = p->getYaw() + dth / 2;
            double cross = std::fabs(dx * std::sin(mid) - dy * std::cos(mid)), dot = dx * std::cos(mid) + dy * std::sin(mid);
            // hard bounds hold on every step, switch samples included
            double hv = std::max(std::fabs(dth) - (h / rho + tola), (ds - (h + tolp)) / rho);
            if (hv > 0)
            {
                ++hard;
                worstHard = std::max(worstHard, hv);
                if (firstHardK < 0) firstHardK = k;
            }
            if (dot > tolp) ++nfwd;
            if (dot < -tolp) ++nback;
            bool straight = std::fabs(dth) <= tola && std::fabs(ds - h) <= tolp && cross <= tolp;
            bool arc = std::fabs(std::fabs(dth) - h / rho) <= tola && std::fabs(ds - 2 * rho * std::sin(std::fabs(dth) / 2)) <= tolp &&
                       cross <= tolp;
            if (straight || arc)
                est += (arc && std::fabs(dth) > tola) ? rho * std::fabs(dth) : (straight ? ds : rho * std::fabs(dth));
            else
            {
                ++nsw;
                est += ds;
            }
            std::swap(p, q);
        }
        sink.count("c14_polyline_steps", N);
        sink.count("c14_polylines");
        sink.count("c14_switch_samples", nsw);
        std::string base = std::string(":") + SPN[which];
        if (hard > 0)
            sink.viol("C14:vehicle-model" + base, witness(x, LBL[which]).str("what", "step exceeds arc length or turning rate").i("steps", N)
                                                       .i("bad_steps", hard).i("first_bad_step", firstHardK).num("worst_excess", worstHard).num("length", LL));
        else if (nsw > maxSwitch)
            sink.viol("C14:vehicle-model" + base, witness(x, LBL[which]).str("what", "too many steps that are neither an arc of the turning radius nor straight")
                                                       .i("steps", N).i("switch_samples", nsw).i("allowed", maxSwitch).num("length", LL));
        else if (which == 0 && nback > 0)
            sink.viol("C14:vehicle-model" + base, witness(x, LBL[which]).str("what", "Dubins curve moves backwards").i("backward_steps", nback));
        else if (which == 1 && nback > 0 && nfwd > 0)
            sink.viol("C14:vehicle-model" + base, witness(x, LBL[which]).str("what", "symmetric Dubins curve changes driving direction")
                                                       .i("backward_steps", nback).i("forward_steps", nfwd));
        if (which == 1 && nback > 0) sink.count("c14_symmetric_reversed_curves");
        if (which == 2 && nback > 0 && nfwd > 0) sink.count("c14_rs_curves_with_reversal");
        // arc length of the sampled curve against the reported distance
        sink.count("c14_length_checks");
        if (hard == 0 && nsw <= maxSwitch && (est > LL + tol || est < LL - nsw * h - tol))
            sink.viol("C14:polyline-length" + base, witness(x, LBL[which]).num("distance", LL).num("curve_length", est).i("steps", N)
                                                         .i("switch_samples", nsw));
        // end pose: the copy at t=1 and the integrated curve just before it
        for (double t : {1.0, std::nextafter(1.0, 0.0)})
        {
            S->interpolate(x.a, x.b, t, x.q);
            double ep = std::hypot(x.q->getX() - x.b->getX(), x.q->getY() - x.b->getY()), ea = std::fabs(angDiff(x.q->getYaw(), x.b->getYaw()));
            sink.count("c14_end_pose_checks");
            sink.maxstat("c14_worst_end_error_over_tol", std::max(ep / tol, ea / (tol / rho)));
            if (ep > tol || ea > tol / rho)
            {
                sink.viol("C14:end-pose" + base, witness(x, LBL[which]).num("t", t).num("position_error", ep).num("heading_error", ea).num("tol", tol));
                break;
            }
        }
    }

    static const char *MODES[] = {"far",          "ccc-region",     "same-position", "collinear",     "quadrant-boundary", "longpath-boundary",
                                  "straight-ahead", "straight-behind", "random",        "near-coincident", "pure-arc",          "far",
                                  "random"};
    static const int NMODES = 13;  // coprime to the usual 16 shards

    static void runPair(Sink &sink, Rng &rng, long modeIndex, uint64_t &caseHash, bool &nontrivial);

    // one case = one pose pair (quick) or four pose pairs (thorough; keeps the per-shard list of case hashes in the done record
    // below the driver's 200 kB tail window)
    static void runCase(Sink &sink, const Args &args, long c)
    {
        Rng rng(caseSeed(args, c));
        const int reps = args.thorough() ? 4 : 1;
        uint64_t h = 1;
        bool nontrivial = false;
        for (int r = 0; r < reps; ++r) runPair(sink, rng, c * reps + r, h, nontrivial);
        sink.noteCase(h, nontrivial);
    }

    static void runPair(Sink &sink, Rng &rng, long modeIndex, uint64_t &caseHash, bool &nontrivial)
    {
        double rho = rng.coin(0.2) ? rng.pick(std::vector<double>{0.1, 0.5, 1.0, 2.0, 10.0}) : rng.logUni(0.1, 10);
        Ctx x{sink, rho, std::make_shared<ob::DubinsStateSpace>(rho), std::make_shared<ob::DubinsStateSpace>(rho, true),
              std::make_shared<ob::ReedsSheppStateSpace>(rho), nullptr, nullptr, nullptr, nullptr, ""};
        double B = 40 * rho + 40;
        ob::RealVectorBounds bd(2);
        bd.setLow(-B);
        bd.setHigh(B);
        x.D->setBounds(bd);
        x.DS->setBounds(bd);
        x.RS->setBounds(bd);
        x.D->setup();
        x.DS->setup();
        x.RS->setup();
        x.a = x.D->allocState()->as<SE2>();
        x.b = x.D->allocState()->as<SE2>();
        x.p = x.D->allocState()->as<SE2>();
        x.q = x.D->allocState()->as<SE2>();

        int mode = (int)(modeIndex % NMODES);
        x.mode = MODES[mode];
        double W = rng.pick(std::vector<double>{0.0, 1.0, 3.0, 10.0, 20.0}) * (rng.coin() ? 1.0 : rho);
        W = std::min(W, B / 2);
        Pose A{rng.uni(-W, W), rng.uni(-W, W), rng.uni(-PI, PI)}, Bp{0, 0, rng.uni(-PI, PI)};
        static const double QD[] = {0, 0, 1e-9, -1e-9, 1e-6, -1e-6, 1e-3, -1e-3};
        double dir = rng.uni(-PI, PI), sep = 0;
        if (rng.coin(0.25)) dir = (PI / 2) * rng.range(-2, 1);
        switch (mode)
        {
            case 0:
            case 11:
                sep = rng.uni(4, 12) * rho;
                break;
            case 1:
                sep = rng.uni(0, 4) * rho;
                break;
            case 2:
                sep = 0;
                break;
            case 3:
                sep = rng.coin(0.5) ? rng.uni(0, 4) * rho : rng.uni(4, 12) * rho;
                A.th = dir + (rng.coin(0.3) ? PI : 0) + (rng.coin(0.3) ? QD[rng.ui(8)] : 0);
                Bp.th = dir + (rng.coin(0.3) ? PI : 0) + (rng.coin(0.3) ? QD[rng.ui(8)] : 0);
                break;
            case 4:
                sep = rng.coin(0.6) ? rng.uni(4, 12) * rho : rng.uni(0, 4) * rho;
                A.th = dir + (PI / 2) * rng.range(0, 4) + QD[rng.ui(8)];
                Bp.th = dir + (PI / 2) * rng.range(0, 4) + QD[rng.ui(8)];
                break;
            case 5:
            {
                double al = rng.coin(0.3) ? (PI / 2) * rng.range(0, 3) : rng.uni(0, TWO_PI), be = rng.coin(0.3) ? (PI / 2) * rng.range(0, 3) : rng.uni(0, TWO_PI);
                double d = std::fabs(std::sin(al)) + std::fabs(std::sin(be)) + std::sqrt(std::max(0.0, 4 - std::pow(std::cos(al) + std::cos(be), 2)));
                sep = std::max(0.0, d + QD[rng.ui(8)]) * rho;
                A.th = dir + al;
                Bp.th = dir + be;
                break;
            }
            case 6:
            case 7:
                sep = rng.logUni(1e-4, 3) * rho;
                dir = A.th + (mode == 7 ? PI : 0);
                Bp.th = A.th;
                break;
            case 8:
            case 12:
            {
                double W2 = std::min(B / 2, 6 * rho);
                Bp.x = rng.uni(-W2, W2) + A.x;
                Bp.y = rng.uni(-W2, W2) + A.y;
                break;
            }
            case 9:
                sep = rng.logUni(1e-8, 1e-4) * rho;
                Bp.th = A.th + (rng.coin() ? 1 : -1) * rng.logUni(1e-8, 1e-4);
                break;
            case 10:
            {
                // goal on one of the start's turning circles, heading tangent (what prefixes of curves look like)
                double phi = rng.coin(0.3) ? rng.logUni(1e-4, 1) : rng.uni(0, TWO_PI);
                int sgn = rng.coin() ? 1 : -1;
                Bp.th = A.th + sgn * phi;
                Bp.x = A.x + sgn * rho * (std::sin(A.th + sgn * phi) - std::sin(A.th));
                Bp.y = A.y - sgn * rho * (std::cos(A.th + sgn * phi) - std::cos(A.th));
                break;
            }
        }
        if (mode != 8 && mode != 12 && mode != 10)
        {
            Bp.x = A.x + sep * std::cos(dir);
            Bp.y = A.y + sep * std::sin(dir);
        }
        setPose(x.a, A);
        setPose(x.b, Bp);
        A = poseOf(x.a);
        Bp = poseOf(x.b);

        sink.count(std::string("c14_mode_") + x.mode);
        const double eu = std::hypot(Bp.x - A.x, Bp.y - A.y);
        const bool coincident = eu < 1e-5 * rho && std::fabs(angDiff(A.th, Bp.th)) < 1e-5;
        const double L = x.D->distance(x.a, x.b), Lr = x.D->distance(x.b, x.a);
        const double Ls = x.DS->distance(x.a, x.b), Ls2 = x.DS->distance(x.b, x.a);
        const double R = x.RS->distance(x.a, x.b), R2 = x.RS->distance(x.b, x.a);
        const double tol = 1e-5 * rho * (1 + L / rho);
        RefResult ref = refFor(rho, A, Bp), refr = refFor(rho, Bp, A);
        sink.count("c14_pairs");
        sink.count("c14_ref_candidates_certified", ref.certified + refr.certified);
        sink.count("c14_ref_candidates_rejected", ref.rejected + refr.rejected);
        sink.count("c14_ref_candidates_resolution_only", ref.loose + refr.loose);
        uint64_t hsh = hmixd(hmixd(hmixd(hmixd(hmixd(hmixd(hmixd(1, rho), A.x), A.y), A.th), Bp.x), Bp.y), Bp.th);

        auto sixWord = [&](double lib, double exact, double snapped, const char *dirn, const char *label) {
            double t = 1e-5 * rho * (1 + lib / rho);
            sink.count("c14_six_word_checks");
            if (exact > 1e299)
            {
                sink.inconclusive("c14-no-certified-reference-word");
                return;
            }
            sink.maxstat("c14_worst_six_word_dev_over_tol", std::max(lib - rho * exact, rho * snapped - lib) / t);
            if (exact - snapped > 1e-9) sink.count("c14_pairs_in_snap_band");
            if (lib > rho * exact + t || lib < rho * snapped - t)
                sink.viol("C14:six-word-min:DubinsStateSpace", witness(x, label).str("direction", dirn).num("distance", lib).num("reference", rho * exact)
                                                                    .num("reference_snapped", rho * snapped).num("tol", t));
        };

        if (coincident)
        {
            sink.count("c14_coincident_pairs");
            // only required: distance <= tol (the library returns the straight offset), or the honest six-word value
            if (L > tol) sixWord(L, ref.exact, ref.snapped, "a->b", "Dubins");
            if (Lr > tol) sixWord(Lr, refr.exact, refr.snapped, "b->a", "Dubins");
            caseHash = hmix(caseHash, hsh);
        }
        else
        {
            // library word statistics
            {
                auto path = x.D->dubins(x.a, x.b);
                int wi = -1;
                for (int i = 0; i < 6; ++i)
                    if (path.type_ == &ob::DubinsStateSpace::dubinsPathType()[i]) wi = i;
                static const char *LIBW[6] = {"LSL", "RSR", "RSL", "LSR", "RLR", "LRL"};  // order of dubinsPathType()
                if (wi >= 0) sink.count(std::string("c14_dubins_word_") + LIBW[wi]);
                double d = eu / rho, th = std::atan2(Bp.y - A.y, Bp.x - A.x), al = m2p(A.th - th), be = m2p(Bp.th - th);
                bool lp = std::fabs(std::sin(al)) + std::fabs(std::sin(be)) + std::sqrt(std::max(0.0, 4 - std::pow(std::cos(al) + std::cos(be), 2))) - d < 0;
                sink.count(lp ? "c14_long_path_classified" : "c14_short_path_exhaustive");
                if (ref.word >= 0 && wi >= 0 && std::string(WNAME[ref.word]) == LIBW[wi]) sink.count("c14_word_agrees_with_reference_stat");
                auto rp = x.RS->reedsShepp(x.a, x.b);
                long ti = (rp.type_ - &ob::ReedsSheppStateSpace::reedsSheppPathType[0][0]) / 5;
                if (ti >= 0 && ti < 18) sink.count("c14_rs_type_" + std::to_string(ti));
            }
            sixWord(L, ref.exact, ref.snapped, "a->b", "Dubins");
            sixWord(Lr, refr.exact, refr.snapped, "b->a", "Dubins");
            sixWord(Ls, std::min(ref.exact, refr.exact), std::min(ref.snapped, refr.snapped), "min(a->b,b->a)", "DubinsSymmetric");
            // never below the straight line
            sink.count("c14_euclid_checks", 3);
            if (L < eu - tol) sink.viol("C14:below-euclid:DubinsStateSpace", witness(x, "Dubins").num("distance", L).num("euclid", eu));
            if (Ls < eu - tol) sink.viol("C14:below-euclid:DubinsStateSpace", witness(x, "DubinsSymmetric").num("distance", Ls).num("euclid", eu));
            if (R < eu - tol) sink.viol("C14:below-euclid:ReedsSheppStateSpace", witness(x, "ReedsShepp").num("distance", R).num("euclid", eu));
            // Reeds-Shepp never exceeds Dubins in either direction.
            // Where the library's Dubins value lives in the snap band (it is the length of a curve that reaches the goal only at the
            // declared resolution, below the shortest certified exact curve) the comparison is made with the certified exact length:
            // the Dubins distance is discontinuous, so the value of a pose 1e-7 away says nothing about this pose.
            sink.count("c14_rs_le_dubins_checks", 2);
            const double dubAB = ref.exact < 1e299 ? std::max(L, rho * ref.exact) : L, dubBA = refr.exact < 1e299 ? std::max(Lr, rho * refr.exact) : Lr;
            const double dubMin = std::min(dubAB, dubBA);
            if (std::max(R, R2) > std::min(L, Lr) + tol && std::max(R, R2) <= dubMin + tol) sink.count("c14_rs_above_snapped_dubins_only_stat");
            const bool rsDefect = R > dubMin + tol || R2 > dubMin + tol;
            if (rsDefect) sink.count("c14_rs_exceeds_dubins_stat_direct_" + x.mode);
            if (rsDefect)
                sink.viol("C14:rs-exceeds-dubins:ReedsSheppStateSpace", witness(x, "ReedsShepp").num("reeds_shepp_ab", R).num("reeds_shepp_ba", R2)
                                                                             .num("dubins_ab", L).num("dubins_ba", Lr).num("dubins_ab_certified", dubAB)
                                                                             .num("dubins_ba_certified", dubBA).num("ratio", std::max(R, R2) / dubMin).num("tol", tol));
            // symmetry (for Reeds-Shepp only where the clause above held: an over-estimate in one direction is the same defect)
            sink.count("c14_symmetry_checks", rsDefect ? 1 : 2);
            if (std::fabs(Ls - Ls2) > tol)
                sink.viol("C14:symmetry:DubinsStateSpace", witness(x, "DubinsSymmetric").num("d_ab", Ls).num("d_ba", Ls2).num("tol", tol));
            if (!rsDefect && std::fabs(R - R2) > tol)
                sink.viol("C14:symmetry:ReedsSheppStateSpace", witness(x, "ReedsShepp").num("d_ab", R).num("d_ba", R2).num("tol", tol));
            // curves
            int N = rng.range(400, 2000);
            polyline(x, 0, L, N);
            polyline(x, 1, Ls, N);
            polyline(x, 2, R, N);
            // prefix optimality (plain Dubins and Reeds-Shepp; the symmetrised Dubins distance is a minimum of two
            // non-symmetric lengths and does not have this property by construction)
            for (int which = 0; which <= 2; which += 2)
            {
                if (which == 2 && rsDefect) continue;
                const ob::StateSpace *S = which == 0 ? (ob::StateSpace *)x.D.get() : (ob::StateSpace *)x.RS.get();
                double LL = which == 0 ? L : R, tl = 1e-5 * rho * (1 + LL / rho);
                for (int rep = 0; rep < 3; ++rep)
                {
                    double t = rep == 0 ? rng.uni(0, 1) : rep == 1 ? rng.logUni(1e-4, 1) : 1 - rng.logUni(1e-4, 1);
                    S->interpolate(x.a, x.b, t, x.p);
                    if (std::hypot(x.p->getX() - A.x, x.p->getY() - A.y) < 1e-5 * rho && std::fabs(angDiff(x.p->getYaw(), A.th)) < 1e-5)
                    {
                        sink.count("c14_prefix_points_coincident_with_start_skipped");
                        continue;
                    }
                    double dp = S->distance(x.a, x.p);
                    sink.count("c14_prefix_checks");
                    sink.maxstat(which == 0 ? "c14_worst_prefix_dev_over_tol_dubins" : "c14_worst_prefix_dev_over_tol_rs", std::fabs(dp - t * LL) / tl);
                    if (std::fabs(dp - t * LL) > tl)
                    {
                        if (which == 2)
                        {
                            double d1 = x.D->distance(x.a, x.p), d2 = x.D->distance(x.p, x.a);
                            RefResult r1 = refFor(rho, A, poseOf(x.p)), r2 = refFor(rho, poseOf(x.p), A);
                            if (r1.exact < 1e299) d1 = std::max(d1, rho * r1.exact);
                            if (r2.exact < 1e299) d2 = std::max(d2, rho * r2.exact);
                            if (dp > std::min(d1, d2) + tl)
                            {
                                // same root cause as the direct clause: the prefix point is a pose Reeds-Shepp over-estimates
                                sink.count("c14_rs_exceeds_dubins_stat_prefix_point_" + x.mode);
                                sink.viol("C14:rs-exceeds-dubins:ReedsSheppStateSpace",
                                          witness(x, "ReedsShepp").str("via", "prefix point").num("t", t).arr("p", {x.p->getX(), x.p->getY(), x.p->getYaw()})
                                              .num("reeds_shepp_a_p", dp).num("dubins_a_p", d1).num("dubins_p_a", d2));
                                break;
                            }
                        }
                        sink.viol(std::string("C14:prefix:") + (which == 0 ? "DubinsStateSpace" : "ReedsSheppStateSpace"),
                                  witness(x, which == 0 ? "Dubins" : "ReedsShepp").num("t", t).arr("p", {x.p->getX(), x.p->getY(), x.p->getYaw()})
                                      .num("d_a_p", dp).num("t_times_d_a_b", t * LL).num("d_a_b", LL).num("tol", tl));
                        break;
                    }
                }
            }
            caseHash = hmix(caseHash, hsh);
            nontrivial = true;
            sink.sample(J().num("rho", rho).str("mode", x.mode).arr("a", {A.x, A.y, A.th}).arr("b", {Bp.x, Bp.y, Bp.th}).num("dubins", L)
                            .num("dubins_reference", rho * ref.exact).num("reeds_shepp", R).i("samples_per_curve", N));
        }
        for (auto *s : {x.a, x.b, x.p, x.q}) x.D->freeState(s);
    }
}  // namespace c14

int main(int argc, char **argv)
{
    Args a = parseArgs(argc, argv);
    ompl::msg::setLogLevel(ompl::msg::LOG_NONE);
    Sink sink(a);
    long total;
    void (*fn)(Sink &, const Args &, long);
    if (a.prop == "C05") total = a.thorough() ? 80000 : 30000, fn = c05::runCase;
    else if (a.prop == "C14") total = a.thorough() ? 100000 : 40000, fn = c14::runCase;
    else
    {
        fprintf(stderr, "h_motion does not serve %s\n", a.prop.c_str());
        return 2;
    }
    total = (long)(total * a.scale);
    for (long c = 0; c < total; ++c)
    {
        if (!mine(a, c) || !sink.wanted(c)) continue;
        sink.begin(c);
        fn(sink, a, c);
    }
    sink.done();
    return 0;
}
