// Shared by h_planners (C01 C03 C04 C20) and h_threads (C19): planner registry, world generator,
// state-counting spaces, evaluation-counting termination condition, independent solution oracle.
#pragma once
#include "common.h"
#include <ompl/base/spaces/RealVectorStateSpace.h>
#include <ompl/base/spaces/SO2StateSpace.h>
#include <ompl/base/spaces/SE2StateSpace.h>
#include <ompl/base/spaces/SE3StateSpace.h>
#include <ompl/base/spaces/DubinsStateSpace.h>
#include <ompl/base/spaces/ReedsSheppStateSpace.h>
#include <ompl/base/SpaceInformation.h>
#include <ompl/base/ProblemDefinition.h>
#include <ompl/base/PlannerTerminationCondition.h>
#include <ompl/base/PlannerData.h>
#include <ompl/base/ScopedState.h>
#include <ompl/base/goals/GoalState.h>
#include <ompl/base/goals/GoalStates.h>
#include <ompl/base/goals/GoalRegion.h>
#include <ompl/base/objectives/PathLengthOptimizationObjective.h>
#include <ompl/base/ProjectionEvaluator.h>
#include <ompl/geometric/PathGeometric.h>
#include <ompl/geometric/planners/rrt/RRT.h>
#include <ompl/geometric/planners/rrt/RRTConnect.h>
#include <ompl/geometric/planners/rrt/RRTstar.h>
#include <ompl/geometric/planners/rrt/InformedRRTstar.h>
#include <ompl/geometric/planners/rrt/SORRTstar.h>
#include <ompl/geometric/planners/rrt/RRTsharp.h>
#include <ompl/geometric/planners/rrt/RRTXstatic.h>
#include <ompl/geometric/planners/rrt/LBTRRT.h>
#include <ompl/geometric/planners/rrt/LazyLBTRRT.h>
#include <ompl/geometric/planners/rrt/LazyRRT.h>
#include <ompl/geometric/planners/rrt/TRRT.h>
#include <ompl/geometric/planners/rrt/BiTRRT.h>
#include <ompl/geometric/planners/rrt/pRRT.h>
#include <ompl/geometric/planners/est/EST.h>
#include <ompl/geometric/planners/est/BiEST.h>
#include <ompl/geometric/planners/est/ProjEST.h>
#include <ompl/geometric/planners/kpiece/KPIECE1.h>
#include <ompl/geometric/planners/kpiece/BKPIECE1.h>
#include <ompl/geometric/planners/kpiece/LBKPIECE1.h>
#include <ompl/geometric/planners/pdst/PDST.h>
#include <ompl/geometric/planners/sbl/SBL.h>
#include <ompl/geometric/planners/sbl/pSBL.h>
#include <ompl/geometric/planners/stride/STRIDE.h>
#include <ompl/geometric/planners/fmt/FMT.h>
#include <ompl/geometric/planners/fmt/BFMT.h>
#include <ompl/geometric/planners/prm/PRM.h>
#include <ompl/geometric/planners/prm/PRMstar.h>
#include <ompl/geometric/planners/prm/LazyPRM.h>
#include <ompl/geometric/planners/prm/LazyPRMstar.h>
#include <ompl/geometric/planners/prm/SPARS.h>
#include <ompl/geometric/planners/prm/SPARStwo.h>
#include <ompl/geometric/planners/sst/SST.h>
#include <ompl/geometric/planners/rlrt/RLRT.h>
#include <ompl/geometric/planners/rlrt/BiRLRT.h>
#include <ompl/geometric/planners/informedtrees/BITstar.h>
#include <ompl/geometric/planners/informedtrees/ABITstar.h>
#include <ompl/geometric/planners/informedtrees/AITstar.h>
#include <ompl/geometric/planners/informedtrees/EITstar.h>
#include <ompl/geometric/planners/informedtrees/EIRMstar.h>
#include <ompl/geometric/planners/cforest/CForest.h>
#include <ompl/geometric/planners/AnytimePathShortening.h>
#include <ompl/multilevel/planners/qrrt/QRRT.h>
#include <ompl/multilevel/planners/qrrt/QRRTStar.h>
#include <ompl/multilevel/planners/qmp/QMP.h>
#include <ompl/multilevel/planners/qmp/QMPStar.h>
#include <ompl/util/Console.h>
#include <ompl/util/RandomNumbers.h>
#include <atomic>
#include <mutex>
#include <unordered_set>

namespace ob = ompl::base;
namespace og = ompl::geometric;
namespace om = ompl::multilevel;

namespace pl
{
    using namespace vf;

    // ---------------------------------------------------------------------------------------------
    // state-counting spaces: every allocState/freeState goes through a live set
    // ---------------------------------------------------------------------------------------------
    struct Tracker
    {
        std::mutex m;
        std::unordered_set<const ob::State *> live;
        long allocs = 0, frees = 0, badFrees = 0;
        void onAlloc(const ob::State *s)
        {
            std::lock_guard<std::mutex> l(m);
            live.insert(s);
            ++allocs;
        }
        // returns false when the pointer is not a live state of this space (double free / foreign pointer)
        bool onFree(const ob::State *s)
        {
            std::lock_guard<std::mutex> l(m);
            auto it = live.find(s);
            if (it == live.end())
            {
                ++badFrees;
                return false;
            }
            live.erase(it);
            ++frees;
            return true;
        }
        long liveCount()
        {
            std::lock_guard<std::mutex> l(m);
            return (long)live.size();
        }
    };

    template <class Base>
    struct Counting : Base
    {
        std::shared_ptr<Tracker> tr = std::make_shared<Tracker>();
        using Base::Base;
        ob::State *allocState() const override
        {
            ob::State *s = Base::allocState();
            tr->onAlloc(s);
            return s;
        }
        void freeState(ob::State *s) const override
        {
            if (tr->onFree(s)) Base::freeState(s);
        }
    };

    // ---------------------------------------------------------------------------------------------
    // worlds
    // ---------------------------------------------------------------------------------------------
    enum Kind
    {
        K_R2,
        K_SE2,
        K_R3,
        K_SE3,
        K_CMP,
        K_R6,
        K_DUBINS,
        K_RS,
        K_N
    };
    // fraction of the weighted-compound worlds whose third (R^1) component has weight 0: such a component does not count in the
    // distance but is part of every state (samplers must still write it, copies must still carry it). Set by the engine.
    inline double &zeroWeightCmpFraction()
    {
        static double f = 0.0;
        return f;
    }

    static const char *KIND_NAME[] = {"R2", "SE2", "R3", "SE3", "R2xSO2xR1", "R6", "Dubins", "ReedsShepp"};

    struct Obst
    {
        int type;  // 0 ball, 1 box
        double c[3], r, h[3];
        bool wall = false;  // part of the narrow-passage wall (lies between the corner regions by construction)
    };
    struct Slab
    {
        bool on = false;
        double x0 = 0, x1 = 0, hc = 0, hw = 0;
    };

    struct PosXY : ob::ProjectionEvaluator
    {
        std::function<void(const ob::State *, double *, double &)> pose;
        PosXY(const ob::StateSpacePtr &s, std::function<void(const ob::State *, double *, double &)> p)
          : ob::ProjectionEvaluator(s), pose(std::move(p))
        {
        }
        unsigned int getDimension() const override { return 2; }
        void defaultCellSizes() override
        {
            cellSizes_.resize(2);
            cellSizes_[0] = cellSizes_[1] = 0.5;
        }
        void project(const ob::State *state, Eigen::Ref<Eigen::VectorXd> projection) const override
        {
            double p[3], h;
            pose(state, p, h);
            projection[0] = p[0];
            projection[1] = p[1];
        }
    };

    struct World
    {
        int kind = K_R2;
        ob::StateSpacePtr space;
        ob::SpaceInformationPtr si;
        std::shared_ptr<Tracker> tracker;
        int pd = 2;  // number of position coordinates carrying obstacles
        bool hasHeading = false;
        std::vector<Obst> obst;
        Slab slab;
        double res = 0.01, rl = 0, wpos = 1, whead = 0, ext = 0;
        double slit = 0;  // width of the slit of a narrow-passage world (0: none)
        int segFactor = 1;
        double lo = 0, hi = 10;
        double rho = 1;  // Dubins / RS
        std::function<void(const ob::State *, double *, double &)> pose;
        std::vector<std::vector<double>> starts, badStarts, goals, badGoals;  // as reals
        double threshold = 0.05;
        int goalType = 0;  // 0 GoalState, 1 GoalStates (may contain bad goals), 2 non-sampleable GoalRegion
        int rangeMode = 0; // 0 default, 1 small, 2 huge
        uint64_t hash = 0;
        std::atomic<long> validCalls{0};

        bool validPose(const double *p, double h) const
        {
            for (auto &o : obst)
            {
                if (o.type == 0)
                {
                    double d2 = 0;
                    for (int i = 0; i < pd; ++i) d2 += (p[i] - o.c[i]) * (p[i] - o.c[i]);
                    if (d2 < o.r * o.r) return false;
                }
                else
                {
                    bool in = true;
                    for (int i = 0; i < pd; ++i)
                        if (std::fabs(p[i] - o.c[i]) >= o.h[i]) in = false;
                    if (in) return false;
                }
            }
            if (slab.on && hasHeading && p[0] > slab.x0 && p[0] < slab.x1)
            {
                double d = std::fabs(h - slab.hc);
                if (d > M_PI) d = 2 * M_PI - d;
                if (d < slab.hw) return false;
            }
            return true;
        }
        // like the library's demos, the validity checker includes the bounds test (OMPL leaves that to the user's checker)
        // validity = bounds + obstacles, as the library's demos do; a world may instead leave the bounds to the planner
        // (boundsLeftToPlanner: obstacles only - every input state is in bounds then, and so must every path state be)
        bool boundsLeftToPlanner = false;
        bool valid(const ob::State *s) const
        {
            if (!boundsLeftToPlanner && !space->satisfiesBounds(s)) return false;
            double p[3] = {0, 0, 0}, h = 0;
            pose(s, p, h);
            return validPose(p, h);
        }
        void toState(const std::vector<double> &r, ob::State *s) const { space->copyFromReals(s, r); }
        std::vector<double> reals(const ob::State *s) const
        {
            std::vector<double> r;
            space->copyToReals(r, s);
            return r;
        }
    };

    inline std::shared_ptr<World> makeSpace(int kind, Rng &rng, bool tightTurns = false)
    {
        auto w = std::make_shared<World>();
        w->kind = kind;
        ob::RealVectorBounds b2(2), b3(3);
        b2.setLow(w->lo);
        b2.setHigh(w->hi);
        b3.setLow(w->lo);
        b3.setHigh(w->hi);
        using RV = ob::RealVectorStateSpace;
        switch (kind)
        {
            case K_R2:
            case K_R3:
            case K_R6:
            {
                int d = kind == K_R2 ? 2 : kind == K_R3 ? 3 : 6;
                auto sp = std::make_shared<Counting<RV>>(d);
                sp->setBounds(w->lo, w->hi);
                w->tracker = sp->tr;
                w->space = sp;
                w->pd = kind == K_R2 ? 2 : 3;
                w->pose = [](const ob::State *s, double *p, double &h) {
                    const double *v = s->as<RV::StateType>()->values;
                    p[0] = v[0];
                    p[1] = v[1];
                    h = 0;
                };
                if (kind != K_R2)
                    w->pose = [](const ob::State *s, double *p, double &h) {
                        const double *v = s->as<RV::StateType>()->values;
                        p[0] = v[0];
                        p[1] = v[1];
                        p[2] = v[2];
                        h = 0;
                    };
                break;
            }
            case K_SE2:
            case K_DUBINS:
            case K_RS:
            {
                if (kind == K_SE2)
                {
                    auto sp = std::make_shared<Counting<ob::SE2StateSpace>>();
                    sp->setBounds(b2);
                    w->tracker = sp->tr;
                    w->space = sp;
                    w->whead = 0.5;
                }
                else if (kind == K_DUBINS)
                {
                    w->rho = tightTurns ? rng.uni(0.15, 0.35) : rng.uni(0.3, 1.0);  // tight: loops fit between the small discs of a cluttered world
                    auto sp = std::make_shared<Counting<ob::DubinsStateSpace>>(w->rho, false);
                    sp->setBounds(b2);
                    w->tracker = sp->tr;
                    w->space = sp;
                }
                else
                {
                    w->rho = tightTurns ? rng.uni(0.15, 0.35) : rng.uni(0.3, 1.0);  // tight: loops fit between the small discs of a cluttered world
                    auto sp = std::make_shared<Counting<ob::ReedsSheppStateSpace>>(w->rho);
                    sp->setBounds(b2);
                    w->tracker = sp->tr;
                    w->space = sp;
                }
                w->hasHeading = true;
                w->pose = [](const ob::State *s, double *p, double &h) {
                    auto *q = s->as<ob::SE2StateSpace::StateType>();
                    p[0] = q->getX();
                    p[1] = q->getY();
                    h = q->getYaw();
                };
                break;
            }
            case K_SE3:
            {
                auto sp = std::make_shared<Counting<ob::SE3StateSpace>>();
                sp->setBounds(b3);
                w->tracker = sp->tr;
                w->space = sp;
                w->pd = 3;
                w->pose = [](const ob::State *s, double *p, double &h) {
                    auto *q = s->as<ob::SE3StateSpace::StateType>();
                    p[0] = q->getX();
                    p[1] = q->getY();
                    p[2] = q->getZ();
                    h = 0;
                };
                break;
            }
            case K_CMP:
            {
                auto sp = std::make_shared<Counting<ob::CompoundStateSpace>>();
                auto r2 = std::make_shared<RV>(2);
                r2->setBounds(w->lo, w->hi);
                auto r1 = std::make_shared<RV>(1);
                r1->setBounds(-1, 1);
                w->wpos = rng.logUni(0.3, 3.0);
                w->whead = rng.logUni(0.1, 2.0);
                sp->addSubspace(r2, w->wpos);
                sp->addSubspace(std::make_shared<ob::SO2StateSpace>(), w->whead);
                {
                    // (the draw order is kept: the weight is drawn first, the zero-weight coin only when the engine asks for it)
                    double w3 = rng.logUni(0.1, 2.0);
                    if (zeroWeightCmpFraction() > 0 && rng.coin(zeroWeightCmpFraction())) w3 = 0.0;
                    sp->addSubspace(r1, w3);
                }
                sp->lock();
                w->tracker = sp->tr;
                w->space = sp;
                w->hasHeading = true;
                w->pose = [](const ob::State *s, double *p, double &h) {
                    auto *c = s->as<ob::CompoundState>();
                    const double *v = c->components[0]->as<RV::StateType>()->values;
                    p[0] = v[0];
                    p[1] = v[1];
                    h = c->components[1]->as<ob::SO2StateSpace::StateType>()->value;
                };
                break;
            }
        }
        return w;
    }

    struct WChecker : ob::StateValidityChecker
    {
        World *w;
        WChecker(const ob::SpaceInformationPtr &si, World *w_) : ob::StateValidityChecker(si), w(w_) {}
        bool isValid(const ob::State *s) const override
        {
            w->validCalls.fetch_add(1, std::memory_order_relaxed);
            return w->valid(s);
        }
        // Euclidean clearance of the position part from the obstacles (and the box walls)
        double clearance(const ob::State *s) const override
        {
            double p[3] = {0, 0, 0}, h = 0;
            w->pose(s, p, h);
            double c = 1e9;
            for (int i = 0; i < w->pd; ++i) c = std::min(c, std::min(p[i] - w->lo, w->hi - p[i]));
            for (auto &o : w->obst)
            {
                if (o.type == 0)
                {
                    double d2 = 0;
                    for (int i = 0; i < w->pd; ++i) d2 += (p[i] - o.c[i]) * (p[i] - o.c[i]);
                    c = std::min(c, std::sqrt(d2) - o.r);
                }
                else
                {
                    double d2 = 0, inside = -1e9;
                    for (int i = 0; i < w->pd; ++i)
                    {
                        double e = std::fabs(p[i] - o.c[i]) - o.h[i];
                        if (e > 0) d2 += e * e;
                        inside = std::max(inside, e);
                    }
                    c = std::min(c, d2 > 0 ? std::sqrt(d2) : inside);
                }
            }
            return c;
        }
    };

    // hostile: include invalid / out-of-bounds / multiple start and goal states and other goal types
    inline std::shared_ptr<World> makeWorld(uint64_t seed, int kind, bool hostileInputs, int fixedObst = -1)
    {
        Rng rng(seed);
        // direction-dependent spaces: half of the worlds are cluttered with many small discs and have a small turning radius (a
        // curve and its reverse then differ in validity far more often, which is what exposes direction mix-ups)
        // (fixedObst == -2 forces the cluttered variant, -4 forces it for every kind of space)
        const bool clutter = ((kind == K_DUBINS || kind == K_RS) && fixedObst < 0 && (rng.coin(0.5) || fixedObst == -2)) || fixedObst == -4;
        auto w = makeSpace(kind, rng, clutter);
        w->hash = seed;
        w->si = std::make_shared<ob::SpaceInformation>(w->space);
        World *wp = w.get();
        w->si->setStateValidityChecker(std::make_shared<WChecker>(w->si, wp));
        w->res = rng.logUni(0.004, 0.02);
        if (clutter) w->res = rng.logUni(0.004, 0.008);
        w->si->setStateValidityCheckingResolution(w->res);
        w->segFactor = 1 + (int)rng.ui(3);
        w->space->setValidSegmentCountFactor(w->segFactor);
        if (kind == K_CMP)
            w->space->registerDefaultProjection(std::make_shared<PosXY>(w->space, w->pose));
        if (kind == K_DUBINS) w->si->setMotionValidator(std::make_shared<ob::DubinsMotionValidator>(w->si));
        if (kind == K_RS) w->si->setMotionValidator(std::make_shared<ob::ReedsSheppMotionValidator>(w->si));
        w->si->setup();
        w->ext = w->space->getMaximumExtent();
        w->rl = w->res * w->ext;  // resolution length in units of the space's distance
        // obstacles: every feature at least 4 resolution lengths thick in the space's own metric
        const double minHalf = 2.0 * w->rl / w->wpos * 1.05;
        int nObst = fixedObst >= 0 ? fixedObst : (int)rng.ui(11);
        if (clutter) nObst = 20 + (int)rng.ui(25);
        for (int i = 0; i < nObst; ++i)
        {
            Obst o{};
            o.type = (clutter || rng.coin(0.6)) ? 0 : 1;
            for (int d = 0; d < 3; ++d) o.c[d] = rng.uni(w->lo + 1.5, w->hi - 1.5);
            o.r = clutter ? minHalf * rng.uni(1.0, 1.6) : minHalf + rng.uni(0, 1.0);
            for (int d = 0; d < 3; ++d) o.h[d] = minHalf + rng.uni(0, d == 0 ? 0.6 : 1.6);
            w->obst.push_back(o);
        }
        if (fixedObst == -3)
        {
            // narrow passage: a wall across the space between the start and the goal corner with one slit (two boxes). This is
            // where planners fall back to their repair / extension paths (re-validation of lazy edges, FMT's extension, ...)
            Rng r2(hmix(seed, 0x511));
            double cx = r2.uni(4.5, 5.5), hx = std::min(1.1, minHalf + r2.uni(0, 0.5));
            double gy = r2.uni(w->lo + 1.5, w->hi - 1.5), gw = r2.logUni(0.02, 0.3);
            for (int side = 0; side < 2; ++side)
            {
                Obst o{};
                o.type = 1;
                o.wall = true;
                double y0 = side == 0 ? w->lo - 1.0 : gy + gw / 2, y1 = side == 0 ? gy - gw / 2 : w->hi + 1.0;
                o.c[0] = cx, o.h[0] = hx;
                o.c[1] = (y0 + y1) / 2, o.h[1] = (y1 - y0) / 2;
                o.c[2] = (w->lo + w->hi) / 2, o.h[2] = (w->hi - w->lo);
                w->obst.push_back(o);
            }
            if (w->pd == 3)
            {
                // with three position coordinates the slit becomes a window
                double gz = r2.uni(w->lo + 1.5, w->hi - 1.5), gwz = gw * r2.uni(1.0, 6.0);
                for (int side = 0; side < 2; ++side)
                {
                    Obst o{};
                    o.type = 1;
                    o.wall = true;
                    double z0 = side == 0 ? w->lo - 1.0 : gz + gwz / 2, z1 = side == 0 ? gz - gwz / 2 : w->hi + 1.0;
                    o.c[0] = cx, o.h[0] = hx;
                    o.c[1] = gy, o.h[1] = gw / 2 + 1e-9;
                    o.c[2] = (z0 + z1) / 2, o.h[2] = (z1 - z0) / 2;
                    w->obst.push_back(o);
                }
            }
            w->slit = gw;
        }
        if (w->hasHeading && rng.coin(0.5))
        {
            w->slab.on = true;
            double half = std::max(minHalf, 0.5) + rng.uni(0, 0.6);
            double cx = rng.uni(3.5, 6.5);
            w->slab.x0 = cx - half;
            w->slab.x1 = cx + half;
            w->slab.hc = rng.uni(-M_PI, M_PI);
            double minHw = w->whead > 0 ? 2.0 * w->rl / w->whead * 1.05 : 0.3;
            w->slab.hw = std::min(2.4, std::max(minHw, 0.3) + rng.uni(0, 1.0));
        }
        // start / goal states
        auto sampler = w->space->allocStateSampler();
        ob::State *tmp = w->si->allocState();
        auto sampleValid = [&](bool nearLow) -> std::vector<double> {
            for (int t = 0; t < 20000; ++t)
            {
                sampler->sampleUniform(tmp);
                double p[3] = {0, 0, 0}, h;
                w->pose(tmp, p, h);
                // starts in the low corner region, goals in the high corner region: the query is never trivial
                bool region = nearLow ? (p[0] < 3 && p[1] < 3) : (p[0] > 7 && p[1] > 7);
                if (!region || !w->valid(tmp)) continue;
                return w->reals(tmp);
            }
            return {};
        };
        // the two corner regions are kept free of obstacles so that valid start/goal states always exist
        w->obst.erase(std::remove_if(w->obst.begin(), w->obst.end(),
                                     [&](const Obst &o) {
                                         if (o.wall) return false;
                                         double e = o.type == 0 ? o.r : std::max(o.h[0], o.h[1]);
                                         auto near = [&](double cx, double cy) {
                                             return std::fabs(o.c[0] - cx) < e + 1.6 && std::fabs(o.c[1] - cy) < e + 1.6;
                                         };
                                         return near(1.5, 1.5) || near(8.5, 8.5);
                                     }),
                      w->obst.end());
        int ns = 1, ng = 1;
        w->goalType = 0;
        if (hostileInputs)
        {
            ns = 1 + (int)rng.ui(3);
            int gt = rng.ui(10);
            w->goalType = gt < 4 ? 0 : gt < 8 ? 1 : 2;
            if (w->goalType == 1) ng = 1 + (int)rng.ui(3);
        }
        for (int i = 0; i < ns; ++i) w->starts.push_back(sampleValid(true));
        for (int i = 0; i < ng; ++i) w->goals.push_back(sampleValid(false));
        auto makeInvalid = [&](bool nearLow) -> std::vector<double> {
            // a state inside an obstacle (if any) or out of bounds
            if (!w->obst.empty() && rng.coin(0.6))
            {
                const Obst &o = w->obst[rng.ui(w->obst.size())];
                sampler->sampleUniform(tmp);
                auto r = w->reals(tmp);
                r[0] = o.c[0];
                r[1] = o.c[1];
                if (w->pd == 3 && r.size() > 2) r[2] = o.c[2];
                return r;
            }
            auto r = sampleValid(nearLow);
            if (!r.empty()) r[0] = rng.coin() ? w->hi + 1.0 : w->lo - 0.5;  // out of bounds
            return r;
        };
        if (hostileInputs)
        {
            int nb = rng.ui(3);
            for (int i = 0; i < nb; ++i) w->badStarts.push_back(makeInvalid(true));
            if (w->goalType == 1)
            {
                nb = rng.ui(3);
                for (int i = 0; i < nb; ++i) w->badGoals.push_back(makeInvalid(false));
            }
            // sometimes there is no usable start (or goal) at all
            int z = rng.ui(12);
            if (z == 0 && !w->badStarts.empty()) w->starts.clear();
            if (z == 1 && w->goalType == 1 && !w->badGoals.empty()) w->goals.clear();
            if (z == 2 && w->goalType == 0)
            {
                auto g = makeInvalid(false);
                if (!g.empty())
                {
                    w->badGoals.push_back(g);
                    w->goals.clear();
                }
            }
        }
        w->si->freeState(tmp);
        w->threshold = rng.logUni(1e-3, 0.03 * w->ext);
        int rm = rng.ui(10);
        w->rangeMode = rm < 6 ? 0 : rm < 8 ? 1 : 2;
        return w;
    }

    // goal region that cannot be sampled: distance to a point in (x,y)
    struct XYGoalRegion : ob::GoalRegion
    {
        World *w;
        double gx, gy;
        XYGoalRegion(const ob::SpaceInformationPtr &si, World *w_, double x, double y, double thr) : ob::GoalRegion(si), w(w_), gx(x), gy(y)
        {
            setThreshold(thr);
        }
        double distanceGoal(const ob::State *st) const override
        {
            double p[3] = {0, 0, 0}, h;
            w->pose(st, p, h);
            return std::hypot(p[0] - gx, p[1] - gy);
        }
    };

    inline void fillPdef(const ob::ProblemDefinitionPtr &pdef, World &w, bool withObjective = true);
    inline ob::ProblemDefinitionPtr makePdef(World &w, bool withObjective = true)
    {
        auto pdef = std::make_shared<ob::ProblemDefinition>(w.si);
        fillPdef(pdef, w, withObjective);
        return pdef;
    }
    // the same ProblemDefinition object re-used for another query: old start states, goal and solution paths are dropped first
    inline void refillPdef(const ob::ProblemDefinitionPtr &pdef, World &w, bool withObjective = true)
    {
        pdef->clearStartStates();
        pdef->clearGoal();
        pdef->clearSolutionPaths();
        fillPdef(pdef, w, withObjective);
    }
    inline void fillPdef(const ob::ProblemDefinitionPtr &pdef, World &w, bool withObjective)
    {
        ob::ScopedState<> s(w.space);
        // interleave bad and good starts: bad ones first so that planners must skip them
        for (auto &r : w.badStarts)
            if (!r.empty())
            {
                w.toState(r, s.get());
                pdef->addStartState(s);
            }
        for (auto &r : w.starts)
            if (!r.empty())
            {
                w.toState(r, s.get());
                pdef->addStartState(s);
            }
        if (w.goalType == 0)
        {
            const auto &g = !w.goals.empty() ? w.goals[0] : (!w.badGoals.empty() ? w.badGoals[0] : std::vector<double>());
            if (!g.empty())
            {
                w.toState(g, s.get());
                pdef->setGoalState(s, w.threshold);
            }
        }
        else if (w.goalType == 1)
        {
            auto gs = std::make_shared<ob::GoalStates>(w.si);
            for (auto &r : w.badGoals)
                if (!r.empty())
                {
                    w.toState(r, s.get());
                    gs->addState(s);
                }
            for (auto &r : w.goals)
                if (!r.empty())
                {
                    w.toState(r, s.get());
                    gs->addState(s);
                }
            gs->setThreshold(w.threshold);
            pdef->setGoal(gs);
        }
        else
        {
            const auto &g = w.goals[0];
            pdef->setGoal(std::make_shared<XYGoalRegion>(w.si, &w, g[0], g[1], std::max(w.threshold, 0.3)));
        }
        if (withObjective)
        {
            // default cost threshold (0): never satisfied, so optimizing planners keep optimizing until the budget is used.
            // (A first version set the threshold to infiniteCost(), which every finite cost satisfies: the informed-tree and
            // RRT*-family planners then returned at their first solution and never reached pruning / rewiring of later batches.)
            auto opt = std::make_shared<ob::PathLengthOptimizationObjective>(w.si);
            pdef->setOptimizationObjective(opt);
        }
    }

    // ---------------------------------------------------------------------------------------------
    // planner registry
    // ---------------------------------------------------------------------------------------------
    struct PInfo
    {
        std::string name;
        std::function<ob::PlannerPtr(const ob::SpaceInformationPtr &)> make;
        bool mt;          // starts threads inside solve()
        bool strict;      // path edges are individually validated ordered pairs
        bool optimizing;  // keeps running after the first solution
        bool unidir;      // only uses forward motions (usable in spaces with asymmetric interpolation)
        int budget;       // termination-condition evaluations (ASan build)
        bool multilevel;
        bool eagerCost;   // stored cost equals the true cost (no deferred propagation)
    };

    template <class P>
    ob::PlannerPtr mk(const ob::SpaceInformationPtr &si)
    {
        return std::make_shared<P>(si);
    }
    template <class P>
    ob::PlannerPtr mkml(const ob::SpaceInformationPtr &si)
    {
        std::vector<ob::SpaceInformationPtr> siv{si};
        return std::make_shared<P>(siv);
    }

    inline const std::vector<PInfo> &registry()
    {
        static std::vector<PInfo> R = {
            // name                 factory                 mt     strict opt   unidir budget ml  eagerCost
            {"RRT", mk<og::RRT>, false, true, false, true, 6000, false, false},
            {"RRT-intermediate", [](const ob::SpaceInformationPtr &si) {
                 auto p = std::make_shared<og::RRT>(si, true);
                 p->setName("RRT-intermediate");
                 return ob::PlannerPtr(p);
             }, false, false, false, true, 6000, false, false},
            {"RRTConnect", mk<og::RRTConnect>, false, true, false, false, 6000, false, false},
            {"RRTstar", mk<og::RRTstar>, false, true, true, true, 2500, false, true},
            {"InformedRRTstar", mk<og::InformedRRTstar>, false, true, true, true, 2500, false, true},
            {"SORRTstar", mk<og::SORRTstar>, false, true, true, true, 2500, false, true},
            {"RRTsharp", mk<og::RRTsharp>, false, true, true, true, 2500, false, false},
            {"RRTXstatic", mk<og::RRTXstatic>, false, true, true, true, 2500, false, false},
            {"LBTRRT", mk<og::LBTRRT>, false, true, true, true, 1200, false, false},
            {"LazyLBTRRT", mk<og::LazyLBTRRT>, false, false, true, true, 1500, false, false},
            {"LazyRRT", mk<og::LazyRRT>, false, true, false, true, 6000, false, false},
            {"TRRT", mk<og::TRRT>, false, true, false, true, 6000, false, false},
            {"BiTRRT", mk<og::BiTRRT>, false, true, false, false, 6000, false, false},
            {"pRRT", mk<og::pRRT>, true, true, false, true, 6000, false, false},
            {"EST", mk<og::EST>, false, true, false, true, 8000, false, false},
            {"BiEST", mk<og::BiEST>, false, true, false, false, 8000, false, false},
            {"ProjEST", mk<og::ProjEST>, false, true, false, true, 8000, false, false},
            {"KPIECE1", mk<og::KPIECE1>, false, false, false, true, 8000, false, false},
            {"BKPIECE1", mk<og::BKPIECE1>, false, false, false, false, 8000, false, false},
            {"LBKPIECE1", mk<og::LBKPIECE1>, false, true, false, false, 8000, false, false},
            {"PDST", mk<og::PDST>, false, false, false, true, 8000, false, false},
            {"SBL", mk<og::SBL>, false, true, false, false, 8000, false, false},
            {"pSBL", mk<og::pSBL>, true, true, false, false, 8000, false, false},
            {"STRIDE", mk<og::STRIDE>, false, true, false, true, 5000, false, false},
            {"FMT", mk<og::FMT>, false, true, false, true, 20000, false, false},
            {"BFMT", mk<og::BFMT>, false, true, false, false, 20000, false, false},
            {"PRM", mk<og::PRM>, true, true, false, false, 4000, false, true},
            {"PRMstar", mk<og::PRMstar>, true, true, false, false, 4000, false, true},
            {"LazyPRM", mk<og::LazyPRM>, false, true, false, false, 4000, false, true},
            {"LazyPRMstar", mk<og::LazyPRMstar>, false, true, false, false, 4000, false, true},
            {"SPARS", mk<og::SPARS>, true, true, false, false, 2500, false, false},
            {"SPARStwo", mk<og::SPARStwo>, true, true, false, false, 2500, false, false},
            {"SST", mk<og::SST>, false, true, true, true, 4000, false, false},
            {"RLRT", mk<og::RLRT>, false, true, false, true, 8000, false, false},
            {"BiRLRT", mk<og::BiRLRT>, false, true, false, false, 8000, false, false},
            {"BITstar", mk<og::BITstar>, false, true, true, false, 3000, false, true},
            {"ABITstar", mk<og::ABITstar>, false, true, true, false, 3000, false, true},
            {"AITstar", mk<og::AITstar>, false, true, true, false, 3000, false, true},
            {"EITstar", mk<og::EITstar>, false, false, true, false, 3000, false, true},
            {"EIRMstar", mk<og::EIRMstar>, false, false, true, false, 3000, false, true},
            {"CForest", mk<og::CForest>, true, true, true, true, 2500, false, false},
            {"AnytimePathShortening", mk<og::AnytimePathShortening>, true, false, true, false, 1500, false, false},
            {"QRRT", mkml<om::QRRT>, false, false, false, false, 1500, true, false},
            {"QRRTStar", mkml<om::QRRTStar>, false, false, true, false, 1200, true, false},
            {"QMP", mkml<om::QMP>, false, false, false, false, 1500, true, false},
            {"QMPStar", mkml<om::QMPStar>, false, false, true, false, 700, true, false},
        };
        return R;
    }

    inline const PInfo *findPlanner(const std::string &n)
    {
        for (auto &p : registry())
            if (p.name == n) return &p;
        return nullptr;
    }

    // whether a planner may be used in a space whose interpolation is direction dependent
    inline bool supports(const PInfo &p, int kind)
    {
        if (kind == K_DUBINS || kind == K_RS)
        {
            static const std::set<std::string> ok = {"RRT", "RRT-intermediate", "EST", "ProjEST", "KPIECE1", "SST", "RRTstar", "RLRT", "TRRT"};
            return ok.count(p.name) > 0;
        }
        return true;
    }

    inline ob::PlannerPtr makePlanner(const PInfo &pi, World &w, Rng &rng)
    {
        ob::PlannerPtr p = pi.make(w.si);
        if (auto *q = dynamic_cast<og::CForest *>(p.get()))
        {
            q->setNumThreads(2 + rng.ui(3));
            // with the default focused search the RRT* workers sample the informed set directly once a solution exists and never
            // draw from the sampler CForest shares path states through; without it they consume the shared states (the
            // pending-list hand-over between workers is only exercised then)
            if (rng.coin()) q->setFocusSearch(false);
        }
        if (auto *q = dynamic_cast<og::pRRT *>(p.get())) q->setThreadCount(2 + rng.ui(3));
        if (auto *q = dynamic_cast<og::pSBL *>(p.get())) q->setThreadCount(2 + rng.ui(3));
        if (auto *q = dynamic_cast<og::AnytimePathShortening *>(p.get())) q->setDefaultNumPlanners(2 + rng.ui(3));
        // informed-tree planners register at most max-number-of-goals goal states of a GoalStates (default 1): half the runs use more
        if (auto *q = dynamic_cast<og::AITstar *>(p.get()))
            if (rng.coin()) q->setMaxNumberOfGoals(2 + rng.ui(9));
        if (auto *q = dynamic_cast<og::EITstar *>(p.get()))
            if (rng.coin()) q->setMaxNumberOfGoals(2 + rng.ui(9));
        // (a third of the FMT* runs start from a sample set that is too small to connect the query: the extension phase has to)
        // and from a smaller neighbourhood than the default
        if (auto *q = dynamic_cast<og::FMT *>(p.get()))
        {
            const bool sparse = rng.coin(0.2);
            q->setNumSamples(sparse ? 15 + rng.ui(100) : 300 + rng.ui(500));
            if (sparse) q->setRadiusMultiplier(rng.uni(0.4, 0.9));
        }
        if (auto *q = dynamic_cast<og::BFMT *>(p.get()))
        {
            const bool sparse = rng.coin(0.2);
            q->setNumSamples(sparse ? 15 + rng.ui(100) : 300 + rng.ui(500));
            if (sparse) q->setRadiusMultiplier(rng.uni(0.4, 0.9));
        }
        if (w.rangeMode != 0 && p->params().hasParam("range"))
        {
            // 1 small, 2 far larger than the space, 3 of the order of the space (steps that overshoot the box by a little)
            double r = w.rangeMode == 1 ? 0.02 * w.ext : w.rangeMode == 3 ? 0.45 * w.ext : 2.0 * w.ext;
            p->params().setParam("range", std::to_string(r));
        }
        return p;
    }

    // flips boolean planner parameters (range suggestion "0,1") with the given probability each; returns what was changed.
    // "intermediate_states" is left alone: it changes which oracle class a planner belongs to (registry entry RRT-intermediate)
    inline std::string flipBoolParams(const ob::PlannerPtr &p, Rng &rng, double prob)
    {
        std::string changed;
        std::vector<std::string> names;
        p->params().getParamNames(names);
        std::sort(names.begin(), names.end());
        for (auto &n : names)
        {
            if (n == "intermediate_states") continue;
            // RRT*'s ordered_sampling is only legal together with informed / rejection sampling (the setter logs an error for
            // anything else and the planner then dereferences a null sampler): not a configuration in the quantifier
            if (n == "ordered_sampling") continue;
            // likewise pruned_measure is only legal together with informed sampling and tree pruning (error logged otherwise)
            if (n == "pruned_measure") continue;
            auto &gp = p->params()[n];
            if (gp.getRangeSuggestion() != "0,1") continue;
            if (!rng.coin(prob)) continue;
            std::string cur = gp.getValue();
            std::string nv = (cur == "1" || cur == "true") ? "0" : "1";
            try
            {
                if (p->params().setParam(n, nv)) changed += (changed.empty() ? "" : ",") + n + "=" + nv;
            }
            catch (const std::exception &)
            {
            }
        }
        return changed;
    }

    // evaluation-counting termination condition; thread safe
    struct EvalPTC
    {
        std::atomic<long> evals{0}, after{0};
        long budget;
        bool stopOnExact;
        ob::ProblemDefinitionPtr pdef;
        std::atomic<bool> fired{false};
        ob::PlannerTerminationCondition ptc;
        EvalPTC(long b, bool stop, ob::ProblemDefinitionPtr pd)
          : budget(b), stopOnExact(stop), pdef(std::move(pd)), ptc([this] { return eval(); })
        {
        }
        bool eval()
        {
            vf::heartbeat();
            long k = ++evals;
            if (fired.load(std::memory_order_relaxed))
            {
                ++after;
                return true;
            }
            if (k > budget || (stopOnExact && pdef && pdef->hasExactSolution()))
            {
                fired = true;
                return true;
            }
            return false;
        }
    };

    // ---------------------------------------------------------------------------------------------
    // independent solution oracle (C01; reused by C03, C19)
    // ---------------------------------------------------------------------------------------------
    struct OracleCtx
    {
        Sink &sink;
        World &w;
        const PInfo &pi;
        std::string prop;  // key prefix
        std::string pre;   // clause prefix ("" for C01, "solution-" for others)
        J detail(const std::string &what) const
        {
            J j;
            j.str("planner", pi.name).str("space", KIND_NAME[w.kind]).str("what", what).u("world", w.hash).num("res", w.res).i("segFactor", w.segFactor);
            j.i("goalType", w.goalType).i("rangeMode", w.rangeMode).num("threshold", w.threshold);
            return j;
        }
        // optional re-mapping of a clause (used by C03 to fold the symptoms of one root cause into one key)
        std::function<std::string(const std::string &)> remap;
        // the goal is fed by its own thread while (and shortly after) the planner runs (GoalLazySamples): the set the planner
        // measured its approximate difference against can only have grown by the time the oracle looks, so the reported value is
        // bounded from below only (difference >= distance to the goal as it is now)
        bool goalSetGrows = false;
        void viol(const std::string &clause, const J &d) const
        {
            std::string cl = pre + clause;
            if (remap) cl = remap(cl);
            sink.viol(prop + ":" + cl + ":" + pi.name, d);
        }
    };

    inline bool sameReals(const World &w, const ob::State *s, const std::vector<double> &r)
    {
        ob::ScopedState<> t(w.space);
        w.space->copyFromReals(t.get(), r);
        return w.space->equalStates(s, t.get());
    }

    // returns the worst invalid run in units of the resolution length
    inline double denseWorstRun(World &w, const og::PathGeometric &path, long *samples = nullptr)
    {
        ob::State *tmp = w.si->allocState();
        double worst = 0, run = 0;
        for (size_t i = 0; i + 1 < path.getStateCount(); ++i)
        {
            const ob::State *a = path.getState(i), *b = path.getState(i + 1);
            double d = w.si->distance(a, b);
            int m = std::max(1, (int)std::ceil(d / (w.rl / 4)));
            if (m > 200000) m = 200000;
            for (int j = 0; j <= m; ++j)
            {
                w.space->interpolate(a, b, (double)j / m, tmp);
                if (samples) ++*samples;
                if (!w.valid(tmp))
                {
                    if (j > 0) run += d / m;
                    worst = std::max(worst, run);
                }
                else
                    run = 0;
            }
        }
        w.si->freeState(tmp);
        return worst / w.rl;
    }

    // checks one reported solution; returns false if any violation was emitted
    inline bool checkSolution(const OracleCtx &c, const ob::PlannerSolution &sol, const ob::GoalPtr &goal)
    {
        World &w = c.w;
        Sink &sink = c.sink;
        long before = sink.violTotal();
        auto *path = dynamic_cast<og::PathGeometric *>(sol.path_.get());
        if (!path || path->getStateCount() == 0)
        {
            c.viol("empty-path", c.detail("solution without states"));
            return false;
        }
        sink.count("solutions_checked");
        sink.count("path_states_checked", path->getStateCount());
        // start
        bool startOk = false;
        for (auto &r : w.starts)
            if (!r.empty() && sameReals(w, path->getState(0), r)) startOk = true;
        if (!startOk)
        {
            bool isBad = false;
            for (auto &r : w.badStarts)
                if (!r.empty() && sameReals(w, path->getState(0), r)) isBad = true;
            c.viol("start-state", c.detail(isBad ? "path starts at an invalid/out-of-bounds start state" : "path does not start at a start state"));
        }
        // bounds
        for (size_t i = 0; i < path->getStateCount(); ++i)
            if (!w.space->satisfiesBounds(path->getState(i)))
            {
                c.viol("out-of-bounds", c.detail("path state outside the space bounds").i("index", i).arr("state", w.reals(path->getState(i))));
                break;
            }
        // goal / approximate agreement
        const ob::State *last = path->getState(path->getStateCount() - 1);
        double dist = -1;
        bool sat = goal->isSatisfied(last, &dist);
        if (!sol.approximate_)
        {
            if (!sat) c.viol("goal-not-satisfied", c.detail("exact solution whose last state is outside the goal region").num("distance", dist).arr("last", w.reals(last)));
            else if (!w.valid(last))
                c.viol("goal-state-invalid", c.detail("exact solution ends in an invalid state").arr("last", w.reals(last)));
            sink.count("exact_solutions");
        }
        else
        {
            sink.count("approximate_solutions");
            auto *gr = dynamic_cast<ob::GoalRegion *>(goal.get());
            if (gr)
            {
                double want = gr->distanceGoal(last);
                // the reported difference must be the distance from the path's last state to the goal: either to the goal
                // itself (distanceGoal, what most planners report) or to a state inside the goal region (AIT*/EIT* report the
                // distance to the closest goal-region state they hold), i.e. a value in [distanceGoal - threshold, distanceGoal]
                const double tol = 1e-9 * (1 + w.ext);
                // GoalStates may list invalid / out-of-bounds goal states that no path can end in; a planner that measures
                // the difference to the closest USABLE goal state reports more than distanceGoal(), which takes all of them
                double upper = want;
                if (w.goalType == 1)
                {
                    ob::ScopedState<> g(w.space);
                    double dv = std::numeric_limits<double>::infinity();
                    for (auto &r : w.goals)
                        if (!r.empty())
                        {
                            w.space->copyFromReals(g.get(), r);
                            dv = std::isfinite(dv) ? std::max(dv, w.space->distance(last, g.get())) : w.space->distance(last, g.get());
                        }
                    // (the FARTHEST usable goal state: informed-tree planners register the goal states one by one and measure
                    // the difference to the closest goal they hold so far, which may be any of them)
                    if (std::isfinite(dv)) upper = std::max(upper, dv);
                }
                if (c.goalSetGrows) upper = std::numeric_limits<double>::infinity();
                if (!(sol.difference_ <= upper + tol && sol.difference_ >= want - gr->getThreshold() - tol))
                    c.viol("approx-difference", c.detail("reported goal difference disagrees with the path's last state").num("reported", sol.difference_).num("actual", want));
            }
        }
        // dense re-validation
        long ns = 0;
        double worst = denseWorstRun(w, *path, &ns);
        sink.count("dense_samples", ns);
        sink.count("segments_revalidated", path->getStateCount() - 1);
        sink.maxstat("worst_invalid_run_in_resolution_lengths", worst);
        if (worst > 2.0) c.viol("invalid-stretch", c.detail("path stays inside invalid space for more than 2 resolution lengths").num("run_in_resolution_lengths", worst));
        // vertices
        long invV = 0;
        for (size_t i = 0; i < path->getStateCount(); ++i)
            if (!w.valid(path->getState(i))) ++invV;
        if (invV)
        {
            sink.count("invalid_vertices", invV);
            if (c.pi.strict) c.viol("invalid-vertex", c.detail("path vertex is invalid").i("n", invV));
        }
        // strict re-check
        if (c.pi.strict)
        {
            for (size_t i = 0; i + 1 < path->getStateCount(); ++i)
            {
                sink.count("strict_rechecks");
                if (!w.si->checkMotion(path->getState(i), path->getState(i + 1)))
                {
                    // orientation: bidirectional planners validate goal-tree motions in the other direction
                    bool rev = w.si->checkMotion(path->getState(i + 1), path->getState(i));
                    if (rev)
                    {
                        sink.count("strict_recheck_only_reverse_orientation");
                        continue;
                    }
                    c.viol("strict-recheck", c.detail("consecutive path states fail checkMotion").i("segment", i).arr("a", w.reals(path->getState(i))).arr("b", w.reals(path->getState(i + 1))));
                    break;
                }
            }
        }
        return sink.violTotal() == before;
    }

    inline uint64_t pathFingerprint(const World &w, const ob::PathPtr &p)
    {
        auto *path = dynamic_cast<og::PathGeometric *>(p.get());
        uint64_t h = 1469598103934665603ULL;
        if (!path) return h;
        std::vector<unsigned char> buf(w.space->getSerializationLength());
        for (size_t i = 0; i < path->getStateCount(); ++i)
        {
            w.space->serialize(buf.data(), path->getState(i));
            h = hashBytes(buf.data(), buf.size(), h);
        }
        return hmix(h, path->getStateCount());
    }
}  // namespace pl
