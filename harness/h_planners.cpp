// Engine h_planners: geometric / multilevel planners under an independent solution oracle.
//   C01 reported solutions are real            C03 interruption / resume / clear histories
//   C04 solution costs and ranking             C20 same seed => same bytes (fingerprints compared across processes by the driver)
#include "planners_common.h"
#include <unistd.h>
#include <ompl/base/objectives/StateCostIntegralObjective.h>
#include <ompl/base/objectives/MechanicalWorkOptimizationObjective.h>
#include <ompl/base/objectives/MaximizeMinClearanceObjective.h>
#include <ompl/base/objectives/MinimaxObjective.h>

using namespace pl;

static const char *statusName(const ob::PlannerStatus &st)
{
    static thread_local std::string s;
    s = st.asString();
    return s.c_str();
}

// one solve() call under the full status/solution-set oracle; returns the new solutions
struct SolveResult
{
    ob::PlannerStatus status;
    bool threw = false;
    std::string what;
    std::vector<ob::PlannerSolution> added;
    long evals = 0, after = 0;
};

static SolveResult solveChecked(const OracleCtx &c, const ob::PlannerPtr &planner, const ob::ProblemDefinitionPtr &pdef, long budget, bool stopOnExact,
                                long fireAt = -1)
{
    SolveResult r;
    std::set<const ob::Path *> before;
    for (auto &s : pdef->getSolutions()) before.insert(s.path_.get());
    EvalPTC e(fireAt >= 0 ? fireAt : budget, stopOnExact, pdef);
    try
    {
        r.status = planner->solve(e.ptc);
    }
    catch (const std::exception &ex)
    {
        r.threw = true;
        r.what = ex.what();
    }
    r.evals = e.evals;
    r.after = e.after;
    for (auto &s : pdef->getSolutions())
        if (!before.count(s.path_.get())) r.added.push_back(s);
    Sink &sink = c.sink;
    if (r.threw)
    {
        sink.count("solve_threw_exception");
        sink.count("exception:" + c.pi.name);
        if (!r.added.empty()) c.viol("exception-added-path", c.detail("solve() threw but added a solution path").str("exception", r.what));
        return r;
    }
    sink.count(std::string("status:") + statusName(r.status));
    bool solStatus = (bool)r.status;
    // a solution status must be backed by a solution the problem definition holds (a resumed solve() may return
    // EXACT_SOLUTION for the solution it reported earlier without adding another path)
    if (solStatus && r.added.empty())
    {
        if (pdef->getSolutionCount() == 0)
            c.viol("status-without-path", c.detail("solution status but the problem definition holds no solution path").str("status", statusName(r.status)));
        else
            sink.count("solution_status_without_new_path");
    }
    if (!solStatus && !r.added.empty())
        c.viol("nonsolution-added-path", c.detail("non-solution status but a path was added").str("status", statusName(r.status)).i("added", r.added.size()));
    bool anyExact = false, anyApprox = false;
    for (auto &s : r.added) (s.approximate_ ? anyApprox : anyExact) = true;
    if (r.status == ob::PlannerStatus::EXACT_SOLUTION && !anyExact && !r.added.empty())
        c.viol("approx-status", c.detail("status EXACT_SOLUTION but only approximate paths were added"));
    if (r.status == ob::PlannerStatus::APPROXIMATE_SOLUTION && !anyApprox && !r.added.empty())
        c.viol("approx-status", c.detail("status APPROXIMATE_SOLUTION but no path flagged approximate was added"));
    if (r.status == ob::PlannerStatus::EXACT_SOLUTION && !pdef->hasExactSolution())
        c.viol("exact-status-no-exact-solution", c.detail("status EXACT_SOLUTION but the problem definition holds no exact solution"));
    for (auto &s : r.added) checkSolution(c, s, pdef->getGoal());
    // top-ranked solution vs accessor agreement
    auto sols = pdef->getSolutions();
    if (!sols.empty())
    {
        if (pdef->hasApproximateSolution() != sols[0].approximate_ || pdef->getSolutionDifference() != sols[0].difference_)
            c.viol("top-accessors", c.detail("hasApproximateSolution/getSolutionDifference disagree with the top-ranked solution"));
    }
    return r;
}

// ------------------------------------------------------------------------------------------------------
// C01
// ------------------------------------------------------------------------------------------------------
static long g_c01MainCases = 0;
// rewiring planners that are usable in direction-dependent spaces (the direction block of C01)
static const std::vector<const PInfo *> &dirOptPlanners()
{
    static std::vector<const PInfo *> v;
    if (v.empty())
        for (auto &p : registry())
            if (p.optimizing && supports(p, K_DUBINS)) v.push_back(&p);
    return v;
}
static void c01(Sink &sink, const Args &a, long c)
{
    const auto &R = registry();
    // direction block (cases after the main block): rewiring planners on cluttered, tight-turn Dubins worlds with a full budget.
    // A mix-up between the motion that is validated and the motion that is inserted shows only when a rewired edge whose
    // reverse is valid and whose forward curve collides ends up on the solution path: rare per world, hence many worlds.
    const bool dirBlock = c >= g_c01MainCases;
    const auto &DP = dirOptPlanners();
    const PInfo &pi = dirBlock ? *DP[(c - g_c01MainCases) % DP.size()] : R[c % R.size()];
    long widx = dirBlock ? 1000000 + (c - g_c01MainCases) / (long)DP.size() : c / (long)R.size();
    // world kinds cycle; every third world has hostile inputs
    // planners that only build forward motions get the direction-dependent spaces in 4 of 10 worlds; the others never
    static const int KINDS_DIR[] = {K_DUBINS, K_R2, K_RS, K_SE2, K_DUBINS, K_R3, K_CMP, K_DUBINS, K_SE3, K_R6};
    static const int KINDS_SYM[] = {K_R2, K_SE2, K_R3, K_CMP, K_SE3, K_R2, K_SE2, K_R6, K_CMP, K_R3};
    // ... and the rewiring (optimizing) ones among them in 7 of 10: direction mix-ups between the motion that is validated and
    // the motion that is inserted only show there, and only now and then
    static const int KINDS_DIROPT[] = {K_DUBINS, K_DUBINS, K_RS, K_DUBINS, K_R2, K_DUBINS, K_SE2, K_DUBINS, K_RS, K_R3};
    int kind = supports(pi, K_DUBINS) ? (pi.optimizing ? KINDS_DIROPT[widx % 10] : KINDS_DIR[widx % 10]) : KINDS_SYM[widx % 10];
    if (a.get("kind") != "") kind = atoi(a.get("kind").c_str());
    bool hostile = (widx % 3) == 2;
    if (dirBlock) kind = K_DUBINS, hostile = false;
    if (!supports(pi, kind))
    {
        sink.noteCase(0, false);
        sink.count("skipped_unsupported_space");
        return;
    }
    uint64_t wseed = hmix(hmix(splitmix(a.seed), 0xC01), widx);
    ompl::RNG::setSeed(caseSeed(a, c, 1) % 1000000000ULL + 1);
    // every fourth world of the main block has a narrow passage (a wall with one slit between the start and the goal corner)
    const bool narrow = !dirBlock && !hostile && widx % 4 == 3;  // (worlds with hostile inputs keep the plain layout)
    // ... and every fourth is cluttered with many small obstacles (whatever the kind of space)
    const bool cluttered = !dirBlock && !hostile && widx % 4 == 2;
    auto w = makeWorld(wseed, kind, hostile, dirBlock ? -2 : narrow ? -3 : cluttered ? -4 : -1);
    // two of every six worlds (those of them with plain inputs) have a validity checker that does not test the bounds (obstacles only): planners that
    // extrapolate or perturb must bring their states back into the space themselves
    // (not in the Dubins / Reeds-Shepp worlds: an arc of the turning radius through a pose near the edge of the position box
    // necessarily leaves the box, so there the user's checker is the only thing that can keep a path inside - DESIGN 4/C07)
    if (!dirBlock && !hostile && (widx % 6 == 4 || widx % 6 == 1) && kind != K_DUBINS && kind != K_RS)
    {
        w->boundsLeftToPlanner = true;
        // half of them with a range of the order of the space (steps that overshoot the box by a little), a sixth with a huge one
        if (widx % 12 == 4 || widx % 12 == 1) w->rangeMode = (widx % 36 == 13) ? 2 : 3;
        sink.count("cases_with_bounds_left_to_planner");
    }
    if (cluttered) sink.count("cases_with_cluttered_world");
    if (narrow)
    {
        sink.count("cases_with_narrow_passage");
        sink.maxstat("narrowest_slit_solved_or_not", -w->slit);
        if (getenv("VERIF_DEBUG")) fprintf(stderr, "DBG narrow slit=%g obst=%zu kind=%d\n", w->slit, w->obst.size(), kind);
    }
    Rng rng(caseSeed(a, c));
    sink.subject(pi.name);
    if (dirBlock) sink.count("direction_block_cases");
    OracleCtx ctx{sink, *w, pi, "C01", ""};
    ob::PlannerPtr planner;
    auto pdef = makePdef(*w);
    try
    {
        planner = makePlanner(pi, *w, rng);
        if (widx % 5 == 3 && !flipBoolParams(planner, rng, 0.3).empty()) sink.count("cases_with_flipped_bool_params");
        planner->setProblemDefinition(pdef);
        planner->setup();
    }
    catch (const std::exception &ex)
    {
        sink.count("setup_threw:" + pi.name);
        sink.noteCase(0, false);
        return;
    }
    long budget = (long)(pi.budget * (kind == K_R6 || kind == K_SE3 ? 1.5 : 1.0));
    // every fourth world is cut short (5 .. 300 evaluations): that is where approximate solutions come from
    if (widx % 4 == 1 && !dirBlock)
    {
        budget = (long)rng.logUni(5, 300);
        sink.count("cases_with_short_budget");
    }
    // optimizing planners normally use their whole budget; in every fourth world they are stopped at their first exact
    // solution (the raw first path, before rewiring and pruning get a chance to replace its vertices)
    const bool stopAtFirst = pi.optimizing && !dirBlock && widx % 4 == 0;
    if (stopAtFirst) sink.count("cases_optimizing_planner_stopped_at_first_solution");
    SolveResult r = solveChecked(ctx, planner, pdef, budget, !pi.optimizing || stopAtFirst);
    bool usableStart = !w->starts.empty(), usableGoal = !w->goals.empty();
    if (!usableStart || !usableGoal)
    {
        sink.count("cases_without_usable_start_or_goal");
        // not a violation by itself: the goal REGION around an invalid goal state may well contain valid states
        if (!r.threw && (bool)r.status) sink.count("solutions_with_only_invalid_goal_states_given");
    }
    if (!r.added.empty())
    {
        sink.count("solved:" + pi.name);
        sink.count(std::string("solved_kind:") + KIND_NAME[kind]);
        if (narrow) sink.count("solved_through_narrow_passage");
    }
    else
        sink.count("unsolved:" + pi.name);
    auto *path = r.added.empty() ? nullptr : dynamic_cast<og::PathGeometric *>(r.added[0].path_.get());
    bool nontrivial = path && path->getStateCount() >= 3 && !w->obst.empty();
    sink.noteCase(hmix(hmix(wseed, hashStr(pi.name)), caseSeed(a, c, 2)), nontrivial);
    if (nontrivial)
        sink.sample(J().str("kind", "C01 case").str("planner", pi.name).str("space", KIND_NAME[kind]).i("obstacles", w->obst.size()).b("hostile_inputs", hostile)
                        .str("status", r.threw ? "exception" : statusName(r.status)).i("path_states", path->getStateCount()).num("length", path->length()).i("ptc_evaluations", r.evals));
}


// ------------------------------------------------------------------------------------------------------
// C03
// ------------------------------------------------------------------------------------------------------
static int threadsOf(const PInfo &pi) { return pi.mt ? 6 : 1; }

struct LeakScope
{
    World &w;
    long base, badBase;
    explicit LeakScope(World &w_) : w(w_), base(w_.tracker->liveCount()), badBase(w_.tracker->badFrees) {}
    // call after every planner / problem definition / path of the scope has been destroyed
    void finish(const OracleCtx &c, const std::string &history)
    {
        long live = w.tracker->liveCount() - base;
        long bad = w.tracker->badFrees - badBase;
        c.sink.count("leak_scopes_checked");
        // a history that exported planner data is keyed separately: BIT*-family planners keep every exported vertex alive in a
        // function-local static on purpose (known finding), which must not mask a leak on histories without getPlannerData()
        const bool exported = history.find("getPlannerData") != std::string::npos;
        if (live > 0)
            c.viol(exported ? "leak-states-after-getPlannerData" : "leak-states",
                   c.detail("states still allocated after planner and problem definition were destroyed").i("leaked", live).str("history", history));
        if (live < 0) c.viol("state-count-negative", c.detail("more states freed than allocated").i("delta", live).str("history", history));
        if (bad > 0) c.viol("bad-free", c.detail("freeState() called on a pointer that is not a live state (double free)").i("n", bad).str("history", history));
    }
};

static double g_multiGoalProb = 0.4;
static bool g_lastSwap = false;
// changes the query of a world: new valid start/goal states drawn in the corner regions
static void newQuery(World &w, Rng &rng)
{
    auto sampler = w.space->allocStateSampler();
    ob::ScopedState<> tmp(w.space);
    bool mid = false;  // draw in the middle of the space instead of a corner
    auto draw = [&](bool low) {
        for (int t = 0; t < 20000; ++t)
        {
            // the library RNG is not used here: keep the harness PRNG the only source
            std::vector<double> r = w.reals(tmp.get());
            for (auto &v : r) v = rng.uni(-1, 1);
            for (int i = 0; i < w.pd; ++i) r[i] = mid ? rng.uni(3.0, 7.0) : low ? rng.uni(0.2, 2.8) : rng.uni(7.2, 9.8);
            if (w.kind == K_R6)
                for (int i = 3; i < 6; ++i) r[i] = rng.uni(0.2, 9.8);
            w.space->copyFromReals(tmp.get(), r);
            w.space->enforceBounds(tmp.get());
            if (w.valid(tmp.get())) return w.reals(tmp.get());
        }
        return std::vector<double>();
    };
    // in the reuse histories the start mostly changes corner from query to query: a goal state of the previous query then
    // lies close to the new start (a planner that did not forget it would happily return it)
    bool swap = g_multiGoalProb > 0.5 ? (rng.coin(0.75) ? !g_lastSwap : g_lastSwap) : rng.coin(0.3);
    g_lastSwap = swap;
    w.starts = {draw(!swap)};
    w.goals = {draw(swap)};
    w.badStarts.clear();
    w.badGoals.clear();
    w.goalType = 0;
    // 4 of 10 queries (8 of 10 when asked for) have several goal states at different distances (optimizing planners prune the far ones)
    if (rng.coin(g_multiGoalProb))
    {
        w.goalType = 1;
        int extra = 1 + (int)rng.ui(2);
        for (int i = 0; i < extra; ++i)
        {
            // reuse histories: the extra goal states are nearer to the start, so the far one gets pruned once a solution exists;
            // half of them lie in the middle of the space, where the obstacles are: the first solution is then rarely the
            // straight line (an optimal first solution ends the search of BIT*-like planners before anything is pruned)
            mid = g_multiGoalProb > 0.5 && rng.coin();
            auto g = draw(g_multiGoalProb > 0.5 ? !swap : (rng.coin() ? swap : !swap));
            if (mid && !w.starts[0].empty())
            {
                // ... and preferably behind an obstacle as seen from the start
                ob::ScopedState<> s0(w.space), s1(w.space);
                w.space->copyFromReals(s0.get(), w.starts[0]);
                for (int t = 0; t < 40 && !g.empty(); ++t)
                {
                    w.space->copyFromReals(s1.get(), g);
                    if (!w.si->checkMotion(s0.get(), s1.get())) break;
                    g = draw(false);
                }
            }
            mid = false;
            if (!g.empty() && g != w.starts[0]) w.goals.push_back(g);
        }
    }
}

static const char *OPN[] = {"solve", "solve0", "clear", "clearQuery", "newPdef", "getPlannerData", "newQuery+clear",
                            "samePdefEdited+setProblemDefinition", "samePdefEdited+clear", "samePdefEdited+clearQuery"};

// After an interrupted / completed call: history of further calls under the oracle
static void c03History(Sink &sink, const Args &a, long c, const PInfo &pi, long hidx)
{
    uint64_t wseed = hmix(hmix(splitmix(a.seed), 0xC03), hidx % 4);
    static const int KINDS[] = {K_R2, K_SE2, K_R2, K_R3};
    int kind = KINDS[hidx % 4];
    ompl::RNG::setSeed(caseSeed(a, c, 1) % 1000000000ULL + 1);
    auto w = makeWorld(wseed, kind, false, 4);
    w->rangeMode = 0;
    Rng rng(caseSeed(a, c));
    g_multiGoalProb = (hidx >= 1 && hidx <= 6) ? 0.8 : 0.4;
    g_lastSwap = false;
    if (hidx % 3 == 1 || (hidx >= 2 && hidx <= 6)) newQuery(*w, rng);  // a third of the histories start with a (possibly multi-goal) drawn query
    OracleCtx ctx{sink, *w, pi, "C03", "solution-", nullptr};
    OracleCtx hctx{sink, *w, pi, "C03", "", nullptr};
    std::string hist;
    {
        LeakScope leak(*w);
        {
            ob::PlannerPtr planner;
            auto pdef = makePdef(*w);
            try
            {
                planner = makePlanner(pi, *w, rng);
                planner->setProblemDefinition(pdef);
                planner->setup();
            }
            catch (const std::exception &ex)
            {
                sink.count("setup_threw:" + pi.name);
                sink.noteCase(0, false);
                return;
            }
            int len = 2 + rng.ui(7);
            // the first history of every planner is fixed: solve, switch the problem definition without clear(), solve
            const bool fixedHistory = (hidx == 0);
            if (fixedHistory) len = 3;
            // history 7 is fixed too: solve, new start / goal written into the SAME problem definition object, which is announced
            // again with setProblemDefinition() (planners that clear their query there must do so for an unchanged pointer too), solve
            const bool inPlaceHistory = (hidx == 7);
            if (inPlaceHistory) len = 3;
            // histories 1 and 2 are fixed as well: reuse after clear() / clearQuery() with drawn (often multi-goal) queries:
            //   1: solve, solve, [new query + clear(), solve, solve] x 3        2: solve, [clearQuery + new query, solve] x 3
            static const int H1[] = {0, 0, 6, 0, 0, 6, 0, 0, 6, 0, 0};
            static const int H2[] = {0, 3, 0, 3, 0, 3, 0};
            const bool reuse1 = hidx == 1 || (hidx >= 3 && hidx <= 6);
            const int *fixedOps = reuse1 ? H1 : hidx == 2 ? H2 : nullptr;
            if (reuse1) len = 11;
            if (hidx == 2) len = 7;
            // after setProblemDefinition(new) without clear(): wrong end points of the next paths are symptoms of one root
            // cause (the planner did not forget the previous query) and share one key
            bool dirtySwitch = false;
            ctx.remap = [&dirtySwitch](const std::string &cl) {
                // (... and, when the planner still believes it holds the old query's solution, a solution status although the
                // re-filled problem definition holds no path)
                if (dirtySwitch && (cl == "solution-start-state" || cl == "solution-goal-not-satisfied" || cl == "solution-approx-difference" || cl == "stale-query" ||
                                    cl == "solution-status-without-path" || cl == "solution-exact-status-no-exact-solution" || cl == "status-without-path" ||
                                    cl == "exact-status-no-exact-solution"))
                    return std::string("stale-query-after-setProblemDefinition");
                return cl;
            };
            hctx.remap = ctx.remap;
            bool cleared = true;  // whether the planner currently holds no information of an earlier query
            std::vector<std::vector<double>> oldEnds;  // start / goal states of earlier queries
            bool abandoned = false;
            long violBefore = sink.violTotal();
            for (int step = 0; step < len && !abandoned; ++step)
            {
                int op = step == 0 ? 0 : (int)rng.ui(10);
                if (fixedHistory) op = step == 1 ? 4 : 0;
                if (fixedOps) op = fixedOps[step];
                if (inPlaceHistory) op = step == 1 ? 7 : 0;
                hist += std::string(hist.empty() ? "" : ",") + OPN[op];
                sink.count(std::string("c03_op_") + OPN[op]);
                // flushed before the operation runs: a crash witness then tells which history led to it
                sink.rawLine(J().str("t", "info").str("history", hist).b("dirty_switch", dirtySwitch).done());
                try
                {
                    if (op == 0 || op == 1)
                    {
                        auto before = pdef->getSolutions();
                        long budget = op == 1 ? 0 : std::max(50L, (long)(pi.budget * rng.uni(0.1, 0.6)));
                        SolveResult r = solveChecked(ctx, planner, pdef, budget, !pi.optimizing);
                        if (r.after > 64 + 16 * threadsOf(pi))
                            hctx.viol("evaluations-after-termination", hctx.detail("solve() kept evaluating the termination condition after it fired").i("after", r.after).str("history", hist));
                        sink.maxstat("max_evaluations_after_fire", (double)r.after);
                        // keep-or-improve
                        auto after = pdef->getSolutions();
                        if (!before.empty())
                        {
                            if (after.empty()) hctx.viol("solution-lost", hctx.detail("resumed solve() lost the reported solution").str("history", hist));
                            else
                            {
                                if (!before[0].approximate_ && after[0].approximate_)
                                    hctx.viol("resume-worse", hctx.detail("exact solution replaced by approximate one after resumed solve()").str("history", hist));
                                // (true lengths are compared for the planners that maintain costs eagerly; RRT# / RRTX rank their
                                // solutions by epsilon-consistent stored costs, whose order C04 decides)
                                else if (pi.eagerCost && !before[0].approximate_ && !after[0].approximate_ &&
                                         after[0].path_->length() > before[0].path_->length() * (1 + 1e-9) + 1e-9 && before[0].opt_ && after[0].opt_)
                                    hctx.viol("resume-worse", hctx.detail("best solution got longer after resumed solve()").num("before", before[0].path_->length()).num("after", after[0].path_->length()).str("history", hist));
                            }
                            sink.count("c03_resume_checks");
                        }
                        // endpoints of earlier queries must not come back after clear()/new problem definition
                        for (auto &sol : r.added)
                        {
                            auto *path = dynamic_cast<og::PathGeometric *>(sol.path_.get());
                            if (!path || path->getStateCount() == 0) continue;
                            for (auto &o : oldEnds)
                            {
                                bool cur = false;
                                for (auto &x : w->starts) cur |= (x == o);
                                for (auto &x : w->goals) cur |= (x == o);
                                if (cur) continue;
                                if (sameReals(*w, path->getState(0), o))
                                    hctx.viol("stale-query", hctx.detail("path starts at a start/goal state of the previous query").str("history", hist));
                            }
                        }
                        cleared = false;
                    }
                    else if (op == 2)
                    {
                        planner->clear();
                        if (rng.coin(0.3)) planner->clear();  // clear() is idempotent
                        ob::PlannerData pd(w->si);
                        planner->getPlannerData(pd);
                        if (pd.numVertices() != 0)
                            hctx.viol("plannerdata-after-clear", hctx.detail("getPlannerData() not empty after clear()").i("vertices", pd.numVertices()).str("history", hist));
                        sink.count("c03_clear_checks");
                        cleared = true;
                        dirtySwitch = false;
                        pdef->clearSolutionPaths();
                    }
                    else if (op == 3)
                    {
                        // clearQuery(): new query on the same problem definition object
                        for (auto &x : w->starts) oldEnds.push_back(x);
                        for (auto &x : w->goals) oldEnds.push_back(x);
                        planner->clearQuery();
                        newQuery(*w, rng);
                        pdef = makePdef(*w);
                        planner->setProblemDefinition(pdef);
                        planner->clearQuery();
                        dirtySwitch = false;
                    }
                    else if (op == 4)
                    {
                        // switching to a new problem definition without clear()
                        for (auto &x : w->starts) oldEnds.push_back(x);
                        for (auto &x : w->goals) oldEnds.push_back(x);
                        newQuery(*w, rng);
                        pdef = makePdef(*w);
                        planner->setProblemDefinition(pdef);
                        dirtySwitch = true;
                    }
                    else if (op == 7 || op == 8 || op == 9)
                    {
                        // the next query is written into the same ProblemDefinition object (start states, goal and solution paths
                        // replaced); the planner is told by setProblemDefinition(same object) / clear() / clearQuery()
                        for (auto &x : w->starts) oldEnds.push_back(x);
                        for (auto &x : w->goals) oldEnds.push_back(x);
                        newQuery(*w, rng);
                        refillPdef(pdef, *w);
                        if (op == 7)
                        {
                            planner->setProblemDefinition(pdef);
                            dirtySwitch = true;   // no clear(): same expectations (and the same key) as for a new object
                        }
                        else if (op == 8)
                        {
                            planner->clear();
                            cleared = true;
                            dirtySwitch = false;
                        }
                        else
                        {
                            planner->clearQuery();
                            dirtySwitch = false;
                        }
                        sink.count("c03_in_place_query_edits");
                    }
                    else if (op == 5)
                    {
                        ob::PlannerData pd(w->si);
                        planner->getPlannerData(pd);
                        // every vertex is a state of this space; touching them lets ASan see stale pointers
                        for (unsigned i = 0; i < pd.numVertices(); ++i)
                        {
                            const ob::State *st = pd.getVertex(i).getState();
                            if (st) (void)w->space->satisfiesBounds(st);
                        }
                        pd.decoupleFromPlanner();
                        sink.count("c03_plannerdata_vertices", pd.numVertices());
                    }
                    else
                    {
                        for (auto &x : w->starts) oldEnds.push_back(x);
                        for (auto &x : w->goals) oldEnds.push_back(x);
                        planner->clear();
                        newQuery(*w, rng);
                        pdef = makePdef(*w);
                        planner->setProblemDefinition(pdef);
                        cleared = true;
                        dirtySwitch = false;
                    }
                }
                catch (const std::exception &ex)
                {
                    sink.count("history_op_threw:" + pi.name);
                    abandoned = true;
                }
                if (sink.violTotal() != violBefore) abandoned = true;  // consequences are not causes
            }
            (void)cleared;
        }
        OracleCtx lctx{sink, *w, pi, "C03", ""};
        leak.finish(lctx, hist);
    }
    sink.noteCase(hmix(caseSeed(a, c, 2), hashStr(hist + pi.name)), hist.find(',') != std::string::npos);
    sink.sample(J().str("kind", "C03 history").str("planner", pi.name).str("space", KIND_NAME[kind]).str("ops", hist));
}

static void c03Interrupt(Sink &sink, const Args &a, long c, const PInfo &pi, long block, long widx, int nblocks, int blockSize)
{
    uint64_t wseed = hmix(hmix(splitmix(a.seed), 0xC03), 100 + widx);
    int kind = (widx % 2) ? K_SE2 : K_R2;
    Rng rng(caseSeed(a, c));
    std::vector<long> ks;
    long K1 = -1;
    auto world = [&] {
        auto w = makeWorld(wseed, kind, false, 3);
        w->rangeMode = 0;
        return w;
    };
    if (block < nblocks - 1)
        for (long k = block * blockSize; k < (block + 1) * blockSize; ++k) ks.push_back(k);
    else
    {
        // calibration: number of evaluations until the first solution
        ompl::RNG::setSeed(caseSeed(a, c, 1) % 1000000000ULL + 1);
        auto w = world();
        auto pdef = makePdef(*w);
        Rng r2(caseSeed(a, c, 3));
        try
        {
            auto planner = makePlanner(pi, *w, r2);
            planner->setProblemDefinition(pdef);
            planner->setup();
            EvalPTC e(pi.budget, true, pdef);
            planner->solve(e.ptc);
            if (pdef->hasExactSolution()) K1 = e.evals;
        }
        catch (const std::exception &)
        {
        }
        long base = (nblocks - 1) * blockSize;
        for (long k = base; k < pi.budget + 50; k = (long)(k * 1.35) + 1) ks.push_back(k);
        if (K1 > 0)
            for (long d = -2; d <= 2; ++d)
                if (K1 + d >= 0) ks.push_back(K1 + d);
        sink.count(K1 > 0 ? "c03_calibrated" : "c03_calibration_no_solution");
    }
    for (long k : ks)
    {
        ompl::RNG::setSeed(caseSeed(a, c, 1) % 1000000000ULL + 1);
        auto w = world();
        OracleCtx ctx{sink, *w, pi, "C03", "solution-"};
        OracleCtx hctx{sink, *w, pi, "C03", ""};
        std::string hist = "interrupt@" + std::to_string(k);
        long violBefore = sink.violTotal();
        {
            LeakScope leak(*w);
            {
                auto pdef = makePdef(*w);
                Rng r2(caseSeed(a, c, 3));
                ob::PlannerPtr planner;
                try
                {
                    planner = makePlanner(pi, *w, r2);
                    planner->setProblemDefinition(pdef);
                    planner->setup();
                }
                catch (const std::exception &)
                {
                    sink.count("setup_threw:" + pi.name);
                    return;
                }
                SolveResult r = solveChecked(ctx, planner, pdef, pi.budget, true, k);
                sink.count("c03_interrupted_solves");
                if (r.after > 64 + 16 * threadsOf(pi))
                    hctx.viol("evaluations-after-termination", hctx.detail("solve() kept evaluating the termination condition after it fired").i("after", r.after).i("k", k));
                sink.maxstat("max_evaluations_after_fire", (double)r.after);
                if (!r.added.empty()) sink.count("c03_interrupted_with_solution");
                // every fourth k: resume, then clear and solve again
                if (k % 4 == 1 && !r.threw)
                {
                    hist += ",solve";
                    auto before = pdef->getSolutions();
                    SolveResult r2s = solveChecked(ctx, planner, pdef, std::max(60L, (long)pi.budget / 4), !pi.optimizing);
                    auto after = pdef->getSolutions();
                    if (!before.empty() && (after.empty() || (!before[0].approximate_ && after[0].approximate_)))
                        hctx.viol("resume-worse", hctx.detail("resumed solve() lost or degraded the reported solution").i("k", k));
                    sink.count("c03_resume_checks");
                    (void)r2s;
                }
            }
            leak.finish(hctx, hist);
        }
        if (sink.violTotal() != violBefore) break;  // one witness per case; later k would repeat the same cause
    }
    sink.noteCase(hmix(caseSeed(a, c, 2), block * 131 + widx), !ks.empty());
    if (block == 0)
        sink.sample(J().str("kind", "C03 interruption block").str("planner", pi.name).str("space", KIND_NAME[kind]).i("k_from", ks.front()).i("k_to", ks.back()));
}

static void c03(Sink &sink, const Args &a, long c)
{
    const auto &R = registry();
    const PInfo &pi = R[c % R.size()];
    sink.subject(pi.name);
    long rest = c / R.size();
    const int blockSize = 16;
    const int nblocks = a.thorough() ? 33 : 9;       // k = 0..(nblocks-1)*16-1 exhaustively + one calibrated block
    const int nworlds = a.thorough() ? 3 : 2;
    long nInterrupt = (long)nblocks * nworlds;
    if (rest < nInterrupt) c03Interrupt(sink, a, c, pi, rest % nblocks, rest / nblocks, nblocks, blockSize);
    else c03History(sink, a, c, pi, rest - nInterrupt);
}

// ------------------------------------------------------------------------------------------------------
// C04
// ------------------------------------------------------------------------------------------------------
struct FieldIntegral : ob::StateCostIntegralObjective
{
    World *w;
    FieldIntegral(const ob::SpaceInformationPtr &si, World *w_) : ob::StateCostIntegralObjective(si, false), w(w_) {}
    static double field(World *w, const ob::State *s)
    {
        double p[3] = {0, 0, 0}, h;
        w->pose(s, p, h);
        return 1.0 + 3.0 * std::exp(-((p[0] - 5) * (p[0] - 5) + (p[1] - 5) * (p[1] - 5)) / 6.0);
    }
    ob::Cost stateCost(const ob::State *s) const override { return ob::Cost(field(w, s)); }
};
struct FieldWork : ob::MechanicalWorkOptimizationObjective
{
    World *w;
    FieldWork(const ob::SpaceInformationPtr &si, World *w_) : ob::MechanicalWorkOptimizationObjective(si), w(w_) {}
    ob::Cost stateCost(const ob::State *s) const override { return ob::Cost(FieldIntegral::field(w, s)); }
};

static const char *OBJN[] = {"PathLength", "StateCostIntegral", "MechanicalWork", "MaximizeMinClearance", "MultiObjective"};

static ob::OptimizationObjectivePtr makeObjective(int kind, World &w)
{
    switch (kind)
    {
        case 0:
            return std::make_shared<ob::PathLengthOptimizationObjective>(w.si);
        case 1:
            return std::make_shared<FieldIntegral>(w.si, &w);
        case 2:
            return std::make_shared<FieldWork>(w.si, &w);
        case 3:
            return std::make_shared<ob::MaximizeMinClearanceObjective>(w.si);
        default:
        {
            auto m = std::make_shared<ob::MultiOptimizationObjective>(w.si);
            m->addObjective(std::make_shared<ob::PathLengthOptimizationObjective>(w.si), 1.0);
            m->addObjective(std::make_shared<FieldIntegral>(w.si, &w), 0.5);
            m->lock();
            return m;
        }
    }
}

// true cost of a path, recomputed by the harness (own fold; own formulas where the objective is defined by the harness)
static bool trueCost(int objKind, World &w, const ob::OptimizationObjectivePtr &opt, const og::PathGeometric &p, double &out)
{
    size_t n = p.getStateCount();
    if (n == 0) return false;
    auto len = [&] {
        double L = 0;
        for (size_t i = 1; i < n; ++i) L += w.space->distance(p.getState(i - 1), p.getState(i));
        return L;
    };
    auto integral = [&] {
        double L = 0;
        for (size_t i = 1; i < n; ++i)
            L += 0.5 * (FieldIntegral::field(&w, p.getState(i - 1)) + FieldIntegral::field(&w, p.getState(i))) * w.space->distance(p.getState(i - 1), p.getState(i));
        return L;
    };
    switch (objKind)
    {
        case 0:
            out = len();
            return true;
        case 1:
            out = integral();
            return true;
        case 2:
        {
            double L = 0;
            for (size_t i = 1; i < n; ++i)
                L += std::max(FieldIntegral::field(&w, p.getState(i)) - FieldIntegral::field(&w, p.getState(i - 1)), 0.0) +
                     static_cast<ob::MechanicalWorkOptimizationObjective *>(opt.get())->getPathLengthWeight() * w.space->distance(p.getState(i - 1), p.getState(i));
            out = L;
            return true;
        }
        case 3:
        {
            // harness fold over the objective's own motion costs (min clearance along each motion)
            ob::Cost c = opt->initialCost(p.getState(0));
            for (size_t i = 1; i < n; ++i) c = opt->combineCosts(c, opt->motionCost(p.getState(i - 1), p.getState(i)));
            c = opt->combineCosts(c, opt->terminalCost(p.getState(n - 1)));
            out = c.value();
            return true;
        }
        default:
            out = 1.0 * len() + 0.5 * integral();
            return true;
    }
}

static bool orderedBefore(const ob::PlannerSolution &x, const ob::PlannerSolution &y)
{
    // the stated order: exact before approximate; approximate by smaller difference; exact: objective-satisfying first, then better cost
    if (x.approximate_ != y.approximate_) return !x.approximate_;
    if (x.approximate_) return x.difference_ < y.difference_;
    if (x.optimized_ != y.optimized_) return x.optimized_;
    if (x.opt_) return x.opt_->isCostBetterThan(x.cost_, y.cost_);
    return x.length_ < y.length_;
}

static void checkRanking(const OracleCtx &c, const std::vector<ob::PlannerSolution> &sols, const std::string &subject)
{
    for (size_t i = 1; i < sols.size(); ++i)
        if (orderedBefore(sols[i], sols[i - 1]))
        {
            c.sink.viol("C04:ranking:" + subject, c.detail("getSolutions() has an adjacent inversion of the stated order").i("index", i).i("n", sols.size()));
            break;
        }
    c.sink.count("c04_rankings_checked");
}

static const std::vector<std::string> &optPlanners()
{
    static std::vector<std::string> v = {"RRTstar", "InformedRRTstar", "SORRTstar", "RRTsharp", "RRTXstatic", "BITstar", "ABITstar", "AITstar", "EITstar", "EIRMstar",
                                         "PRMstar", "LazyPRMstar", "PRM", "LazyPRM", "FMT", "BFMT", "LBTRRT", "LazyLBTRRT", "SST", "TRRT", "CForest", "AnytimePathShortening"};
    return v;
}

static long g_c04MainCases = 0;
static long g_c04ItBlockStart = 1L << 60;
static void c04Planner(Sink &sink, const Args &a, long c, long idx)
{
    const auto &OP = optPlanners();
    // goal-bookkeeping block (cases after the main block): every case has several goal states AND clears the solution paths
    // between the continued solves, with a reduced budget
    const bool gbBlock = idx >= g_c04MainCases;
    // ... and a further block of such cases for the informed-tree planners alone (path length): they keep one cost per goal
    // state and re-register incumbents after clearSolutionPaths(); which goal they visit first decides what is reported
    const bool itBlock = idx >= g_c04ItBlockStart;
    static const char *IT[] = {"AITstar", "EITstar", "EIRMstar"};
    if (gbBlock && !itBlock) idx = (idx - g_c04MainCases) + 7918 * OP.size() * 5;  // worlds of their own
    const long itIdx = idx - g_c04ItBlockStart;
    const PInfo &pi = itBlock ? *findPlanner(IT[itIdx % 3]) : *findPlanner(OP[idx % OP.size()]);
    sink.subject(pi.name);
    long rest = idx / OP.size();
    int objKind = itBlock ? 0 : rest % 5;
    long widx = itBlock ? 5000 + itIdx / 3 : rest / 5;
    if (itBlock) sink.count("c04_informed_tree_goal_bookkeeping_cases");
    static const int KINDS[] = {K_R2, K_SE2, K_R3};
    int kind = KINDS[widx % 3];
    // FMT / BFMT use the objective's motion cost as the distance function of their nearest-neighbour structure, so only
    // metric objectives are inside their domain (with max-min clearance GNAT ends up holding duplicates; DESIGN §5)
    if ((pi.name == "FMT" || pi.name == "BFMT") && objKind != 0)
    {
        sink.count("c04_skipped_fmt_nonmetric_objective");
        sink.noteCase(0, false);
        return;
    }
    uint64_t wseed = hmix(hmix(splitmix(a.seed), 0xC04), widx);
    ompl::RNG::setSeed(caseSeed(a, c, 1) % 1000000000ULL + 1);
    auto w = makeWorld(wseed, kind, false);
    w->rangeMode = 0;
    Rng rng(caseSeed(a, c));
    OracleCtx ctx{sink, *w, pi, "C04", ""};
    // a third of the cases have several goal states at different distances (a planner then keeps one cost per goal), a quarter
    // clear the problem definition's solution paths between the continued solves (the planner re-registers its incumbents)
    const bool multiGoal = rng.ui(3) == 1 || gbBlock;
    const bool clearBetween = rng.ui(4) == 0 || gbBlock;
    if (gbBlock) sink.count("c04_goal_bookkeeping_block_cases");
    if (multiGoal)
    {
        g_multiGoalProb = 1.0;
        g_lastSwap = true;
        newQuery(*w, rng);
        g_multiGoalProb = 0.4;
        sink.count("c04_cases_with_several_goal_states");
    }
    if (clearBetween) sink.count("c04_cases_clearing_solution_paths_between_solves");
    auto pdef = makePdef(*w, false);
    auto opt = makeObjective(objKind, *w);
    // a third of the cases use a finite threshold
    bool finiteThr = rng.ui(3) == 0;
    ob::ScopedState<> s0(w->space), g0(w->space);
    w->toState(w->starts[0], s0.get());
    double straight = std::numeric_limits<double>::infinity();
    for (auto &g : w->goals)
    {
        w->toState(g, g0.get());
        straight = std::min(straight, w->space->distance(s0.get(), g0.get()));
    }
    if (finiteThr)
    {
        double thr = objKind == 0 ? straight * rng.uni(1.05, 1.6) : objKind == 3 ? rng.uni(0.05, 0.6) : objKind == 2 ? rng.uni(0.5, 4.0) : straight * rng.uni(1.2, 3.0);
        opt->setCostThreshold(ob::Cost(thr));
    }
    // otherwise the default threshold stays (never satisfied: planners keep optimizing until the budget is used)
    pdef->setOptimizationObjective(opt);
    ob::PlannerPtr planner;
    std::string flipped;
    try
    {
        planner = makePlanner(pi, *w, rng);
        // (informed-tree planners use only as many goal states as they are told to: mostly more than the default of one here)
        if (multiGoal && rng.coin(0.9))
        {
            if (auto *q = dynamic_cast<og::AITstar *>(planner.get())) q->setMaxNumberOfGoals(2 + rng.ui(9));
            if (auto *q = dynamic_cast<og::EITstar *>(planner.get())) q->setMaxNumberOfGoals(2 + rng.ui(9));
        }
        // every other world runs with randomly flipped boolean planner parameters (delayed collision checking, pruning,
        // rejection variants, k-nearest, ...): the non-default code paths
        if (widx % 2 == 1) flipped = flipBoolParams(planner, rng, 0.3);
        if (!flipped.empty()) sink.count("c04_cases_with_flipped_bool_params");
        planner->setProblemDefinition(pdef);
        planner->setup();
    }
    catch (const std::exception &)
    {
        sink.count(std::string("c04_objective_rejected:") + pi.name + ":" + OBJN[objKind]);
        sink.noteCase(0, false);
        return;
    }
    int rounds = 3 + rng.ui(4);
    // (informed-tree block: many short solves, so that the solution paths are cleared while several goal states are still
    // connected - a few batches later the worse ones are pruned)
    if (itBlock) rounds = 8 + rng.ui(5);
    double bestStored = 0;
    bool haveBest = false;
    long checked = 0;
    auto detail = [&](const std::string &what) { return ctx.detail(what).str("objective", OBJN[objKind]).b("finite_threshold", finiteThr).str("flipped_params", flipped); };
    long violBefore = sink.violTotal();
    for (int round = 0; round < rounds && sink.violTotal() == violBefore; ++round)
    {
        std::set<const ob::Path *> seen;
        for (auto &sol : pdef->getSolutions()) seen.insert(sol.path_.get());
        EvalPTC e(itBlock ? (long)rng.logUni(40, 500) : (long)(pi.budget * (0.2 + 0.15 * round) * (gbBlock ? 0.6 : 1.0)), false, pdef);
        try
        {
            planner->solve(e.ptc);
        }
        catch (const std::exception &)
        {
            sink.count(std::string("c04_solve_threw:") + pi.name + ":" + OBJN[objKind]);
            break;
        }
        auto sols = pdef->getSolutions();
        checkRanking(ctx, sols, "ProblemDefinition");
        for (auto &sol : sols)
        {
            if (seen.count(sol.path_.get())) continue;
            auto *path = dynamic_cast<og::PathGeometric *>(sol.path_.get());
            if (!path || path->getStateCount() == 0) continue;
            if (std::fabs(sol.length_ - path->length()) > 1e-9 * (1 + path->length()))
                sink.viol("C04:length-field:" + pi.name, detail("stored length differs from the path's length").num("stored", sol.length_).num("actual", path->length()));
            if (!sol.opt_)
            {
                sink.count("c04_solutions_without_objective");
                continue;
            }
            double tc;
            if (!trueCost(objKind, *w, sol.opt_, *path, tc)) continue;
            ++checked;
            sink.count("c04_costs_recomputed");
            sink.count(std::string("c04_costs:") + pi.name);
            double stored = sol.cost_.value();
            double tol = 1e-6 * (1 + std::fabs(tc));
            bool storedBetter = sol.opt_->isCostBetterThan(ob::Cost(stored), ob::Cost(tc)) && std::fabs(stored - tc) > tol;
            // direction-dependent objectives get their own keys (roadmap planners keep one weight per undirected edge)
            const std::string osfx = (objKind == 2 || objKind == 3) ? std::string(":") + OBJN[objKind] : std::string();
            if (storedBetter)
                sink.viol("C04:stored-cost-better-than-true:" + pi.name + osfx, detail("stored cost is better than the path's true cost").num("stored", stored).num("true", tc).b("approximate", sol.approximate_).num("library_path_cost", path->cost(sol.opt_).value()).i("states", path->getStateCount()));
            else if (pi.eagerCost && !sol.approximate_ && std::fabs(stored - tc) > tol)
                sink.viol("C04:stored-cost-differs:" + pi.name + osfx, detail("stored cost differs from the path's true cost (planner maintains costs eagerly)").num("stored", stored).num("true", tc));
            if (std::fabs(stored - tc) > tol) sink.count("c04_stored_cost_worse_than_true");
            // admissible lower bound (path length): straight-line distance between the path's end points
            if (objKind == 0)
            {
                double lb = w->space->distance(path->getState(0), path->getState(path->getStateCount() - 1));
                if (tc < lb - 1e-9 * (1 + lb)) sink.viol("C04:below-admissible-bound:" + pi.name, detail("true path length below the straight-line distance of its end points").num("true", tc).num("bound", lb));
                if (!sol.approximate_ && tc < straight - w->threshold - 1e-9 * (1 + straight))
                    sink.viol("C04:below-admissible-bound:" + pi.name, detail("true path length below distance(start,goal) - threshold").num("true", tc).num("bound", straight - w->threshold));
                sink.count("c04_admissible_checks");
            }
            if (!sol.approximate_)
            {
                bool sat = sol.opt_->isSatisfied(sol.cost_);
                if (sol.optimized_ != sat)
                    sink.viol("C04:optimized-flag:" + pi.name, detail("objective-satisfied flag disagrees with the stored cost and the threshold").b("flag", sol.optimized_).num("stored", stored).num("threshold", sol.opt_->getCostThreshold().value()));
                sink.count("c04_flag_checks");
            }
            else if (sol.optimized_ != sol.opt_->isSatisfied(sol.cost_))
                sink.count("c04_flag_mismatch_on_approximate_solution");
        }
        // best stored exact cost across continued solves never gets worse
        if (!sols.empty() && !sols[0].approximate_ && sols[0].opt_)
        {
            double b = sols[0].cost_.value();
            if (haveBest && sols[0].opt_->isCostBetterThan(ob::Cost(bestStored), ob::Cost(b)) && std::fabs(b - bestStored) > 1e-9 * (1 + std::fabs(b)))
                sink.viol("C04:best-cost-worse:" + pi.name, detail("best stored cost got worse across continued solve() calls").num("before", bestStored).num("after", b).i("round", round));
            bestStored = b;
            haveBest = true;
            sink.count("c04_monotone_checks");
        }
        if (clearBetween && round + 1 < rounds && rng.coin(0.6))
        {
            // what the planner registers afterwards is checked like any other solution; the best cost is not compared across
            // the clear (a planner need not register anything until it improves)
            pdef->clearSolutionPaths();
            haveBest = false;
            sink.count("c04_solution_paths_cleared");
        }
    }
    sink.noteCase(hmix(caseSeed(a, c, 2), hashStr(pi.name) + objKind), checked > 0);
    if (checked > 0)
        sink.sample(J().str("kind", "C04 planner case").str("planner", pi.name).str("objective", OBJN[objKind]).str("space", KIND_NAME[kind]).b("finite_threshold", finiteThr).i("rounds", rounds).i("costs_recomputed", checked));
}

static void c04Ranking(Sink &sink, const Args &a, long c)
{
    Rng rng(caseSeed(a, c));
    auto w = makeWorld(hmix(splitmix(a.seed), 0xC04AA), K_R2, false, 0);
    const PInfo &pi = registry()[0];
    OracleCtx ctx{sink, *w, pi, "C04", ""};
    int mode = rng.ui(3);  // 0: no objective, 1: path length (min), 2: clearance (max is better)
    ob::OptimizationObjectivePtr opt;
    if (mode == 1) opt = std::make_shared<ob::PathLengthOptimizationObjective>(w->si);
    if (mode == 2) opt = std::make_shared<ob::MaximizeMinClearanceObjective>(w->si);
    double thr = rng.uni(1, 9);
    if (opt) opt->setCostThreshold(ob::Cost(thr));
    auto pdef = makePdef(*w, false);
    if (opt) pdef->setOptimizationObjective(opt);
    int n = 1 + rng.ui(rng.coin(0.2) ? 200 : 20);
    int distinctVals = 1 + rng.ui(6);  // heavy ties
    for (int i = 0; i < n; ++i)
    {
        auto path = std::make_shared<og::PathGeometric>(w->si);
        ob::ScopedState<> s(w->space);
        double L = 0.5 + (double)rng.ui(distinctVals) * 1.25;
        s[0] = 0.1;
        s[1] = 0.1;
        path->append(s.get());
        s[0] = 0.1 + L;
        path->append(s.get());
        ob::PlannerSolution sol(path);
        if (rng.coin(0.35)) sol.setApproximate((double)rng.ui(distinctVals) * 0.5);
        if (opt)
        {
            double cost = mode == 1 ? L : (double)rng.ui(distinctVals) * 1.5;
            sol.setOptimized(opt, ob::Cost(cost), opt->isSatisfied(ob::Cost(cost)));
        }
        pdef->addSolutionPath(sol);
        if (rng.coin(0.1)) checkRanking(ctx, pdef->getSolutions(), "ProblemDefinition");
    }
    auto sols = pdef->getSolutions();
    if ((int)sols.size() != n) sink.viol("C04:ranking-count:ProblemDefinition", ctx.detail("number of stored solutions differs from number added").i("got", sols.size()).i("want", n));
    checkRanking(ctx, sols, "ProblemDefinition");
    // best-first accessors
    if (!sols.empty())
    {
        ob::PlannerSolution top(nullptr);
        pdef->getSolution(top);
        if (top.path_ != sols[0].path_ || pdef->getSolutionPath() != sols[0].path_ || pdef->hasApproximateSolution() != sols[0].approximate_ ||
            pdef->hasExactSolution() != !sols[0].approximate_ || pdef->hasOptimizedSolution() != sols[0].optimized_)
            sink.viol("C04:ranking-accessors:ProblemDefinition", ctx.detail("best-solution accessors disagree with the first element of getSolutions()"));
        // no solution ranked below is strictly better than the top one
        for (auto &s2 : sols)
            if (orderedBefore(s2, sols[0]))
            {
                sink.viol("C04:ranking-top:ProblemDefinition", ctx.detail("a stored solution is strictly better than the one handed out first"));
                break;
            }
    }
    sink.count("c04_ranking_multisets");
    sink.count("c04_ranking_solutions", n);
    sink.noteCase(hmix(caseSeed(a, c, 2), n * 7 + mode), n >= 2);
    sink.sample(J().str("kind", "C04 ranking multiset").i("solutions", n).i("mode", mode).i("distinct_values", distinctVals));
}

static long g_c04PlannerCases = 0;
static void c04(Sink &sink, const Args &a, long c)
{
    if (c < g_c04PlannerCases) c04Planner(sink, a, c, c);
    else c04Ranking(sink, a, c);
}

// ------------------------------------------------------------------------------------------------------
// C20: fingerprints; the driver runs every shard in several processes with the same seed and compares
// ------------------------------------------------------------------------------------------------------
static void emitFp(const Args &a, const std::string &name, uint64_t h)
{
    FILE *f = fopen(a.out.c_str(), "a");
    if (!f) return;
    fprintf(f, "{\"t\":\"fp\",\"name\":\"%s\",\"h\":\"%016llx\"}\n", jesc(name).c_str(), (unsigned long long)h);
    fclose(f);
}

static uint64_t drawTable(ompl::RNG &r, int skew)
{
    uint64_t h = 0;
    // consume odd numbers of gaussians / sphere vectors first when asked to (cached second normal etc.)
    for (int i = 0; i < skew; ++i) (void)r.gaussian01();
    for (int i = 0; i < 32; ++i)
    {
        h = hmixd(h, r.uniform01());
        h = hmixd(h, r.uniformReal(-3, 7));
        h = hmix(h, (uint64_t)r.uniformInt(-5, 500));
        h = hmixd(h, r.gaussian01());
        h = hmixd(h, r.gaussian(2, 3));
        h = hmixd(h, r.halfNormalReal(0, 10));
        h = hmix(h, (uint64_t)r.halfNormalInt(0, 10));
        h = hmix(h, (uint64_t)r.uniformBool());
        double q[4];
        r.quaternion(q);
        for (double v : q) h = hmixd(h, v);
        double e[3];
        r.eulerRPY(e);
        for (double v : e) h = hmixd(h, v);
        std::vector<double> v(3 + i % 4);
        r.uniformNormalVector(v);
        for (double x : v) h = hmixd(h, x);
        r.uniformInBall(2.0, v);
        for (double x : v) h = hmixd(h, x);
    }
    return h;
}

// runs in a FRESH process (see main): the seed is set before any generator exists
static void c20Case(Sink &sink, const Args &a, long c)
{
    vf::perturbHeapHistory();
    const auto &R = registry();
    std::vector<const PInfo *> single;
    for (auto &p : R)
        if (!p.mt) single.push_back(&p);
    long nplan = single.size();
    uint64_t seed = caseSeed(a, c, 1) % 1000000000ULL + 1;
    // seed 0 is special-cased by the library ("cannot be 0, using 1 instead"): still one fixed stream in every process
    if (c % 5 == 3) seed = 0;
    ompl::RNG::setSeed(seed);
    if (c % (nplan + 1) == nplan)
    {
        // RNG part
        long idx = c / (nplan + 1);
        std::vector<std::unique_ptr<ompl::RNG>> gens;
        std::string tag = "rng:" + std::to_string(idx);
        for (int i = 0; i < 6; ++i)
        {
            gens.emplace_back(new ompl::RNG());
            emitFp(a, tag + ":gen" + std::to_string(i) + ":localseed", gens.back()->getLocalSeed());
            emitFp(a, tag + ":gen" + std::to_string(i) + ":draws", drawTable(*gens.back(), 0));
        }
        // generators created through samplers of several spaces
        {
            auto sp = std::make_shared<ob::SE3StateSpace>();
            ob::RealVectorBounds b(3);
            b.setLow(-1);
            b.setHigh(1);
            sp->setBounds(b);
            auto sm = sp->allocStateSampler();
            ob::ScopedState<> st(sp);
            uint64_t h = 0;
            for (int i = 0; i < 16; ++i)
            {
                sm->sampleUniform(st.get());
                for (double v : st.reals()) h = hmixd(h, v);
                sm->sampleGaussian(st.get(), st.get(), 0.3);
                for (double v : st.reals()) h = hmixd(h, v);
            }
            emitFp(a, tag + ":sampler:SE3", h);
        }
        // re-seeding with the local seed reproduces the stream (after odd numbers of gaussians were consumed)
        bool ok = true;
        for (int i = 0; i < 6; ++i)
        {
            ompl::RNG &g = *gens[i];
            std::uint_fast32_t ls = g.getLocalSeed();
            g.setLocalSeed(ls);
            uint64_t h1 = drawTable(g, 0);
            (void)g.gaussian01();
            std::vector<double> v(3);
            g.uniformNormalVector(v);
            g.setLocalSeed(ls);
            uint64_t h2 = drawTable(g, 0);
            if (h1 != h2)
            {
                ok = false;
                sink.viol("C20:local-seed-reseed:RNG", J().str("what", "stream after setLocalSeed(getLocalSeed()) differs from the stream after the previous reseed").i("generator", i));
            }
            sink.count("c20_reseed_checks");
        }
        (void)ok;
        sink.noteCase(hmix(seed, 0x20), true);
        sink.count("c20_rng_cases");
        return;
    }
    const PInfo &pi = *single[c % (nplan + 1)];
    sink.subject(pi.name);
    long widx = c / (nplan + 1);
    // SORRT*'s ordered rejection sampler can spend minutes inside ONE sampling call when the informed set is thin (it fills a
    // whole batch by rejection without looking at the termination condition): a liveness matter outside C20, which would only
    // stall the check. It keeps the first eight worlds (where no run does that), not the cluttered / narrow ones added later.
    if (pi.name == "SORRTstar" && (widx >= 8 || widx % 3 == 2))
    {
        sink.count("c20_skipped_sorrtstar_thin_informed_set_worlds");
        sink.noteCase(0, false);
        return;
    }
    // (the weighted compound has a zero-weight component in half of its worlds: every state carries a coordinate that no
    // distance sees - a sampler or copy that leaves it unwritten makes the result depend on what the heap held before)
    static const int KINDS[] = {K_R2, K_SE2, K_SE3, K_CMP, K_R3, K_CMP};
    int kind = KINDS[widx % 6];
    zeroWeightCmpFraction() = 0.5;
    uint64_t wseed = hmix(hmix(splitmix(a.seed), 0xC20), widx);
    // every third world is cluttered (20-45 small obstacles) or has a narrow passage, and is run with the full budget: lazy planners then discard and
    // re-grow parts of their trees many times, which is where an order that depends on where nodes happen to lie in memory
    // (pointer-keyed containers, pointer comparisons) changes the result
    const bool hard = widx % 3 == 2;
    auto w = makeWorld(wseed, kind, false, hard ? (widx % 6 == 2 ? -4 : -3) : -1);   // -4 cluttered, -3 narrow passage
    w->rangeMode = 0;
    Rng rng(caseSeed(a, c));
    auto pdef = makePdef(*w);
    std::string name = "planner:" + pi.name + ":w" + std::to_string(widx);
    try
    {
        auto planner = makePlanner(pi, *w, rng);
        planner->setProblemDefinition(pdef);
        planner->setup();
        EvalPTC e(hard ? (long)pi.budget : std::max(300L, (long)pi.budget / 2), !pi.optimizing, pdef);
        ob::PlannerStatus st = planner->solve(e.ptc);
        uint64_t h = hmix((uint64_t)(ob::PlannerStatus::StatusType)st, pdef->getSolutionCount());
        for (auto &sol : pdef->getSolutions()) h = hmix(h, pathFingerprint(*w, sol.path_));
        h = hmix(h, (uint64_t)e.evals.load());
        emitFp(a, name, h);
        sink.count("c20_planner_runs");
        if (pdef->getSolutionCount() > 0) sink.count("c20_planner_runs_with_solution");
        sink.noteCase(hmix(wseed, hashStr(pi.name)), pdef->getSolutionCount() > 0);
        sink.sample(J().str("kind", "C20 planner run").str("planner", pi.name).str("space", KIND_NAME[kind]).str("status", statusName(st)).i("solutions", pdef->getSolutionCount()).str("fingerprint", std::to_string(h)));
    }
    catch (const std::exception &ex)
    {
        emitFp(a, name, hashStr(std::string("exception:") + ex.what()));
        sink.count("c20_exception:" + pi.name);
        sink.noteCase(0, false);
    }
}

int main(int argc, char **argv)
{
    Args a = parseArgs(argc, argv);
    ompl::msg::setLogLevel(ompl::msg::LOG_NONE);
    Sink sink(a);
    long total = 0;
    void (*fn)(Sink &, const Args &, long) = nullptr;
    const long NP = registry().size();
    if (a.prop == "C01")
    {
        g_c01MainCases = (long)(NP * (a.thorough() ? 90 : 16) * a.scale);
        total = g_c01MainCases + (long)(dirOptPlanners().size() * (a.thorough() ? 200 : 40) * a.scale);
        fn = c01;
    }
    else if (a.prop == "C03") total = NP * ((a.thorough() ? 33 * 3 : 9 * 2) + (a.thorough() ? 60 : 12)), fn = c03;
    else if (a.prop == "C04")
    {
        g_c04MainCases = (long)(optPlanners().size() * 5 * (a.thorough() ? 12 : 2) * a.scale);
        g_c04ItBlockStart = g_c04MainCases + (long)(optPlanners().size() * (a.thorough() ? 30 : 5) * a.scale);
        g_c04PlannerCases = g_c04ItBlockStart + (long)(3 * (a.thorough() ? 60 : 12) * a.scale);
        total = g_c04PlannerCases + (a.thorough() ? 20000 : 3000);
        fn = c04;
    }
    else if (a.prop == "C20")
    {
        long nsingle = 0;
        for (auto &p : registry()) nsingle += !p.mt;
        total = (nsingle + 1) * (a.thorough() ? 42 : 12);
        fn = c20Case;
    }
    else
    {
        fprintf(stderr, "h_planners does not serve %s\n", a.prop.c_str());
        return 2;
    }
    if (a.prop != "C04" && a.prop != "C01") total = (long)(total * a.scale);
    const bool freshProcessPerCase = a.prop == "C20" && a.onlyCase < 0;
    for (long c = 0; c < total; ++c)
    {
        if (!mine(a, c) || !sink.wanted(c)) continue;
        if (freshProcessPerCase)
        {
            // C20: every case runs in its own process so that the global seed is set before any generator exists
            sink.begin(c);
            std::string cmd = std::string("/proc/self/exe");
            char exe[4096];
            ssize_t n = readlink("/proc/self/exe", exe, sizeof exe - 1);
            if (n <= 0) return 2;
            exe[n] = 0;
            std::string call = std::string(exe) + " --prop C20 --seed " + std::to_string(a.seed) + " --tier " + a.tier + " --only-case " + std::to_string(c) + " --out " + a.out + ".child";
            int rc = system(call.c_str());
            // merge the child's records (fingerprints, violations, counters)
            FILE *cf = fopen((a.out + ".child").c_str(), "r");
            bool childDone = false;
            if (cf)
            {
                char *line = nullptr;
                size_t cap = 0;
                while (getline(&line, &cap, cf) > 0)
                {
                    std::string l(line);
                    if (l.find("\"t\":\"done\"") != std::string::npos) childDone = true;
                    if (l.find("\"t\":\"begin\"") != std::string::npos) continue;
                    sink.rawLine(l);
                }
                free(line);
                fclose(cf);
                remove((a.out + ".child").c_str());
            }
            if (rc != 0 || !childDone)
            {
                fprintf(stderr, "C20 child for case %ld failed rc=%d\n", c, rc);
                return 3;  // the driver treats it as a crash of this case
            }
            sink.count("cases", -1);  // the child counted it
            continue;
        }
        sink.begin(c);
        fn(sink, a, c);
    }
    sink.done();
    return 0;
}
