// Shared plumbing for all verification harnesses: argument parsing, seeded PRNG, JSONL event output.
// Protocol (read by /verif/vcheck):
//   {"t":"begin","case":i}                        flushed before a case starts (crash / hang attribution)
//   {"t":"viol","key":K,"case":i,"detail":{...}}  a violation witness (first few per key; the rest only counted)
//   {"t":"sample","v":{...}}                      a written-out case for the evidence file
//   {"t":"done","stats":{...},"hashes":[...],"violcount":{key:n}}  end marker with counters and case hashes
#pragma once
#include <cstdint>
#include <cstdio>
#include <cstdlib>
#include <cstring>
#include <cmath>
#include <map>
#include <random>
#include <set>
#include <sstream>
#include <string>
#include <unordered_set>
#include <vector>
#include <functional>
#include <limits>
#include <new>
#include <climits>
#include <atomic>
#include <chrono>
#include <fcntl.h>
#include <unistd.h>

namespace vf
{
    struct Args
    {
        std::string prop;
        uint64_t seed = 1;
        int shard = 0, nshards = 1;
        std::string tier = "quick";
        std::string out;
        long onlyCase = -1;
        long startCase = 0;
        double scale = 1.0;  // multiplies the default number of cases
        std::map<std::string, std::string> extra;
        bool thorough() const { return tier == "thorough"; }
        std::string get(const std::string &k, const std::string &d = "") const
        {
            auto it = extra.find(k);
            return it == extra.end() ? d : it->second;
        }
    };

    inline Args parseArgs(int argc, char **argv)
    {
        Args a;
        for (int i = 1; i < argc; ++i)
        {
            std::string k = argv[i];
            auto val = [&]() -> std::string {
                if (i + 1 >= argc)
                {
                    fprintf(stderr, "missing value for %s\n", k.c_str());
                    exit(2);
                }
                return argv[++i];
            };
            if (k == "--prop") a.prop = val();
            else if (k == "--seed") a.seed = strtoull(val().c_str(), nullptr, 10);
            else if (k == "--shard") a.shard = atoi(val().c_str());
            else if (k == "--nshards") a.nshards = atoi(val().c_str());
            else if (k == "--tier") a.tier = val();
            else if (k == "--out") a.out = val();
            else if (k == "--only-case") a.onlyCase = atol(val().c_str());
            else if (k == "--start-case") a.startCase = atol(val().c_str());
            else if (k == "--scale") a.scale = atof(val().c_str());
            else if (k.rfind("--", 0) == 0) a.extra[k.substr(2)] = val();
            else
            {
                fprintf(stderr, "unknown argument %s\n", k.c_str());
                exit(2);
            }
        }
        if (a.prop.empty())
        {
            fprintf(stderr, "--prop required\n");
            exit(2);
        }
        return a;
    }

    // ---- hashing / seeding -------------------------------------------------------------------------------
    inline uint64_t splitmix(uint64_t x)
    {
        x += 0x9e3779b97f4a7c15ULL;
        x = (x ^ (x >> 30)) * 0xbf58476d1ce4e5b9ULL;
        x = (x ^ (x >> 27)) * 0x94d049bb133111ebULL;
        return x ^ (x >> 31);
    }
    inline uint64_t hashStr(const std::string &s)
    {
        uint64_t h = 1469598103934665603ULL;
        for (unsigned char c : s)
        {
            h ^= c;
            h *= 1099511628211ULL;
        }
        return h;
    }
    inline uint64_t hashBytes(const void *p, size_t n, uint64_t h = 1469598103934665603ULL)
    {
        auto *c = static_cast<const unsigned char *>(p);
        for (size_t i = 0; i < n; ++i)
        {
            h ^= c[i];
            h *= 1099511628211ULL;
        }
        return h;
    }
    inline uint64_t hmix(uint64_t h, uint64_t v) { return splitmix(h ^ splitmix(v)); }

    // A replica-specific heap history (the driver sets VERIF_REPLICA): blocks of the sizes planners use are allocated and a
    // replica-dependent subset is freed before the library is touched, so that the holes later allocations fall into - and with
    // them the RELATIVE order and spacing of tree nodes in memory - differ between the processes that are compared. A uniform
    // shift of the heap (ASLR) leaves every pointer comparison and every pointer-hash collision pattern unchanged; this does not.
    // Effective under glibc's allocator (plain variant); ASan's allocator does not reuse freed chunks soon.
    inline void perturbHeapHistory()
    {
        const char *rep = getenv("VERIF_REPLICA");
        long r = rep ? atol(rep) : 0;
        if (r <= 0) return;
        uint64_t st = splitmix(0x4ea9ULL * (uint64_t)(r + 1));
        static std::vector<void *> keep;   // stays allocated for the life of the process
        std::vector<void *> blocks;
        static const size_t SZ[] = {16, 24, 32, 40, 48, 56, 64, 72, 80, 96, 112, 128, 160, 192, 256, 384, 512, 1024};
        const long n = 3000 + 1500 * r;
        for (long i = 0; i < n; ++i)
        {
            st = splitmix(st);
            blocks.push_back(::operator new(SZ[st % (sizeof SZ / sizeof SZ[0])]));
        }
        for (void *p : blocks)
        {
            st = splitmix(st);
            if (st % 3 == 0) keep.push_back(p);
            else ::operator delete(p);
        }
    }
    inline uint64_t hmixd(uint64_t h, double d)
    {
        uint64_t u;
        memcpy(&u, &d, 8);
        return hmix(h, u);
    }
    inline uint64_t caseSeed(const Args &a, long c, uint64_t salt = 0)
    {
        uint64_t h = splitmix(a.seed);
        h = hmix(h, hashStr(a.prop));
        h = hmix(h, (uint64_t)c);  // independent of the sharding, so `--only-case c` replays it in any layout
        h = hmix(h, salt);
        return h;
    }

    struct Rng
    {
        std::mt19937_64 g;
        explicit Rng(uint64_t s) : g(s) {}
        uint64_t u64() { return g(); }
        double u01() { return (g() >> 11) * (1.0 / 9007199254740992.0); }
        double uni(double a, double b) { return a + (b - a) * u01(); }
        // integer in [0,n)
        uint64_t ui(uint64_t n) { return n == 0 ? 0 : g() % n; }
        int range(int lo, int hi) { return lo + (int)ui((uint64_t)(hi - lo + 1)); }  // inclusive
        bool coin(double p = 0.5) { return u01() < p; }
        double logUni(double a, double b) { return std::exp(uni(std::log(a), std::log(b))); }
        double gauss()
        {
            std::normal_distribution<double> d(0, 1);
            return d(g);
        }
        template <class T>
        const T &pick(const std::vector<T> &v)
        {
            return v[ui(v.size())];
        }
    };

    // ---- tiny JSON builder -------------------------------------------------------------------------------
    inline std::string jesc(const std::string &s)
    {
        std::string o;
        for (unsigned char c : s)
        {
            if (c == '"') o += "\\\"";
            else if (c == '\\') o += "\\\\";
            else if (c == '\n') o += "\\n";
            else if (c < 0x20)
            {
                char b[8];
                snprintf(b, sizeof b, "\\u%04x", c);
                o += b;
            }
            else
                o += (char)c;
        }
        return o;
    }
    inline std::string jnum(double d)
    {
        if (std::isnan(d)) return "\"nan\"";
        if (std::isinf(d)) return d > 0 ? "\"inf\"" : "\"-inf\"";
        char b[40];
        snprintf(b, sizeof b, "%.17g", d);
        return b;
    }
    struct J
    {
        std::string s = "{";
        bool first = true;
        J &raw(const std::string &k, const std::string &v)
        {
            if (!first) s += ",";
            first = false;
            s += "\"" + jesc(k) + "\":" + v;
            return *this;
        }
        J &str(const std::string &k, const std::string &v) { return raw(k, "\"" + jesc(v) + "\""); }
        J &num(const std::string &k, double v) { return raw(k, jnum(v)); }
        J &i(const std::string &k, long long v) { return raw(k, std::to_string(v)); }
        J &u(const std::string &k, unsigned long long v) { return raw(k, std::to_string(v)); }
        J &b(const std::string &k, bool v) { return raw(k, v ? "true" : "false"); }
        J &arr(const std::string &k, const std::vector<double> &v)
        {
            std::string a = "[";
            for (size_t j = 0; j < v.size(); ++j) a += (j ? "," : "") + jnum(v[j]);
            return raw(k, a + "]");
        }
        J &arrs(const std::string &k, const std::vector<std::string> &v)
        {
            std::string a = "[";
            for (size_t j = 0; j < v.size(); ++j) a += std::string(j ? "," : "") + "\"" + jesc(v[j]) + "\"";
            return raw(k, a + "]");
        }
        J &obj(const std::string &k, const J &o) { return raw(k, o.done()); }
        std::string done() const { return s + "}"; }
    };

    // ---- heartbeat ---------------------------------------------------------------------------------------
    // Long-running cases (a planner that is slow per evaluation) must not look like hangs: whoever is evaluated regularly
    // (the termination condition) calls heartbeat(), which appends a tiny record at most once per second through its own
    // O_APPEND descriptor (plain write(2): no stdio locks, safe from any thread). The driver's hang detection looks at the
    // modification time of the output file, so a hang is "no case finished AND no heartbeat for case_timeout seconds".
    inline int g_hbFd = -1;
    inline std::atomic<long long> g_hbLast{0};
    inline void heartbeat()
    {
        if (g_hbFd < 0) return;
        long long now = std::chrono::duration_cast<std::chrono::milliseconds>(std::chrono::steady_clock::now().time_since_epoch()).count();
        long long last = g_hbLast.load(std::memory_order_relaxed);
        if (now - last < 1000) return;
        if (!g_hbLast.compare_exchange_strong(last, now, std::memory_order_relaxed)) return;
        static const char rec[] = "{\"t\":\"hb\"}\n";
        ssize_t r = ::write(g_hbFd, rec, sizeof rec - 1);
        (void)r;
    }

    // ---- event sink --------------------------------------------------------------------------------------
    class Sink
    {
    public:
        explicit Sink(const Args &a) : args_(a)
        {
            f_ = a.out.empty() ? stdout : fopen(a.out.c_str(), "a");
            if (!f_)
            {
                perror("open out");
                exit(2);
            }
            if (!a.out.empty()) g_hbFd = ::open(a.out.c_str(), O_WRONLY | O_APPEND);
        }
        void begin(long c)
        {
            cur_ = c;
            fprintf(f_, "{\"t\":\"begin\",\"case\":%ld}\n", c);
            fflush(f_);
            ++stats_["cases"];
        }
        // names the subject of the running case (e.g. the planner) so that a crash / hang can be keyed by it
        void subject(const std::string &s)
        {
            fprintf(f_, "{\"t\":\"subject\",\"case\":%ld,\"s\":\"%s\"}\n", cur_, jesc(s).c_str());
            fflush(f_);
        }
        // forwards a record produced by a child process verbatim (its 'done' record is summed by the driver like any other)
        void rawLine(const std::string &l)
        {
            fputs(l.c_str(), f_);
            if (l.empty() || l.back() != '\n') fputc('\n', f_);
            fflush(f_);
        }
        long cur() const { return cur_; }
        // whether the driver asked for this case (sharding of a global case index is done by the caller)
        bool wanted(long c) const
        {
            if (args_.onlyCase >= 0) return c == args_.onlyCase;
            return c >= args_.startCase;
        }
        void viol(const std::string &key, const J &detail)
        {
            long n = ++violCount_[key];
            if (n <= 3)
            {
                fprintf(f_, "{\"t\":\"viol\",\"key\":\"%s\",\"case\":%ld,\"detail\":%s}\n", jesc(key).c_str(), cur_,
                        detail.done().c_str());
                fflush(f_);
            }
        }
        long violTotal() const
        {
            long n = 0;
            for (auto &kv : violCount_) n += kv.second;
            return n;
        }
        void count(const std::string &name, long long n = 1) { stats_[name] += n; }
        void maxstat(const std::string &name, double v)
        {
            auto it = maxs_.find(name);
            if (it == maxs_.end() || v > it->second) maxs_[name] = v;
        }
        // record a case hash; nontrivial by the harness's rule
        void noteCase(uint64_t h, bool nontrivial)
        {
            if (nontrivial) hashes_.insert(h);
            else ++stats_["trivial_cases"];
        }
        void sample(const J &v, size_t cap = 3)
        {
            if (samples_ < cap)
            {
                ++samples_;
                fprintf(f_, "{\"t\":\"sample\",\"v\":%s}\n", v.done().c_str());
            }
        }
        void inconclusive(const std::string &why) { ++stats_["inconclusive:" + why]; }
        void done()
        {
            std::string s = "{\"t\":\"done\",\"stats\":{";
            bool first = true;
            for (auto &kv : stats_)
            {
                s += std::string(first ? "" : ",") + "\"" + jesc(kv.first) + "\":" + std::to_string(kv.second);
                first = false;
            }
            s += "},\"max\":{";
            first = true;
            for (auto &kv : maxs_)
            {
                s += std::string(first ? "" : ",") + "\"" + jesc(kv.first) + "\":" + jnum(kv.second);
                first = false;
            }
            s += "},\"violcount\":{";
            first = true;
            for (auto &kv : violCount_)
            {
                s += std::string(first ? "" : ",") + "\"" + jesc(kv.first) + "\":" + std::to_string(kv.second);
                first = false;
            }
            s += "},\"hashes\":[";
            first = true;
            for (auto h : hashes_)
            {
                char b[24];
                snprintf(b, sizeof b, "%s\"%llx\"", first ? "" : ",", (unsigned long long)h);
                s += b;
                first = false;
            }
            s += "]}\n";
            fputs(s.c_str(), f_);
            fflush(f_);
        }
        std::map<std::string, long long> &stats() { return stats_; }

    private:
        Args args_;
        FILE *f_;
        long cur_ = -1;
        size_t samples_ = 0;
        std::map<std::string, long long> stats_;
        std::map<std::string, double> maxs_;
        std::map<std::string, long> violCount_;
        std::unordered_set<uint64_t> hashes_;
    };

    // number of cases for this shard: total cases of the tier are split round-robin: case c belongs to shard c % nshards
    inline bool mine(const Args &a, long c) { return (c % a.nshards) == a.shard; }
}  // namespace vf
